"""Finding 1: solve_sat livelocks when it restarts after every conflict (luby_factor=0,
or any luby_factor small enough that luby_factor*luby(i) <= 1).

A learned clause is watched on (uip, clause[1]); clause[1] is an arbitrary literal and is often
one that is already false at level 0 (analyze() keeps level-0 literals in learned clauses).
After the restart the clause is effectively watched by one literal only, its unit propagation is
missed, the same conflict is met again, the same clause is learned again ... two clauses are
learned alternately for ever.  The loop is only broken by max_restarts / max_conflicts, so
  - with the default limits (or max_restarts=2000) a satisfiable 5-variable formula comes back MAX_ITER / None,
  - with large limits (both are inside the property's quantifier) the call does not return.
"""
import os, sys, signal, itertools, time
sys.path.insert(0, os.getcwd())
from solvor.sat import solve_sat

clauses = [[5, 3, 4], [4, -5, -2, 3], [3, -4, 1], [4, -3, -5], [5, -3], [-4, -1, -2]]
assumptions = [2]

def is_model(m):
    return all(any(m[abs(l)] == (l > 0) for l in c) for c in clauses) and all(m[abs(a)] == (a > 0) for a in assumptions)

models = [m for m in ({i + 1: b for i, b in enumerate(bits)} for bits in itertools.product([False, True], repeat=5)) if is_model(m)]
print("clauses     =", clauses)
print("assumptions =", assumptions)
print("brute force : %d model(s): %s" % (len(models), models))

class Timeout(Exception):
    pass

def on_alarm(*_):
    raise Timeout()

signal.signal(signal.SIGALRM, on_alarm)
bad = False

# (a) max_restarts=2000 (the default 10000 gives the same answer after ~50 s): the search space has 32 points
t = time.time()
r = solve_sat(clauses, assumptions=assumptions, luby_factor=0, max_restarts=2000)
print("(a) luby_factor=0, max_restarts=2000 -> status=%s solution=%r decisions=%d (%.1fs)" % (r.status.name, r.solution, r.iterations, time.time() - t))
if r.solution is None and models:
    print("    satisfiable 5-variable formula, but no model after %d decisions: the search cycles" % r.iterations)
    bad = True

# (b) large limits: no return at all
signal.alarm(20)
try:
    t = time.time()
    r = solve_sat(clauses, assumptions=assumptions, luby_factor=0, max_restarts=10**9, max_conflicts=10**9)
    print("(b) luby_factor=0, max_restarts=max_conflicts=10**9 -> status=%s solution=%r (%.1fs)" % (r.status.name, r.solution, time.time() - t))
except Timeout:
    print("(b) luby_factor=0, max_restarts=max_conflicts=10**9 -> NO RETURN within 20 s on a 5-variable, 6-clause formula (non-termination)")
    bad = True
finally:
    signal.alarm(0)

# control: same input with the default luby_factor is solved at once
r = solve_sat(clauses, assumptions=assumptions)
print("control luby_factor=100 -> status=%s solution=%r decisions=%d" % (r.status.name, r.solution, r.iterations))
sys.exit(1 if bad else 0)
