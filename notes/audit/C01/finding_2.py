"""Finding 2 (arguable): for a formula whose only clauses are empty clauses, solve_sat hands back the
assignment {} (not None).  {} does not make the empty clause true, so the returned assignment is not a
model.  The status label is INFEASIBLE, which is right, but every other infeasible path returns
solution=None; a caller that tests `result.solution is not None` receives a non-model here.
"""
import os, sys
sys.path.insert(0, os.getcwd())
from solvor.sat import solve_sat

bad = False
for clauses, kw in [([[]], {}), ([[], []], {}), ([[]], {"solution_limit": 5}), ([()], {"assumptions": []})]:
    r = solve_sat(clauses, **kw)
    print("solve_sat(%r, %s) -> status=%s solution=%r solutions=%r" % (clauses, kw, r.status.name, r.solution, r.solutions))
    if r.solution is not None:
        sat = all(any(r.solution.get(abs(l)) == (l > 0) for l in c) for c in clauses)
        print("   returned assignment %r satisfies every clause: %s" % (r.solution, sat))
        if not sat:
            bad = True
r = solve_sat([[], [1]])
print("compare: solve_sat([[], [1]]) -> status=%s solution=%r  (None, as on every other infeasible path)" % (r.status.name, r.solution))
sys.exit(1 if bad else 0)
