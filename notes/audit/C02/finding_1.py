"""C02 finding 1: the empty formula given as an empty one-shot iterable (generator / iter / map)
is answered INFEASIBLE, although the empty CNF is satisfied by every assignment.

Non-empty generators are accepted and solved correctly, and the same empty formula given as [] or ()
is answered OPTIMAL {}; only the emptiness test `if not clauses and not assumptions` is fooled
(a generator object is always truthy), so the call falls through to the `n_vars == 0` branch
that was written for "clauses exist but are all empty" and returns INFEASIBLE.
"""
import os
import sys

sys.path.insert(0, os.getcwd())

from solvor.sat import solve_sat  # noqa: E402
from solvor.types import Status  # noqa: E402

cases = [
    ("solve_sat(iter([]))", lambda: solve_sat(iter([]))),
    ("solve_sat(c for c in [])", lambda: solve_sat(c for c in [])),
    ("solve_sat(map(list, []))", lambda: solve_sat(map(list, []))),
    ("solve_sat([], assumptions=iter([]))", lambda: solve_sat([], assumptions=iter([]))),
    ("solve_sat((), assumptions=(l for l in []))", lambda: solve_sat((), assumptions=(lit for lit in []))),
]

# control: same objects, non-empty -> handled fine; same formula as a list -> OPTIMAL
ctrl = solve_sat(c for c in [[1, 2], [-1]])
print("control  solve_sat(generator of [[1,2],[-1]]) ->", ctrl.status.name, ctrl.solution)
ctrl2 = solve_sat([])
print("control  solve_sat([]) ->", ctrl2.status.name, ctrl2.solution)

violations = 0
for label, call in cases:
    res = call()
    wrong = res.status == Status.INFEASIBLE
    print(f"{label} -> {res.status.name} solution={res.solution!r}", "  <-- VIOLATION" if wrong else "")
    if wrong:
        violations += 1

if violations:
    print(
        f"\n{violations} call(s) answered INFEASIBLE for the empty formula with no assumptions. "
        "The empty CNF has a model (the empty assignment, returned as {} for the list form), so the statement "
        "'answers INFEASIBLE only when the formula together with the assumptions has no model' is violated."
    )
    sys.exit(1)
print("\nno violation: empty iterables are answered like the empty list")
sys.exit(0)
