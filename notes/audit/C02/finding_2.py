"""C02 finding 2 (arguable): a one-clause formula whose only variable has a large index does not
'come back' with a verdict: solve_sat raises MemoryError / OverflowError.

solve_sat sizes a dozen dense lists by the LARGEST variable index (n_vars = max |lit|), not by the
number of distinct variables. [[2**53]] is a well-formed CNF (one unit clause, one variable), trivially
satisfiable, yet the call raises instead of returning OPTIMAL/INFEASIBLE/MAX_ITER.
(2**53 and 2**63 are used because the allocation then fails immediately instead of exhausting the machine;
with moderately large indices such as 10**9 the call tries to allocate tens of GB.)
"""
import os
import sys

sys.path.insert(0, os.getcwd())

try:
    import resource

    # safety net so that a half-fixed version cannot eat the machine
    resource.setrlimit(resource.RLIMIT_AS, (4 * 1024**3, 4 * 1024**3))
except Exception:
    pass

from solvor.sat import solve_sat  # noqa: E402
from solvor.types import Status  # noqa: E402

cases = [
    ("solve_sat([[2**53]])", [[2**53]], {}),
    ("solve_sat([[-(2**53)], [2**53, 1]])", [[-(2**53)], [2**53, 1]], {}),
    ("solve_sat([[2**63]])", [[2**63]], {}),
    ("solve_sat([[1, 2]], assumptions=[2**62])", [[1, 2]], {"assumptions": [2**62]}),
]

violations = 0
for label, clauses, kw in cases:
    try:
        res = solve_sat(clauses, **kw)
    except BaseException as e:  # MemoryError / OverflowError
        print(f"{label} -> raised {type(e).__name__}: {str(e)[:80]}   <-- VIOLATION (no verdict returned)")
        violations += 1
        continue
    ok = res.status == Status.OPTIMAL and isinstance(res.solution, dict)
    if ok:
        sol = res.solution
        ok = all(any(sol.get(abs(l)) == (l > 0) for l in c) for c in clauses) and all(
            sol.get(abs(l)) == (l > 0) for l in kw.get("assumptions", [])
        )
    print(f"{label} -> {res.status.name}", "" if ok else "  <-- VIOLATION (satisfiable, no valid model)")
    if not ok:
        violations += 1

if violations:
    print(
        f"\n{violations} satisfiable formulas with 1-2 clauses produced an exception instead of a verdict; "
        "the statement says every call returns with OPTIMAL, INFEASIBLE or MAX_ITER."
    )
    sys.exit(1)
print("\nno violation")
sys.exit(0)
