"""C03 finding 1: solve_lp answers INFEASIBLE on feasible integer LPs whose right-hand sides are
moderately large (1e5..1e6) - the phase-1 verdict compares the accumulated objective-row
entry with an ABSOLUTE 1e-10, which is below one ulp of the initial infeasibility sum."""
import os, sys
sys.path.insert(0, os.getcwd())
from fractions import Fraction as F
from solvor import solve_lp
from solvor.types import Status

# (c, A, b, minimize, exactly feasible witness x, true optimum)
CASES = [
    ([-8], [[1], [-7]], [400000, -800000], True, [F(400000)], F(-3200000)),
    ([1764], [[342], [-342], [-982]], [180234, -180234, -514949], True, [F(527)], F(1764 * 527)),
    ([5, 3, 7], [[2, -2, 4], [-9, 6, 8]], [-90000, -50000], True, [F(320000, 3), F(455000, 3), F(0)], None),
    ([1], [[7], [-7]], [1000000, -1000000], True, [F(1000000, 7)], F(1000000, 7)),
]
bad = 0
for c, A, b, mn, w, opt in CASES:
    feas = all(v >= 0 for v in w) and all(sum(F(a) * v for a, v in zip(row, w)) <= bi for row, bi in zip(A, b))
    r = solve_lp(c, A, b, minimize=mn)
    print("input  c=%r A=%r b=%r minimize=%r" % (c, A, b, mn))
    print("  exact witness x=%s satisfies all constraints (Fractions): %s" % ([str(v) for v in w], feas))
    print("  solve_lp ->", r)
    if feas and r.status == Status.INFEASIBLE:
        print("  VIOLATION: INFEASIBLE reported although a feasible point exists" + (" (true optimum %s)" % opt if opt is not None else ""))
        bad += 1
sys.exit(1 if bad else 0)
