"""C03 finding 2: solve_lp_interior answers OPTIMAL for an infeasible LP with zero variables
(c=[], A=[[]], b=[-1]): the early return `if m == 0 or n == 0` never looks at b.
solve_lp answers INFEASIBLE on the same input."""
import os, sys
sys.path.insert(0, os.getcwd())
from solvor import solve_lp, solve_lp_interior
from solvor.types import Status
bad = 0
for c, A, b in [([], [[]], [-1]), ([], [[], []], [0, -2])]:
    r = solve_lp_interior(c, A, b)
    s = solve_lp(c, A, b)
    print("input c=%r A=%r b=%r  (constraints read 0 <= b_i, so b_i<0 is infeasible)" % (c, A, b))
    print("  solve_lp_interior ->", r)
    print("  solve_lp          ->", s)
    if r.status == Status.OPTIMAL and any(bi < 0 for bi in b):
        print("  VIOLATION: interior point says OPTIMAL but the empty point violates a constraint (no feasible point exists)")
        bad += 1
sys.exit(1 if bad else 0)
