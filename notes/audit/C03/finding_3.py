"""C03 finding 3: with the public tolerance option eps=0 (or <=1e-15) solve_lp gives wrong verdicts
on tiny integer LPs, e.g. min x s.t. 3x>=7, x<=3 -> INFEASIBLE (true optimum 7/3)."""
import os, sys
sys.path.insert(0, os.getcwd())
from solvor import solve_lp
from solvor.types import Status
bad = 0
for c, A, b, eps, truth in [
    ([1], [[-3], [1]], [-7, 3], 0, "OPTIMAL x=7/3 obj=7/3"),
    ([1], [[-19]], [-17], 0, "OPTIMAL x=17/19"),
    ([1], [[-3], [1]], [-14, 5], 1e-15, "OPTIMAL x=14/3"),
]:
    r = solve_lp(c, A, b, eps=eps)
    d = solve_lp(c, A, b)
    print("input c=%r A=%r b=%r eps=%r ; truth: %s" % (c, A, b, eps, truth))
    print("  solve_lp(eps=%r) -> %r" % (eps, r))
    print("  solve_lp(default) -> %r" % (d,))
    if r.status != Status.OPTIMAL:
        print("  VIOLATION: feasible bounded LP not reported OPTIMAL (phase 1 treats -1e-16 rounding noise as infeasibility)")
        bad += 1
sys.exit(1 if bad else 0)
