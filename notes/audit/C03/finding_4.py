"""C03 finding 4: solve_lp_interior(..., eps=0) raises ZeroDivisionError on an infeasible LP
(statement: 'does not crash on infeasible or unbounded input')."""
import os, sys
sys.path.insert(0, os.getcwd())
from solvor import solve_lp_interior
bad = 0
for c, A, b in [([1], [[1]], [-1]), ([1, 1], [[1, 1], [-1, -1]], [2, -3])]:
    print("input c=%r A=%r b=%r eps=0 (infeasible LP)" % (c, A, b))
    try:
        r = solve_lp_interior(c, A, b, eps=0)
        print("  ->", r)
    except Exception as e:
        print("  VIOLATION: crashed with %r" % e)
        bad += 1
sys.exit(1 if bad else 0)
