"""C04 finding 1: solve_milp returns an INFEASIBLE point labelled OPTIMAL (coefficients <= 100, 2 variables).

maximize -100x + y   s.t.  -100x + y <= 0,  -x - 100y <= -1,  x <= 6,  y <= 6,  x,y >= 0 integer
"""
import itertools
import os
import signal
import sys
import warnings

sys.path.insert(0, os.getcwd())
warnings.simplefilter("ignore")
from solvor.milp import solve_milp  # noqa: E402

signal.signal(signal.SIGALRM, lambda *a: (_ for _ in ()).throw(TimeoutError("hang")))


def brute(c, A, b, minimize, U):
    best = None
    for x in itertools.product(range(U + 1), repeat=len(c)):
        if all(sum(a * v for a, v in zip(row, x)) <= bi for row, bi in zip(A, b)):
            v = sum(ci * xi for ci, xi in zip(c, x))
            if best is None or (v < best[0] if minimize else v > best[0]):
                best = (v, x)
    return best


CASES = [
    # name, c, A, b, integers, minimize, box
    ("M=100 root LP", [-100, 1], [[-100, 1], [-1, -100], [1, 0], [0, 1]], [0, -1, 6, 6], [0, 1], False, 6),
    ("M=200 child LP", [-1, 0], [[200, -1], [1, -200], [0, 1], [1, 0]], [1000, 1, 1, 10], [0, 1], True, 10),
    ("M=1000 mixed", [1, 1], [[1000, 1], [0, -1000], [0, 1]], [1, -1, 1000], [1], False, None),
]

bad = 0
for name, c, A, b, ints, minimize, U in CASES:
    for opts in ({}, {"heuristics": False}, {"lns_iterations": 3, "seed": 0}, {"solution_limit": 3}):
        signal.alarm(20)
        r = solve_milp(c, A, b, ints, minimize=minimize, **opts)
        signal.alarm(0)
        print(f"[{name}] c={c} A={A} b={b} integers={ints} minimize={minimize} opts={opts}")
        print(f"   returned status={r.status.name} solution={r.solution} objective={r.objective}")
        if r.solution is not None and r.status.name in ("OPTIMAL", "FEASIBLE"):
            viol = [
                (i, sum(a * v for a, v in zip(row, r.solution)), bi)
                for i, (row, bi) in enumerate(zip(A, b))
                if sum(a * v for a, v in zip(row, r.solution)) > bi + 1e-6 * (1 + abs(bi))
            ]
            if viol:
                bad += 1
                for i, lhs, bi in viol:
                    print(f"   VIOLATION: row {i}: A[i].x = {lhs} > b[i] = {bi}  (solution is not feasible, yet status {r.status.name})")
        if U is not None:
            print(f"   brute-force optimum over the box: {brute(c, A, b, minimize, U)}")

print("violations:", bad)
sys.exit(1 if bad else 0)
