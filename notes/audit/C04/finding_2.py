"""C04 finding 2: solve_milp reports INFEASIBLE although an integer-feasible point exists
(even when that point is handed in as warm_start).

maximize -x - z  s.t.  -1000x + y + z <= -1,  -x - 1000y <= -1000,  x,y,z <= 3, integer.   (1,1,0) is feasible.
"""
import itertools
import os
import signal
import sys
import warnings

sys.path.insert(0, os.getcwd())
warnings.simplefilter("ignore")
from solvor.milp import solve_milp  # noqa: E402

signal.signal(signal.SIGALRM, lambda *a: (_ for _ in ()).throw(TimeoutError("hang")))

c = [-1, 0, -1]
A = [[-1000, 1, 1], [-1, -1000, 0], [1, 0, 0], [0, 1, 0], [0, 0, 1]]
b = [-1, -1000, 3, 3, 3]
ints = [0, 1, 2]

feas = [
    x
    for x in itertools.product(range(4), repeat=3)
    if all(sum(a * v for a, v in zip(row, x)) <= bi for row, bi in zip(A, b))
]
print("input: c=%s A=%s b=%s integers=%s maximize" % (c, A, b, ints))
print("integer-feasible points by enumeration:", feas[:5], "... total", len(feas))
bad = 0
for opts in ({}, {"heuristics": False}, {"warm_start": [1.0, 1.0, 0.0]}, {"warm_start": [1.0, 1.0, 0.0], "lns_iterations": 3}):
    signal.alarm(20)
    r = solve_milp(c, A, b, ints, minimize=False, **opts)
    signal.alarm(0)
    print("opts=%s -> status=%s solution=%s objective=%s" % (opts, r.status.name, r.solution, r.objective))
    if r.status.name == "INFEASIBLE" and feas:
        bad += 1
        print("   VIOLATION: INFEASIBLE reported but e.g. %s is integer-feasible" % (feas[0],))
print("violations:", bad)
sys.exit(1 if bad else 0)
