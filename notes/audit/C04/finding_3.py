"""C04 finding 3: status OPTIMAL with a feasible but clearly non-optimal point.

minimize -1000x + 1000y  s.t.  -x + z <= -2,  x - 1000y + 1000z <= -1,  x - y - 1000z <= 0,  x,y,z <= 3, integer.
True optimum -1000 at (3,2,1); solve_milp says OPTIMAL with objective ~0 at (2,2,0).
"""
import itertools
import os
import signal
import sys
import warnings

sys.path.insert(0, os.getcwd())
warnings.simplefilter("ignore")
from solvor.milp import solve_milp  # noqa: E402

signal.signal(signal.SIGALRM, lambda *a: (_ for _ in ()).throw(TimeoutError("hang")))

c = [-1000, 1000, 0]
A = [[-1, 0, 1], [1, -1000, 1000], [1, -1, -1000], [1, 0, 0], [0, 1, 0], [0, 0, 1]]
b = [-2, -1, 0, 3, 3, 3]
ints = [0, 1, 2]
best = None
for x in itertools.product(range(4), repeat=3):
    if all(sum(a * v for a, v in zip(row, x)) <= bi for row, bi in zip(A, b)):
        v = sum(ci * xi for ci, xi in zip(c, x))
        if best is None or v < best[0]:
            best = (v, x)
print("input: c=%s A=%s b=%s integers=%s minimize" % (c, A, b, ints))
print("brute-force optimum:", best)
bad = 0
for opts in ({}, {"heuristics": False}, {"solution_limit": 5}, {"lns_iterations": 5, "seed": 1}):
    signal.alarm(20)
    r = solve_milp(c, A, b, ints, **opts)
    signal.alarm(0)
    print("opts=%s -> status=%s solution=%s objective=%s" % (opts, r.status.name, r.solution, r.objective))
    if r.status.name == "OPTIMAL" and abs(r.objective - best[0]) > 1e-4 * max(1, abs(best[0])):
        bad += 1
        print("   VIOLATION: OPTIMAL claimed with objective %r, but %s has objective %r" % (r.objective, best[1], best[0]))
print("violations:", bad)
sys.exit(1 if bad else 0)
