"""C04 finding 4: reported objective != c.x of the reported solution.

minimize -1000y  s.t.  -1000x <= -1000,  x - 1000y <= 1,  x <= 3,  y <= 3, integer.
Returned OPTIMAL solution (3,3) has c.x = -3000, objective field says -3002.
"""
import os
import signal
import sys
import warnings

sys.path.insert(0, os.getcwd())
warnings.simplefilter("ignore")
from solvor.milp import solve_milp  # noqa: E402

signal.signal(signal.SIGALRM, lambda *a: (_ for _ in ()).throw(TimeoutError("hang")))

CASES = [
    ([0, -1000], [[-1000, 0], [1, -1000], [1, 0], [0, 1]], [-1000, 1, 3, 3], [0, 1], True),
    ([-1000, 1, 1000], [[0, -1000, -1000], [1000, 1, -1000], [1, 0, 0], [0, 1, 0], [0, 0, 1]], [-1000, 0, 3, 3, 3], [0, 1, 2], False),
]
bad = 0
for c, A, b, ints, minimize in CASES:
    for opts in ({}, {"heuristics": False}):
        signal.alarm(20)
        r = solve_milp(c, A, b, ints, minimize=minimize, **opts)
        signal.alarm(0)
        print("input: c=%s A=%s b=%s integers=%s minimize=%s opts=%s" % (c, A, b, ints, minimize, opts))
        print("   status=%s solution=%s objective=%s" % (r.status.name, r.solution, r.objective))
        if r.solution is not None:
            cx = sum(ci * xi for ci, xi in zip(c, r.solution))
            if abs(cx - r.objective) > 1e-6 * max(1, abs(cx)):
                bad += 1
                print("   VIOLATION: reported objective %r but c.x = %r" % (r.objective, cx))
print("violations:", bad)
sys.exit(1 if bad else 0)
