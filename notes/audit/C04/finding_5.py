"""C04 finding 5 (arguable): `integers` given as a one-shot iterable (generator / iterator) is silently ignored.

check_integers_valid() consumes the iterator, then set(integers) is empty, so the LP relaxation is solved and
a fractional point is returned with status OPTIMAL.  (Type hint says Sequence[int]; a set, range, tuple all work.)
"""
import os
import sys
import warnings

sys.path.insert(0, os.getcwd())
warnings.simplefilter("ignore")
from solvor.milp import solve_milp  # noqa: E402

c, A, b = [1, 1], [[2, 2]], [3]
bad = 0
for label, ints in (("list", [0, 1]), ("generator", (j for j in [0, 1])), ("iter", iter([0, 1])), ("map", map(int, "01"))):
    r = solve_milp(c, A, b, ints, minimize=False)
    print("integers as %-9s -> status=%s solution=%s objective=%s" % (label, r.status.name, r.solution, r.objective))
    if r.solution is not None and any(abs(v - round(v)) > 1e-6 for v in r.solution):
        bad += 1
        print("   VIOLATION: designated integer variables are fractional in a solution labelled", r.status.name)
print("violations:", bad)
sys.exit(1 if bad else 0)
