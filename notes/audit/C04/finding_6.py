"""C04 finding 6 (arguable): non-finite warm starts.

(a) NaN in a continuous coordinate passes _is_feasible (all comparisons with NaN are False), becomes the incumbent
    with objective NaN, can never be replaced (x < nan is False) and is returned with status OPTIMAL.
(b) NaN / inf in an integer coordinate crashes with ValueError / OverflowError from round().
An "infeasible warm start" is inside the quantifier; whether NaN/inf entries count is arguable.
"""
import math
import os
import sys
import warnings

sys.path.insert(0, os.getcwd())
warnings.simplefilter("ignore")
from solvor.milp import solve_milp  # noqa: E402

c, A, b = [1, 1], [[2, 2]], [3]
bad = 0
r = solve_milp(c, A, b, [0], minimize=False, warm_start=[0.0, float("nan")])
print("warm_start=[0.0, nan], integers=[0] -> status=%s solution=%s objective=%s" % (r.status.name, r.solution, r.objective))
if r.solution is not None and (any(math.isnan(v) for v in r.solution) or math.isnan(r.objective)):
    bad += 1
    print("   VIOLATION: NaN solution/objective returned as", r.status.name, "(true optimum is 1.5 at x=(1,0.5))")
for ws in ([float("nan"), 0.0], [float("inf"), 0.0]):
    try:
        r = solve_milp(c, A, b, [0, 1], minimize=False, warm_start=ws)
        print("warm_start=%s -> status=%s solution=%s" % (ws, r.status.name, r.solution))
    except Exception as e:  # noqa: BLE001
        bad += 1
        print("warm_start=%s -> CRASH %s: %s" % (ws, type(e).__name__, e))
print("violations:", bad)
sys.exit(1 if bad else 0)
