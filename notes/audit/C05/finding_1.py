"""C05 finding 1: sum_le over an EMPTY variable list with a negative target is silently accepted.
The empty sum is 0, so sum_le([], -1) means 0 <= -1: no assignment satisfies it and the model is
infeasible. sum_eq([], t!=0) and sum_ge([], t>0) do yield INFEASIBLE; sum_le([], t<0) does not."""
import os, sys, signal
sys.path.insert(0, os.getcwd())
from solvor.cp import Model
from solvor.types import Status

def _alarm(*a):
    raise TimeoutError("timeout")
signal.signal(signal.SIGALRM, _alarm)
bad = False

for solver in ("auto", "dfs", "sat"):
    for limit in (1, 5):
        m = Model()
        x = m.int_var(4, 7, "x")
        m.add(m.sum_le([], -5))
        signal.alarm(20)
        r = m.solve(solver=solver, solution_limit=limit)
        signal.alarm(0)
        print(f"solver={solver} solution_limit={limit}: status={r.status.name} solution={r.solution}")
        if r.status != Status.INFEASIBLE:
            bad = True
# control: the sibling constraints get it right
for name, tgt in (("sum_eq", 1), ("sum_ge", 1)):
    m = Model(); m.int_var(4, 7, "x"); m.add(getattr(m, name)([], tgt))
    print(f"control {name}([], {tgt}): {m.solve().status.name}")
if bad:
    print("VIOLATION: model 'x in 4..7, sum_le([], -5)' (0 <= -5 is false) has no satisfying assignment, "
          "yet solve() returned an assignment with a success status instead of INFEASIBLE")
sys.exit(1 if bad else 0)
