"""C05 finding 2: all_different with the same variable listed twice.
all_different([x, x]) requires x != x, so it is unsatisfiable. The SAT back-end says INFEASIBLE, the DFS
back-end (and the automatic choice, which picks DFS) skips the pair because of an identity test
(`if other is not var`) and returns an assignment: the constraint is broken and the back-ends disagree."""
import os, sys, signal
sys.path.insert(0, os.getcwd())
from solvor.cp import Model
from solvor.types import Status

def _alarm(*a):
    raise TimeoutError("timeout")
signal.signal(signal.SIGALRM, _alarm)
bad = False

status = {}
for solver in ("auto", "dfs", "sat"):
    m = Model()
    x0 = m.int_var(4, 5, "x0"); x1 = m.int_var(1, 2, "x1"); x2 = m.int_var(1, 4, "x2")
    m.add(m.all_different([x1, x2, x1]))
    signal.alarm(20)
    r = m.solve(solver=solver)
    signal.alarm(0)
    status[solver] = r.status
    print(f"solver={solver}: status={r.status.name} solution={r.solution}")
if status["dfs"] != status["sat"] or status["auto"] != status["sat"]:
    bad = True
    print("VIOLATION: back-ends disagree on satisfiability of all_different([x1, x2, x1]); the positions 0 and 2 "
          "hold the same variable, so they can never differ, the model is infeasible, DFS/auto return an assignment")
# smallest form
m = Model(); x = m.int_var(0, 1, "x"); m.add(m.all_different([x, x]))
r = m.solve()
print("all_different([x, x]) auto:", r.status.name, r.solution, "| sat:", m.solve(solver="sat").status.name)
bad = bad or r.status != Status.INFEASIBLE
sys.exit(1 if bad else 0)
