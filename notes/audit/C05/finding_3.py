"""C05 finding 3 (arguable: empty declared domain lb > ub).
int_var(3, 2) is accepted. No value lies in the declared domain, so the model is infeasible.
 - DFS without any constraint: StopIteration escapes from solve().
 - SAT: returns a "solution" that gives the variable no value (exactly-one over zero literals is skipped).
 - with a constraint on another variable DFS says INFEASIBLE and SAT says OPTIMAL: back-ends disagree."""
import os, sys, signal
sys.path.insert(0, os.getcwd())
from solvor.cp import Model
from solvor.types import Status

def _alarm(*a):
    raise TimeoutError("timeout")
signal.signal(signal.SIGALRM, _alarm)
bad = False

def run(title, build, solver):
    global bad
    m = build()
    signal.alarm(20)
    try:
        r = m.solve(solver=solver)
        out = f"status={r.status.name} solution={r.solution}"
        if r.status != Status.INFEASIBLE:
            bad = True
            out += "   <-- expected INFEASIBLE (variable x has no value in its domain 3..2)"
    except BaseException as e:  # noqa: BLE001
        bad = True
        out = f"EXCEPTION {type(e).__name__}: {e}   <-- crash"
    finally:
        signal.alarm(0)
    print(f"{title} solver={solver}: {out}")

def b1():
    m = Model(); m.int_var(3, 2, "x"); return m
def b2():
    m = Model(); m.int_var(3, 2, "x"); y = m.int_var(0, 1, "y"); m.add(y != 0); return m
for s in ("auto", "dfs", "sat"):
    run("x in 3..2, no constraints;", b1, s)
for s in ("auto", "dfs", "sat"):
    run("x in 3..2, y in 0..1, y != 0;", b2, s)
sys.exit(1 if bad else 0)
