"""C05 finding 4 (arguable: extreme magnitude): cumulative() work and memory grow linearly with the
DURATION values, not with the domain sizes: the encoder loops over every time point in
[min start, max start + duration) and emits (duplicate) clauses for each. Two tasks with start domains 0..1
take ~1 s for duration 1e5, ~12 s for 1e6 and do not finish for 1e7+ (e.g. a horizon in milliseconds).
no_overlap handles the same magnitudes instantly."""
import os, sys, signal
sys.path.insert(0, os.getcwd())
from solvor.cp import Model
from solvor.types import Status

def _alarm(*a):
    raise TimeoutError("timeout")
signal.signal(signal.SIGALRM, _alarm)
bad = False

import time
for d in (10**3, 10**5, 10**7):
    m = Model(); x = m.int_var(0, 1, "x"); y = m.int_var(0, 1, "y")
    m.add(m.cumulative([x, y], [d, 1], [1, 1], 1))
    t = time.time(); signal.alarm(30)
    try:
        r = m.solve()
        print(f"duration={d}: {r.status.name} {r.solution} in {time.time()-t:.2f}s")
    except TimeoutError:
        bad = True
        print(f"duration={d}: no answer within 30 s (4 candidate assignments in total)  <-- practical non-termination")
    finally:
        signal.alarm(0)
m = Model(); x = m.int_var(0, 1, "x"); y = m.int_var(0, 1, "y"); m.add(m.no_overlap([x, y], [10**12, 1]))
t = time.time(); r = m.solve(); print(f"control no_overlap duration=1e12: {r.status.name} {r.solution} in {time.time()-t:.2f}s")
sys.exit(1 if bad else 0)
