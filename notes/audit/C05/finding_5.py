"""C05 finding 5 (arguable): a variable the caller NAMED with a leading underscore is dropped from the result.
The statement promises every named variable a value. Names starting with "_" are treated as internal
(unnamed "_v<k>" / auxiliary "_aux<k>") by both back-ends, so int_var(0, 2, "_x") never appears in the answer."""
import os, sys, signal
sys.path.insert(0, os.getcwd())
from solvor.cp import Model
from solvor.types import Status

def _alarm(*a):
    raise TimeoutError("timeout")
signal.signal(signal.SIGALRM, _alarm)
bad = False

for solver in ("auto", "dfs", "sat"):
    m = Model(); x = m.int_var(0, 2, "_x"); y = m.int_var(0, 2, "y"); m.add(x != 0); m.add(x + y == 3)
    signal.alarm(20); r = m.solve(solver=solver); signal.alarm(0)
    print(f"solver={solver}: status={r.status.name} solution={r.solution}")
    if r.status == Status.OPTIMAL and "_x" not in r.solution:
        bad = True
if bad:
    print("VIOLATION (arguable): the named variable '_x' gets no value in the returned assignment")
sys.exit(1 if bad else 0)
