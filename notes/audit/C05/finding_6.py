"""C05 finding 6 (arguable): all_different over linear expressions - the N-Queens model printed in
docs/examples/puzzles.md - crashes inside solve() with AttributeError in every back-end.
all_different accepts any iterable at construction time; the failure only appears in solve()."""
import os, sys, signal
sys.path.insert(0, os.getcwd())
from solvor.cp import Model
from solvor.types import Status

def _alarm(*a):
    raise TimeoutError("timeout")
signal.signal(signal.SIGALRM, _alarm)
bad = False

n = 4
for solver in ("auto", "dfs", "sat"):
    m = Model()
    queens = [m.int_var(0, n - 1, f"q{i}") for i in range(n)]
    m.add(m.all_different(queens))
    m.add(m.all_different([queens[i] + i for i in range(n)]))
    m.add(m.all_different([queens[i] - i for i in range(n)]))
    signal.alarm(20)
    try:
        r = m.solve(solver=solver)
        print(f"solver={solver}: {r.status.name} {r.solution}")
    except Exception as e:  # noqa: BLE001
        bad = True
        print(f"solver={solver}: EXCEPTION {type(e).__name__}: {e}   <-- documented model crashes")
    finally:
        signal.alarm(0)
sys.exit(1 if bad else 0)
