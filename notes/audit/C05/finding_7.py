"""C05 finding 7 (arguable: size): the DFS back-end (also the automatic choice) recurses once per undecided
variable, so a model with about 1000 or more variables of domain size >= 2 dies with RecursionError
although it is trivially satisfiable; the SAT back-end solves the same model."""
import os, sys, signal
sys.path.insert(0, os.getcwd())
from solvor.cp import Model
from solvor.types import Status

def _alarm(*a):
    raise TimeoutError("timeout")
signal.signal(signal.SIGALRM, _alarm)
bad = False

n = 1100
for solver in ("auto", "dfs", "sat"):
    m = Model(); xs = [m.int_var(0, 1, f"x{i}") for i in range(n)]
    m.add(xs[0] != xs[1])
    signal.alarm(120)
    try:
        r = m.solve(solver=solver)
        print(f"solver={solver}: n={n} {r.status.name}")
    except RecursionError as e:
        bad = True
        print(f"solver={solver}: n={n} RecursionError: {e}   <-- crash on a satisfiable model")
    finally:
        signal.alarm(0)
sys.exit(1 if bad else 0)
