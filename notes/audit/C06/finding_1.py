"""C06 finding 1: cumulative encoding is exponential in the number of simultaneously
active (task,start) literals whenever the capacity is NOT exceeded -> the encoder does not
terminate in practice on a trivially satisfiable model (64 unit tasks, capacity 64).

_encode_capacity_constraint enumerates every subset that fits; with capacity >= total demand
every one of the 2**n subsets fits and no clause is ever produced."""
import os, sys, time, signal
sys.path.insert(0, os.getcwd())
from solvor.cp import Model


class Timeout(Exception):
    pass


def _h(*a):
    raise Timeout()


signal.signal(signal.SIGALRM, _h)


def build(n):
    m = Model()
    xs = [m.int_var(0, 0, f"s{i}") for i in range(n)]  # every task starts at 0: all active at t=0
    m.add(m.cumulative(xs, [1] * n, [1] * n, n))  # total demand n <= capacity n: always satisfied
    return m


print("model: n tasks, start domain {0}, duration 1, demand 1, capacity n  (CP model trivially satisfiable)")
for n in (12, 14, 16, 18):
    t = time.time()
    r = build(n).solve()
    print(f"  n={n:3d}: status={r.status.name} time={time.time() - t:.3f}s")
n = 64
LIMIT = 30
signal.alarm(LIMIT)
t = time.time()
try:
    r = build(n).solve()
    signal.alarm(0)
    print(f"  n={n}: status={r.status.name} solution ok={r.solution == {f's{i}': 0 for i in range(n)}} time={time.time() - t:.2f}s")
    print("no violation: encoder terminated")
    sys.exit(0)
except Timeout:
    print(f"  n={n}: NO ANSWER after {LIMIT}s (time quadruples for every 2 extra tasks; 2**{n} subsets are walked)")
    print("VIOLATION: valid CP model (one cumulative constraint, 64 simultaneously active tasks, capacity not")
    print("exceeded) on which Model.solve()/the SAT encoder does not terminate in any practical time;")
    print("the statement requires a CNF with exactly the CP model's models for every such model.")
    sys.exit(1)
