"""C06 finding 2 (arguable): circuit over ONE node is encoded as unsatisfiable.
The only successor function on one node, x0 = 0, is a single cycle that visits all nodes
(the docstring's definition), but the encoder unconditionally adds 'no self loop' x[i] != i."""
import os, sys
sys.path.insert(0, os.getcwd())
from solvor.cp import Model
from solvor.cp_encoder import SATEncoder

bad = False
for lb, ub in ((0, 0), (0, 1), (-1, 2)):
    m = Model()
    x = m.int_var(lb, ub, "x0")
    m.add(m.circuit([x]))
    enc = SATEncoder(m)
    r = enc.solve()
    r2 = m.solve()
    print(f"circuit([x0]), x0 in [{lb},{ub}]: encoder status={r.status.name} solution={r.solution}; "
          f"Model.solve() status={r2.status.name}; clauses={enc._clauses}")
    if r.solution != {"x0": 0}:
        bad = True
# for comparison: n=0 is accepted (no clauses), n=2 works
m = Model(); a = m.int_var(0, 1, "a"); b = m.int_var(0, 1, "b"); m.add(m.circuit([a, b]))
print("circuit([a,b]) ->", m.solve().solution)
if bad:
    print("VIOLATION (arguable): the 1-node Hamiltonian cycle 0->0 (x0=0) satisfies 'single cycle visiting all nodes',")
    print("the CNF has no model, so a CP-satisfiable model is reported INFEASIBLE (a model is missing).")
    sys.exit(1)
print("no violation")
sys.exit(0)
