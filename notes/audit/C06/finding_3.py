"""C06 finding 3 (arguable: 0 terms is outside '1..5 terms'): sum_le over an empty list with a
negative bound is encoded as 'true', while sum_ge([],1) and sum_eq([],1) are correctly 'false'."""
import os, sys
sys.path.insert(0, os.getcwd())
from solvor.cp import Model
from solvor.cp_encoder import SATEncoder

def run(kind, target):
    m = Model()
    x = m.int_var(0, 1, "x")
    m.add(getattr(m, kind)([], target))
    enc = SATEncoder(m)
    r = enc.solve()
    return r.status.name, r.solution

out = {(k, t): run(k, t) for k, t in (("sum_le", -1), ("sum_ge", 1), ("sum_eq", 1), ("sum_le", 0))}
for k, v in out.items():
    print(k, "->", v)
if out[("sum_le", -1)][0] != "INFEASIBLE":
    print("VIOLATION (arguable): sum([]) = 0 <= -1 is false, the CP model has no solution, but the CNF is satisfiable")
    print("and Model.solve() returns", out[("sum_le", -1)], "- an extra model. (sum_ge/sum_eq handle the empty list.)")
    sys.exit(1)
print("no violation")
sys.exit(0)
