"""C06 finding 4 (arguable: empty domain): a variable with lb > ub (empty domain) makes the CP model
unsatisfiable, but _encode_exactly_one([]) adds no clause: the CNF is satisfiable and the decoded
'solution' has no value at all for that variable. DFS on the same model says INFEASIBLE."""
import os, sys
sys.path.insert(0, os.getcwd())
from solvor.cp import Model

m = Model()
x = m.int_var(0, 1, "x")
y = m.int_var(3, 2, "y")  # empty domain
m.add(m.sum_le([x], 5))
r_sat = m.solve(solver="sat")
m2 = Model()
x2 = m2.int_var(0, 1, "x")
y2 = m2.int_var(3, 2, "y")
m2.add(x2 != 5)
r_dfs = m2.solve(solver="dfs")
r_sat2 = m2.solve(solver="sat")
print("x in [0,1], y in [3,2] (empty), sum_le([x],5): sat ->", r_sat.status.name, r_sat.solution)
print("x in [0,1], y in [3,2] (empty), x != 5: dfs ->", r_dfs.status.name, r_dfs.solution, "| sat ->", r_sat2.status.name, r_sat2.solution)
if r_sat.solution is not None and "y" not in r_sat.solution:
    print("VIOLATION (arguable): CP model is unsatisfiable (y has no value), CNF is satisfiable; y decodes to no value,")
    print("contradicting 'each integer variable decodes to exactly one value in its domain'.")
    sys.exit(1)
print("no violation")
sys.exit(0)
