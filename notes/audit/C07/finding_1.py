"""C07 finding 1: RecursionError (crash) on a valid 0/1 matrix whose exact cover needs ~1000 rows.

search() in solvor/dlx.py recurses once per selected row, so any instance whose cover
contains about sys.getrecursionlimit() rows crashes with RecursionError instead of
returning the (unique, trivial) exact cover.  max_iter (default 10_000_000) does not protect.
"""
import os, sys
sys.path.insert(0, os.getcwd())
from solvor.dlx import solve_exact_cover

n = sys.getrecursionlimit() + 50          # 1050 with the default limit of 1000
matrix = [[1 if i == j else 0 for j in range(n)] for i in range(n)]   # identity matrix
print(f"input: {n}x{n} identity matrix (each row covers exactly one distinct primary column)")
print(f"expected: the unique exact cover = all {n} rows, status OPTIMAL")
violations = 0
for kw in ({}, {"find_all": True}):
    try:
        r = solve_exact_cover(matrix, **kw)
        ok = (sorted(r.solution) == list(range(n))) if not kw else (len(r.solution) == 1 and sorted(r.solution[0]) == list(range(n)))
        print(f"  {kw}: returned status={r.status.name} objective={r.objective} correct={ok}")
        if not ok:
            violations += 1
    except RecursionError as e:
        print(f"  {kw}: CRASH RecursionError: {e}")
        violations += 1
if violations:
    print("VIOLATION: unexpected exception on a valid 0/1 matrix; a cover exists but no answer is returned.")
    sys.exit(1)
print("no violation")
sys.exit(0)
