"""C07 finding 2: find_all on an empty matrix / zero-column matrix returns the bare tuple ()
instead of the list [()] (objective 0 instead of 1).

With no primary column the empty selection is the one and only exact cover.  The code agrees
for every other no-primary-column input (e.g. [[1]] or [[0]] with secondary=[0] gives
solution=[()] objective=1), but the early returns `if not matrix` / `if root is None`
ignore find_all and return Result((), 0, 0, 0).  Read as "list of all covers", () is an EMPTY
collection, i.e. it says there are zero covers, while status is OPTIMAL (not INFEASIBLE).
"""
import os, sys
sys.path.insert(0, os.getcwd())
from solvor.dlx import solve_exact_cover

ref = solve_exact_cover([[0]], secondary=[0], find_all=True)
print(f"reference (all-secondary) [[0]], secondary=[0], find_all=True -> solution={ref.solution!r} objective={ref.objective} status={ref.status.name}")
violations = 0
for matrix in ([], (), [[]], [[], []], [()]):
    r = solve_exact_cover(matrix, find_all=True)
    good = isinstance(r.solution, list) and r.solution == [()] and r.objective == 1
    print(f"matrix={matrix!r} find_all=True -> solution={r.solution!r} objective={r.objective} status={r.status.name}  {'ok' if good else 'WRONG: expected [()] / objective 1'}")
    if not good:
        violations += 1
if violations:
    print("VIOLATION: with find_all the returned value must be the list of all exact covers = [()];"
          " got a non-list () whose length (0) and objective (0) claim that no cover was found, with status OPTIMAL.")
    sys.exit(1)
print("no violation")
sys.exit(0)
