"""C08 finding 1: max_flow never terminates when source == sink.

bfs() pops the source, sees node == sink and returns the one-node path [source]; that list is
truthy, so the `while path := bfs()` loop runs for ever, adding float('inf') to total_flow each time.
"""
import os, signal, sys
sys.path.insert(0, os.getcwd())
from solvor import max_flow

class Timeout(Exception):
    pass

def _alarm(*_):
    raise Timeout()

signal.signal(signal.SIGALRM, _alarm)

cases = [
    ("empty graph, source == sink", {}, "s", "s"),
    ("cycle through the terminal", {"s": [("a", 3)], "a": [("s", 2)]}, "s", "s"),
    ("terminal absent from graph", {"a": [("b", 1)]}, "x", "x"),
]
bad = 0
for name, graph, s, t in cases:
    signal.alarm(5)
    try:
        r = max_flow(graph, s, t)
        print(f"{name}: graph={graph} source={s!r} sink={t!r} -> returned solution={r.solution} "
              f"objective={r.objective} status={r.status.name}")
        if not (r.solution == {} or all(v == 0 for v in r.solution.values())) or r.objective not in (0,):
            # any finite answer other than the empty flow of value 0 is not a feasible s-t flow statement
            print("   returned something other than the empty flow / value 0")
            bad += 1
    except Timeout:
        print(f"{name}: graph={graph} source={s!r} sink={t!r} -> NO RESULT after 5 s (infinite loop)")
        bad += 1
    except ValueError as e:
        print(f"{name}: rejected with ValueError({e}) - acceptable")
    finally:
        signal.alarm(0)

if bad:
    print("VIOLATION: a directed capacitated graph with non-negative integer capacities was given, "
          "max_flow neither returned a flow nor raised - it does not terminate.")
    sys.exit(1)
print("no violation")
sys.exit(0)
