"""C08 finding 2: a sink whose label is not equal to itself (float('nan')) is never recognised.

bfs() tests `node == sink`. For a NaN label this is False even for the very same object, although
every dict / set in the function (capacity, flow, visited) finds the label by identity. So the sink is
reached, expanded like an ordinary node, and bfs() returns None: the reported maximum flow is 0 with
status OPTIMAL while an augmenting path s -> sink with residual 3 remains. The same label works as an
intermediate node and as the source.
"""
import os, sys
sys.path.insert(0, os.getcwd())
from solvor import max_flow

nan = float("nan")
bad = 0

graph = {"s": [(nan, 3)]}
r = max_flow(graph, "s", nan)
print(f"graph={graph} source='s' sink=nan (same object) -> solution={r.solution} objective={r.objective} "
      f"status={r.status.name}")
cap = 3
f = sum(v for (a, b), v in r.solution.items() if a == "s" and b is nan)
if r.objective != 3 or cap - f > 0:
    print(f"   arc ('s', nan) has capacity 3, carries {f}: residual {cap - f} > 0, so the augmenting path "
          f"s -> nan remains; min cut = 3 but objective = {r.objective}")
    bad += 1

graph2 = {"s": [("a", 2), (nan, 1)], "a": [(nan, 5)]}
r2 = max_flow(graph2, "s", nan)
print(f"graph={graph2} source='s' sink=nan -> solution={r2.solution} objective={r2.objective} "
      f"status={r2.status.name} (min cut = 3)")
if r2.objective != 3:
    bad += 1

# control: the same label as an intermediate node and as source is handled correctly
r3 = max_flow({"s": [(nan, 3)], nan: [("t", 2)]}, "s", "t")
r4 = max_flow({nan: [("t", 3)]}, nan, "t")
print(f"control: nan as intermediate node -> objective={r3.objective} (expected 2); "
      f"nan as source -> objective={r4.objective} (expected 3)")

if bad:
    print("VIOLATION: reported value is not the min-cut capacity; an augmenting path remains.")
    sys.exit(1)
print("no violation")
sys.exit(0)
