"""C09 finding 1: min_cost_flow crashes (ValueError) when source == sink and demand >= 1."""
import os, sys
sys.path.insert(0, os.getcwd())
from solvor.flow import min_cost_flow

graph = {"s": [("a", 1, 1)], "a": [("s", 1, 1)]}
bad = False
for g, label in ((graph, "2-cycle through s"), ({}, "empty graph")):
    for demand in (0, 1):
        try:
            r = min_cost_flow(g, "s", "s", demand)
            print(f"{label}: source=sink='s', demand={demand} -> {r.status.name}, flow={r.solution}, cost={r.objective}")
        except Exception as e:  # noqa: BLE001
            print(f"{label}: source=sink='s', demand={demand} -> EXCEPTION {e!r}")
            bad = True
if bad:
    print("VIOLATION: a valid network with integer capacities/costs and an integer demand makes min_cost_flow raise "
          "ValueError('min() iterable argument is empty') instead of returning a flow or INFEASIBLE "
          "(Bellman-Ford returns the empty path for sink == source and min() over it fails).")
    sys.exit(1)
print("no violation")
sys.exit(0)
