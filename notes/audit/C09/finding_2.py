"""C09 finding 2: min_cost_flow raises OverflowError for an integer arc cost >= 2**1024 when that arc is
scanned while its tail is still unreachable (dist = float('inf'); inf + huge_int cannot be converted)."""
import os, sys
sys.path.insert(0, os.getcwd())
from solvor.flow import min_cost_flow
from solvor.network_simplex import network_simplex

H = 2**1024
# path 0 -> 1 -> 2, arc (1,2) listed before arc (0,1)
graph_bad = {1: [(2, 1, H)], 0: [(1, 1, 1)]}
graph_ok = {0: [(1, 1, 1)], 1: [(2, 1, H)]}  # same network, other dict order
ns = network_simplex(3, [(1, 2, 1, H), (0, 1, 1, 1)], [1, 0, -1])
print("network_simplex on the same network:", ns.status.name, "cost == H+1:", ns.objective == H + 1)
ok = min_cost_flow(graph_ok, 0, 2, 1)
print("min_cost_flow, arcs listed 0->1 first:", ok.status.name, "cost == H+1:", ok.objective == H + 1)
try:
    r = min_cost_flow(graph_bad, 0, 2, 1)
    print("min_cost_flow, arcs listed 1->2 first:", r.status.name, "cost == H+1:", r.objective == H + 1)
except OverflowError as e:
    print("min_cost_flow, arcs listed 1->2 first: EXCEPTION", repr(e))
    print("VIOLATION: integer costs are inside the quantifier (no magnitude bound); the unique feasible flow costs "
          "2**1024+1, network_simplex and the reordered call find it, but this call crashes because the distance "
          "label of an unreached node is float('inf') and inf + 2**1024 overflows.")
    sys.exit(1)
print("no violation")
sys.exit(0)
