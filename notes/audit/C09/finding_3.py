"""C09 finding 3: solve_assignment / min_cost_flow never terminate on float costs whose rounding creates a
(mathematically zero, numerically negative) residual cycle: the Bellman-Ford parent pointers form a loop and the
path reconstruction `while node != source` spins forever. (Costs are floats: the signature of solve_assignment is
Sequence[Sequence[float]], but the property quantifies over integer costs -> 'arguable'.)"""
import os, signal, sys
sys.path.insert(0, os.getcwd())
from solvor.flow import solve_assignment


class Timeout(Exception):
    pass


def _alarm(*_):
    raise Timeout()


signal.signal(signal.SIGALRM, _alarm)
M = [[0.4, 0.4, 0.4], [0.5, 0.5, 0.5], [1.4000000000000001, 1.4000000000000001, 1.4000000000000001]]
print("cost matrix:", M, "(every assignment costs 2.3)")
signal.alarm(10)
try:
    r = solve_assignment(M)
    signal.alarm(0)
    print("returned", r.status.name, r.solution, r.objective)
    print("no violation")
    sys.exit(0)
except Timeout:
    print("solve_assignment did not return within 10 s (a 3x3 instance needs milliseconds).")
    print("VIOLATION (termination): residual cycle L0->R1->L1->R0->L0 has float cost 0.4-0.5+0.5-0.4 != 0 in the "
          "order Bellman-Ford adds it, parent_arc becomes cyclic, the walk back from the sink never reaches the source.")
    sys.exit(1)
