"""C09 finding 4: a negative integer demand is answered OPTIMAL with the empty flow (value 0), which does not
meet the demand; no feasible s-t flow of value -1 exists, so the statement asks for INFEASIBLE (or a rejection)."""
import os, sys
sys.path.insert(0, os.getcwd())
from solvor.flow import min_cost_flow
from solvor.types import Status

graph = {"s": [("t", 1, 1)]}
r = min_cost_flow(graph, "s", "t", -1)
print("graph", graph, "demand -1 ->", r.status.name, "flow", r.solution, "cost", r.objective)
net_out_of_s = sum(f for (u, v), f in r.solution.items() if u == "s") - sum(f for (u, v), f in r.solution.items() if v == "s")
if r.status == Status.OPTIMAL and net_out_of_s != -1:
    print(f"VIOLATION: status OPTIMAL but the routed value is {net_out_of_s}, not the demand -1 "
          "('meets the demand exactly' / 'INFEASIBLE exactly when no feasible flow exists').")
    sys.exit(1)
print("no violation")
sys.exit(0)
