"""C10 finding 1: integer costs >= 2**53 are silently coerced to float ->
non-optimal matching and objective != sum of chosen entries."""
import sys, signal
sys.path.insert(0, '.')
from solvor import solve_hungarian

def alarm(*a): raise TimeoutError
signal.signal(signal.SIGALRM, alarm); signal.alarm(20)

bad = 0
B = 2**53
# (a) wrong matching on a 1x3 integer matrix
M = [[B + 4, B + 4, B + 3]]
r = solve_hungarian(M)
chosen = M[0][r.solution[0]]
print('input', M, 'minimize=True')
print('returned solution', r.solution, 'objective', repr(r.objective), 'status', r.status.name)
print('chosen entry', chosen, 'true minimum', min(M[0]))
if chosen != min(M[0]):
    print('VIOLATION: returned matching costs', chosen, '> optimum', min(M[0])); bad = 1

# (b) objective != sum of chosen entries, 1x1 matrix
M = [[B + 1]]
r = solve_hungarian(M)
print('input', M)
print('returned solution', r.solution, 'objective', repr(r.objective))
if r.objective != M[0][0]:
    print('VIOLATION: objective', repr(r.objective), '!= chosen entry', M[0][0]); bad = 1

# (c) 3x2 integer matrix, minimize
M = [[B + 1, B - 2], [B - 2, B - 1], [B + 1, B + 3]]
r = solve_hungarian(M)
import itertools
best = min(M[i][0] + M[j][1] for i, j in itertools.permutations(range(3), 2))
got = sum(M[i][c] for i, c in enumerate(r.solution) if c != -1)
print('input', M, '-> solution', r.solution, 'exact sum', got, 'objective', repr(r.objective), 'optimum', best)
if got != best or r.objective != got:
    print('VIOLATION (c)'); bad = 1
sys.exit(bad)
