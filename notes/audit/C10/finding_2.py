"""C10 finding 2: dyadic float costs whose magnitudes span ~53 bits: the float
potentials cancel catastrophically; a non-optimal matching is returned as OPTIMAL
(and for minimize=False too), although every entry AND both perfect-matching sums
are exactly representable floats.  Also the reported objective is accumulated
naively and can differ from the exact (representable) sum of the chosen entries."""
import sys, signal, itertools
from fractions import Fraction as F
sys.path.insert(0, '.')
from solvor import solve_hungarian

def alarm(*a): raise TimeoutError
signal.signal(signal.SIGALRM, alarm); signal.alarm(20)
bad = 0

def run(M, minimize):
    global bad
    r = solve_hungarian(M, minimize=minimize)
    n, c = len(M), len(M[0])
    sums = [sum(F(M[i][p[i]]) for i in range(n)) for p in itertools.permutations(range(c), n)]
    opt = min(sums) if minimize else max(sums)
    got = sum(F(M[i][j]) for i, j in enumerate(r.solution) if j != -1)
    print('input', M, 'minimize=%s' % minimize)
    print('  returned', r.solution, 'objective', repr(r.objective), 'status', r.status.name)
    print('  exact sum of chosen entries', got, '; exact optimum', opt)
    if got != opt:
        print('  VIOLATION: matching is not optimal'); bad = 1
    if F(r.objective) != got:
        print('  VIOLATION: objective != sum of chosen entries (the sum is exactly representable: %s)' % (F(float(got)) == got)); bad = 1

M = [[-4503599627370497.0, 1.0], [0.5, 4503599627370499.0]]   # -(2**52+1), 1, 1/2, 2**52+3
run(M, True)    # picks diagonal (sum 2) but anti-diagonal gives 1.5
run(M, False)   # picks anti-diagonal (1.5) but diagonal gives 2
M = [[4503599627370496.0, 4503599627370497.0, -0.5], [-4503599627370497.0, 2.0, -4503599627370499.0], [1.0, 4503599627370496.0, 2.0]]
run(M, True)    # objective -2.0 reported, exact sum of chosen entries is -1.5
sys.exit(bad)
