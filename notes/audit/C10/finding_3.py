"""C10 finding 3: non-termination on a finite float matrix of extreme magnitude.
All entries are finite floats (+-2**1023, i.e. dyadic rationals); reduced costs overflow
to inf, then inf-inf = nan, `delta` stays inf, next_col stays 0 and the
`while col_match[current_col] != 0` loop never ends."""
import sys, signal
sys.path.insert(0, '.')
from solvor import solve_hungarian

def alarm(*a): raise TimeoutError
signal.signal(signal.SIGALRM, alarm)
bad = 0
H = 2.0 ** 1023
for M in ([[H, -H], [H, -H]], [[1e308, -1e308], [1e308, -1e308]]):
    for minimize in (True, False):
        signal.alarm(5)
        try:
            r = solve_hungarian(M, minimize=minimize)
            signal.alarm(0)
            print('input', M, 'minimize=%s' % minimize, '->', r.solution, r.objective, r.status.name)
            # both perfect matchings have exact sum 0
            if r.objective != 0.0 or sorted(r.solution) != [0, 1]:
                print('  VIOLATION: wrong answer'); bad = 1
        except TimeoutError:
            print('input', M, 'minimize=%s' % minimize, '-> NO RESULT within 5 s (infinite loop)')
            print('  VIOLATION: non-termination on a finite input (either matching has sum 0)'); bad = 1
        finally:
            signal.alarm(0)
sys.exit(bad)
