"""C10 finding 4: matrix with rows but zero columns: min(rows, cols) = 0 pairs, every row
is unassigned, so the statement asks for -1 per row; the early return gives [] (length 0
instead of n_rows)."""
import sys, signal
sys.path.insert(0, '.')
from solvor import solve_hungarian

def alarm(*a): raise TimeoutError
signal.signal(signal.SIGALRM, alarm); signal.alarm(20)
bad = 0
for M in ([[], []], [[]], ((), (), ())):
    r = solve_hungarian(M)
    print('input', M, '-> solution', r.solution, 'objective', r.objective, 'status', r.status.name)
    if list(r.solution) != [-1] * len(M):
        print('  VIOLATION: expected', [-1] * len(M), '(one -1 per unassigned row); assignment[i] is undefined for row i'); bad = 1
# contrast: 3x1 gives one entry per row
print('contrast', solve_hungarian([[1], [2], [3]]).solution)
sys.exit(bad)
