"""bellman_ford(..., target=t) never returns (and eats memory without bound) on a small
graph with a zero-weight cycle made of +0.7 / -0.7 float edges."""
import os, sys, subprocess
sys.path.insert(0, os.getcwd())
CHILD = r'''
import os, sys, resource
sys.path.insert(0, os.getcwd())
resource.setrlimit(resource.RLIMIT_AS, (1 << 30, 1 << 30))   # 1 GiB cap, protects the machine
import logging; logging.disable(logging.CRITICAL)
from solvor.bellman_ford import bellman_ford
edges = [(0, 1, 0.1), (1, 2, 0.7), (2, 1, -0.7)]
r = bellman_ford(0, edges, 3, target=2)
print("RETURNED", r.status.name, r.solution, r.objective)
'''
edges = [(0, 1, 0.1), (1, 2, 0.7), (2, 1, -0.7)]
print("input: bellman_ford(0, %r, 3, target=2)" % (edges,))
print("the only cycle is 1->2->1 with weight 0.7 + (-0.7) = 0: no negative cycle, node 2 reachable,")
print("expected: OPTIMAL, distance 0.8 (up to rounding), path [0, 1, 2]")
bad = False
try:
    p = subprocess.run([sys.executable, "-c", CHILD], capture_output=True, text=True, timeout=10)
    out = (p.stdout + p.stderr).strip()
    print("child exit code:", p.returncode)
    print("child output   :", out[-400:])
    if "RETURNED" not in p.stdout:
        print("VIOLATION: no result; the call died (MemoryError / killed) while rebuilding the path")
        bad = True
    else:
        print("call returned normally")
except subprocess.TimeoutExpired:
    print("VIOLATION: call did not return within 10 s (non-termination on a valid 3-node input)")
    bad = True
if bad:
    print("why: rounding makes 0.1+0.7-0.7 = 0.09999999999999998 < 0.1, so node 1 is relaxed from node 2;")
    print("     afterwards nothing can be relaxed, the negative-cycle test passes, but parent[1]=2 and parent[2]=1,")
    print("     and _reconstruct_indexed walks that parent cycle forever, appending to the path list.")
    print("     (without target= the same call returns OPTIMAL distances)")
sys.exit(1 if bad else 0)
