"""astar_grid does not validate start: a path that begins ON an obstacle, or OUTSIDE the grid, is returned as OPTIMAL
(while a goal on an obstacle / outside is INFEASIBLE)."""
import os, sys
sys.path.insert(0, os.getcwd())
from solvor.a_star import astar_grid
bad = False
r = astar_grid([[1, 0]], (0, 0), (0, 1))
print("grid [[1,0]] start (0,0)=obstacle goal (0,1):", r.status.name, r.objective, r.solution)
if r.solution: print("   VIOLATION: returned path uses the blocked cell (0,0)"); bad = True
r2 = astar_grid([[0, 1]], (0, 0), (0, 1))
print("mirror image, goal on obstacle:", r2.status.name)
r = astar_grid([[0, 0], [0, 0]], (-1, 0), (1, 1))
print("2x2 free grid, start (-1,0) outside:", r.status.name, r.objective, r.solution)
if r.solution: print("   VIOLATION: returned path contains (-1,0) which is not a cell of the grid"); bad = True
sys.exit(1 if bad else 0)
