"""bellman_ford and floyd_warshall give opposite negative-cycle verdicts on the same input when a
cycle's float weights cancel exactly (w and -w). No negative cycle exists; UNBOUNDED is reported."""
import os, sys
sys.path.insert(0, os.getcwd())
import logging; logging.disable(logging.CRITICAL)
from fractions import Fraction
from solvor.bellman_ford import bellman_ford
from solvor.floyd_warshall import floyd_warshall
bad = False
# case A: bellman_ford says UNBOUNDED, floyd_warshall says OPTIMAL
EA = [(0, 2, 0.7), (2, 0, -0.7), (1, 2, -0.4)]
bf = bellman_ford(1, EA, 3)
fw = floyd_warshall(3, EA)
print("A: edges", EA, "start=1")
print("   only cycle: 2->0->2, exact weight", Fraction(-0.7) + Fraction(0.7))
print("   bellman_ford ->", bf.status.name, "   floyd_warshall ->", fw.status.name)
if bf.status.name == "UNBOUNDED":
    print("   VIOLATION: UNBOUNDED although no negative cycle is reachable"); bad = True
if bf.status.name != fw.status.name:
    print("   VIOLATION: the two solvers disagree on a shared input"); bad = True
# case B: floyd_warshall says UNBOUNDED, bellman_ford says OPTIMAL
EB = [(2, 1, 0.1), (0, 3, -0.1), (1, 0, -0.7), (3, 2, 0.7)]
fw = floyd_warshall(4, EB)
bfs_ = [bellman_ford(s, EB, 4).status.name for s in range(4)]
print("B: edges", EB)
print("   only cycle: 0->3->2->1->0, exact weight", Fraction(-0.1) + Fraction(0.7) + Fraction(0.1) + Fraction(-0.7))
print("   floyd_warshall ->", fw.status.name, "   bellman_ford from each start ->", bfs_)
if fw.status.name == "UNBOUNDED":
    print("   VIOLATION: UNBOUNDED although no negative cycle is present"); bad = True
if any(s != fw.status.name for s in bfs_):
    print("   VIOLATION: the two solvers disagree on a shared input"); bad = True
sys.exit(1 if bad else 0)
