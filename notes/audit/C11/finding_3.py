"""Integer weights >= 2**53 (exact in Python) are silently pushed through floats because the
distance tables are seeded with 0.0: missed negative cycle, false negative cycle, non-shortest path."""
import os, sys
sys.path.insert(0, os.getcwd())
import logging; logging.disable(logging.CRITICAL)
from solvor.bellman_ford import bellman_ford
from solvor.floyd_warshall import floyd_warshall
from solvor.dijkstra import dijkstra
bad = False
# A: bellman_ford misses a reachable negative self loop
E = [(0, 1, -2**60), (1, 1, -1)]
r = bellman_ford(0, E, 2, target=1)
print("A: bellman_ford(0, %r, 2, target=1) ->" % E, r.status.name, r.objective, r.solution)
if r.status.name != "UNBOUNDED":
    print("   VIOLATION: node 1 is reachable and has a self loop of weight -1 (negative cycle), expected UNBOUNDED"); bad = True
# B: floyd_warshall invents a negative cycle (the only cycle has weight exactly 0)
B = 2**53
E = [(0, 1, 1), (1, 2, 1), (2, 3, -(B + 2)), (3, 0, B)]
r = floyd_warshall(4, E)
print("B: floyd_warshall(4, %r) ->" % E, r.status.name, " cycle weight =", sum(w for *_, w in E))
if r.status.name == "UNBOUNDED":
    print("   VIOLATION: UNBOUNDED but the only cycle has weight 0"); bad = True
rb = bellman_ford(0, E, 4)
print("   bellman_ford on the same edges ->", rb.status.name)
# C: dijkstra returns a non-shortest path and a distance that is not the sum of its edges
adj = {'s': [('a', B), ('t', B + 2)], 'a': [('b', 1)], 'b': [('c', 1)], 'c': [('t', 1)], 't': []}
r = dijkstra('s', 't', lambda x: adj[x])
w = {(u, v): c for u in adj for v, c in adj[u]}
psum = sum(w[e] for e in zip(r.solution, r.solution[1:]))
print("C: dijkstra s->t on", adj)
print("   returned", r.status.name, "path", r.solution, "objective", repr(r.objective), "; exact sum of that path", psum, "; true shortest", B + 2, "via ['s','t']")
if psum != r.objective or psum != B + 2:
    print("   VIOLATION: path is not shortest (%d > %d) and its edge weights do not sum to the reported distance" % (psum, B + 2)); bad = True
sys.exit(1 if bad else 0)
