"""max_cost: dijkstra / astar return a NON-shortest path labelled OPTIMAL, whose cost also exceeds max_cost;
and for the same true distance the answer flips between a path and INFEASIBLE depending on the graph shape."""
import os, sys
sys.path.insert(0, os.getcwd())
from solvor.dijkstra import dijkstra
from solvor.a_star import astar
bad = False
adj = {'s': [('a', 2), ('t', 10)], 'a': [('t', 2)], 't': []}
print("graph:", adj, " true shortest s->t = 4 via s,a,t ; max_cost=1")
for name, r in (("dijkstra", dijkstra('s', 't', lambda x: adj[x], max_cost=1)),
                ("astar(h=0)", astar('s', 't', lambda x: adj[x], lambda x: 0, max_cost=1))):
    print(" ", name, "->", r.status.name, r.solution, r.objective)
    if r.status.name == "OPTIMAL" and r.objective != 4:
        print("   VIOLATION: labelled OPTIMAL with distance %s, true shortest distance is 4 (and %s > max_cost=1 anyway)" % (r.objective, r.objective)); bad = True
adj2 = {'s': [('a', 2)], 'a': [('t', 2)], 't': []}
r2 = dijkstra('s', 't', lambda x: adj2[x], max_cost=1)
adj3 = {'s': [('t', 4)], 't': []}
r3 = dijkstra('s', 't', lambda x: adj3[x], max_cost=1)
print("same true distance 4, max_cost=1:  two-hop graph ->", r2.status.name, r2.objective, " | one-hop graph ->", r3.status.name, r3.objective)
if r2.status != r3.status:
    print("   VIOLATION: a target at distance 4 is INFEASIBLE in one graph and returned (cost 4 > max_cost 1) in the other"); bad = True
sys.exit(1 if bad else 0)
