"""max_iter: when the limit equals the number of reachable nodes the search exhausts the graph, proves the
target unreachable, and still reports MAX_ITER instead of INFEASIBLE (all five callback solvers)."""
import os, sys
sys.path.insert(0, os.getcwd())
from solvor.dijkstra import dijkstra
from solvor.a_star import astar
from solvor.bfs import bfs, dfs
adj = {0: [1], 1: [2], 2: [], 9: []}
w = lambda x: [(y, 1) for y in adj[x]]
u = lambda x: adj[x]
bad = False
print("graph 0->1->2, target 9 unreachable, 3 reachable nodes")
for name, f in (("dijkstra", lambda mi: dijkstra(0, 9, w, max_iter=mi)),
                ("astar", lambda mi: astar(0, 9, w, lambda x: 0, max_iter=mi)),
                ("bfs", lambda mi: bfs(0, 9, u, max_iter=mi)),
                ("dfs", lambda mi: dfs(0, 9, u, max_iter=mi))):
    r3, r4 = f(3), f(4)
    print("  %-8s max_iter=3 -> %s (iterations=%d)   max_iter=4 -> %s (iterations=%d)" % (name, r3.status.name, r3.iterations, r4.status.name, r4.iterations))
    if r3.status.name != "INFEASIBLE":
        print("     VIOLATION: frontier was empty after 3 expansions (same work as the max_iter=4 run), target is unreachable, yet status is", r3.status.name); bad = True
sys.exit(1 if bad else 0)
