"""astar_grid(directions=8, heuristic='manhattan'): non-shortest path labelled OPTIMAL on a plain 0/1 grid."""
import os, sys, heapq, math
sys.path.insert(0, os.getcwd())
from solvor.a_star import astar_grid
grid = [[0, 1, 0, 1, 0], [0, 0, 0, 0, 0], [0, 0, 0, 1, 0], [0, 0, 0, 0, 0], [1, 0, 1, 0, 1], [0, 0, 0, 1, 0]]
start, goal = (3, 4), (0, 0)
def ref():
    R, C = len(grid), len(grid[0]); dist = {start: 0.0}; h = [(0.0, start)]
    while h:
        d, p = heapq.heappop(h)
        if d > dist[p]: continue
        for dr in (-1, 0, 1):
            for dc in (-1, 0, 1):
                q = (p[0] + dr, p[1] + dc)
                if (dr or dc) and 0 <= q[0] < R and 0 <= q[1] < C and grid[q[0]][q[1]] != 1:
                    nd = d + (math.sqrt(2) if dr and dc else 1.0)
                    if nd < dist.get(q, 1e99): dist[q] = nd; heapq.heappush(h, (nd, q))
    return dist[goal]
true = ref()
bad = False
for heur in ("manhattan", "auto", "euclidean", "chebyshev"):
    r = astar_grid(grid, start, goal, directions=8, heuristic=heur)
    print("heuristic=%-10s -> %s objective %.6f path %s" % (heur, r.status.name, r.objective, r.solution))
    if r.status.name == "OPTIMAL" and abs(r.objective - true) > 1e-9:
        print("   VIOLATION: labelled OPTIMAL but true shortest distance is %.6f" % true); bad = True
print("reference (Dijkstra, 8 neighbours, diagonal sqrt2):", true)
sys.exit(1 if bad else 0)
