"""astar_grid(costs={cell: c}) with c < 1: default heuristic overestimates, non-shortest path labelled OPTIMAL."""
import os, sys
sys.path.insert(0, os.getcwd())
from solvor.a_star import astar_grid
grid = [[0, 0, 0, 0, 0, 0],
        [2, 2, 2, 2, 2, 2]]
r = astar_grid(grid, (0, 0), (0, 5), costs={2: 0.1})
print("grid", grid, "costs {2: 0.1}, 4-neighbour, start (0,0) goal (0,5)")
print("returned:", r.status.name, r.objective, r.solution)
alt = [(0, 0), (1, 0), (1, 1), (1, 2), (1, 3), (1, 4), (1, 5), (0, 5)]
alt_cost = 0.1 * 6 + 1.0
print("cheaper path:", alt, "cost", alt_cost)
bad = r.status.name == "OPTIMAL" and r.objective > alt_cost + 1e-9
if bad: print("VIOLATION: labelled OPTIMAL with distance %s while a path of cost %s exists" % (r.objective, alt_cost))
sys.exit(1 if bad else 0)
