"""Node labels that happen to be callable (classes, functions) are silently taken for goal predicates:
wrong path labelled OPTIMAL, or a TypeError."""
import os, sys
sys.path.insert(0, os.getcwd())
from solvor.bfs import bfs, dfs
from solvor.dijkstra import dijkstra
bad = False
g = {int: [float], float: [str], str: []}          # nodes are the classes int, float, str
r = bfs(int, str, lambda s: g[s])
print("bfs(int, str, ...) on int->float->str :", r.status.name, r.objective, r.solution)
if r.solution != [int, float, str]:
    print("   VIOLATION: expected path [int, float, str] distance 2; got a 'path' that does not end at the target"); bad = True
r = dijkstra(int, str, lambda s: [(x, 1) for x in g[s]])
print("dijkstra same graph:", r.status.name, r.objective, r.solution)
if r.solution != [int, float, str]:
    print("   VIOLATION: same"); bad = True
def A(): pass
def B(): pass
adj = {A: [(B, 1)], B: []}
try:
    r = dijkstra(A, B, lambda s: adj[s]); print("function labels:", r)
except TypeError as e:
    print("dijkstra with function objects as labels: TypeError:", e); print("   VIOLATION: crash on hashable node labels"); bad = True
sys.exit(1 if bad else 0)
