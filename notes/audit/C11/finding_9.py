"""edges given as a generator / iterator: floyd_warshall silently returns the answer for the EDGELESS graph
(the validator consumes the iterator), bellman_ford crashes."""
import os, sys
sys.path.insert(0, os.getcwd())
import logging; logging.disable(logging.CRITICAL)
from solvor.floyd_warshall import floyd_warshall
from solvor.bellman_ford import bellman_ford
E = [(0, 1, 5), (1, 2, 5)]
bad = False
r = floyd_warshall(3, (e for e in E))
print("floyd_warshall(3, generator of", E, ") ->", r.status.name, r.solution)
print("floyd_warshall(3, list) ->", floyd_warshall(3, E).solution)
if r.solution != floyd_warshall(3, E).solution:
    print("   VIOLATION: dist[0][1] reported inf although edge 0->1 (5) exists; no error raised"); bad = True
try:
    print(bellman_ford(0, iter(E), 3, target=2))
except TypeError as e:
    print("bellman_ford(0, iter(edges), 3, target=2) -> TypeError:", e); bad = True
sys.exit(1 if bad else 0)
