"""
C12 finding 1: the Python path of bfs_edges / dfs_edges / dijkstra_edges inherits a hidden max_iter=1_000_000 from
the callback functions bfs()/dfs()/dijkstra(); the Rust path has no such limit. On a graph with more than 1e6 reachable nodes
backend='python' silently truncates the reachable set (still labelled OPTIMAL) or answers MAX_ITER, backend='rust' answers correctly.
Run from the repository root: python AUDIT/finding_1.py   (exit 1 = violation present, 0 = absent)
"""
import importlib.machinery, importlib.util, os, subprocess, sys
sys.path.insert(0, os.getcwd())
_tgt = "/tmp/audit-C12-target"
_so = os.path.join(_tgt, "release", "lib_solvor_rust.so")
if not os.path.exists(_so):
    subprocess.run(["cargo", "build", "--release", "--offline", "--target-dir", _tgt], cwd="rust", check=True,
                   env=dict(os.environ, CARGO_NET_OFFLINE="true"), capture_output=True)
_loader = importlib.machinery.ExtensionFileLoader("solvor._solvor_rust", _so)
_spec = importlib.util.spec_from_file_location("solvor._solvor_rust", _so, loader=_loader)
_mod = importlib.util.module_from_spec(_spec); _spec.loader.exec_module(_mod); sys.modules["solvor._solvor_rust"] = _mod
import solvor; solvor._solvor_rust = _mod
import solvor.rust
assert solvor.rust.rust_available(), "rust extension not loaded"
import signal
def _alarm(*a): raise TimeoutError("call timed out")
signal.signal(signal.SIGALRM, _alarm)
def run(f, *a, **k):
    """call f and return (status name | 'EXC:<type>', solution, objective)"""
    signal.alarm(120)
    try:
        r = f(*a, **k); return (r.status.name, r.solution, r.objective)
    except Exception as e:
        return ("EXC:" + type(e).__name__, str(e)[:100], None)
    finally:
        signal.alarm(0)
from solvor import bfs_edges, dfs_edges, dijkstra_edges
N = 1_000_010
e2 = [(i, i + 1) for i in range(N - 1)]          # simple chain 0 -> 1 -> ... -> N-1, every node reachable from 0
e3 = [(u, v, 1.0) for u, v in e2]
bad = 0
def cmp(title, f, *a, **k):
    global bad
    r = run(f, *a, backend="rust", **k); p = run(f, *a, backend="python", **k)
    rs = (r[0], len(r[1]) if isinstance(r[1], (list, dict)) else r[1], r[2])
    ps = (p[0], len(p[1]) if isinstance(p[1], (list, dict)) else p[1], p[2])
    diff = rs != ps
    bad += diff
    print(f"{title}: rust (status, len(solution), objective)={rs}  python={ps}  {'<-- DISAGREE' if diff else 'same'}")
print(f"input: chain graph with n_nodes={N}, edges (i,i+1), source=0")
cmp("bfs_edges no target (reachable set)", bfs_edges, N, e2, 0)
cmp("dfs_edges no target (reachable set)", dfs_edges, N, e2, 0)
cmp("bfs_edges target=N-1", bfs_edges, N, e2, 0, target=N - 1)
cmp("dfs_edges target=N-1", dfs_edges, N, e2, 0, target=N - 1)
cmp("dijkstra_edges target=N-1", dijkstra_edges, N, e3, 0, target=N - 1)
if bad:
    print("VIOLATION: all N nodes are reachable / the target is reachable; the python back-end reports only 1000001 nodes as "
          "OPTIMAL, or MAX_ITER, so reachability and status depend on the back-end.")
    sys.exit(1)
print("no violation"); sys.exit(0)
