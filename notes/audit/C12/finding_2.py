"""
C12 finding 2: strongly_connected_components_edges with the Rust back-end (also the default) recurses once per node on the
native stack; a simple chain of 100000 nodes kills the interpreter with SIGSEGV. backend='python' answers the same input
(with sys.setrecursionlimit raised, as the module docstring advises).
Run from the repository root: python AUDIT/finding_2.py   (exit 1 = violation present, 0 = absent)
"""
import importlib.machinery, importlib.util, os, subprocess, sys
sys.path.insert(0, os.getcwd())
_tgt = "/tmp/audit-C12-target"
_so = os.path.join(_tgt, "release", "lib_solvor_rust.so")
if not os.path.exists(_so):
    subprocess.run(["cargo", "build", "--release", "--offline", "--target-dir", _tgt], cwd="rust", check=True,
                   env=dict(os.environ, CARGO_NET_OFFLINE="true"), capture_output=True)
_loader = importlib.machinery.ExtensionFileLoader("solvor._solvor_rust", _so)
_spec = importlib.util.spec_from_file_location("solvor._solvor_rust", _so, loader=_loader)
_mod = importlib.util.module_from_spec(_spec); _spec.loader.exec_module(_mod); sys.modules["solvor._solvor_rust"] = _mod
import solvor; solvor._solvor_rust = _mod
import solvor.rust
assert solvor.rust.rust_available(), "rust extension not loaded"
import signal
def _alarm(*a): raise TimeoutError("call timed out")
signal.signal(signal.SIGALRM, _alarm)
def run(f, *a, **k):
    """call f and return (status name | 'EXC:<type>', solution, objective)"""
    signal.alarm(120)
    try:
        r = f(*a, **k); return (r.status.name, r.solution, r.objective)
    except Exception as e:
        return ("EXC:" + type(e).__name__, str(e)[:100], None)
    finally:
        signal.alarm(0)
from solvor import strongly_connected_components_edges
M = 100_000
if len(sys.argv) > 1:      # child: do the call with the requested back-end
    b = sys.argv[1]
    sys.setrecursionlimit(10 ** 7)
    r = strongly_connected_components_edges(M, [(i, i + 1) for i in range(M - 1)], backend=None if b == "default" else b)
    print(b, r.status.name, "components:", len(r.solution)); sys.exit(0)
print(f"input: chain graph n_nodes={M}, edges (i,i+1); expected: {M} singleton components")
rc = {}
for b in ("python", "rust", "default"):
    p = subprocess.run([sys.executable, __file__, b], capture_output=True, text=True, timeout=600)
    rc[b] = p.returncode
    print(f"backend={b}: exit code {p.returncode} {'(killed by signal %d)' % -p.returncode if p.returncode < 0 else ''} stdout={p.stdout.strip()!r}")
if rc["python"] == 0 and (rc["rust"] != 0 or rc["default"] != 0):
    print("VIOLATION: the python back-end returns the partition, the rust/default back-end crashes the whole process "
          "(not even an exception) on a valid input.")
    sys.exit(1)
print("no violation"); sys.exit(0)
