"""
C12 finding 3 (arguable, limitation is documented in solvor/scc.py): with the default recursion limit
strongly_connected_components_edges(backend='python') raises RecursionError on a 3000-node chain, rust/default answer it.
Run from the repository root: python AUDIT/finding_3.py   (exit 1 = violation present, 0 = absent)
"""
import importlib.machinery, importlib.util, os, subprocess, sys
sys.path.insert(0, os.getcwd())
_tgt = "/tmp/audit-C12-target"
_so = os.path.join(_tgt, "release", "lib_solvor_rust.so")
if not os.path.exists(_so):
    subprocess.run(["cargo", "build", "--release", "--offline", "--target-dir", _tgt], cwd="rust", check=True,
                   env=dict(os.environ, CARGO_NET_OFFLINE="true"), capture_output=True)
_loader = importlib.machinery.ExtensionFileLoader("solvor._solvor_rust", _so)
_spec = importlib.util.spec_from_file_location("solvor._solvor_rust", _so, loader=_loader)
_mod = importlib.util.module_from_spec(_spec); _spec.loader.exec_module(_mod); sys.modules["solvor._solvor_rust"] = _mod
import solvor; solvor._solvor_rust = _mod
import solvor.rust
assert solvor.rust.rust_available(), "rust extension not loaded"
import signal
def _alarm(*a): raise TimeoutError("call timed out")
signal.signal(signal.SIGALRM, _alarm)
def run(f, *a, **k):
    """call f and return (status name | 'EXC:<type>', solution, objective)"""
    signal.alarm(120)
    try:
        r = f(*a, **k); return (r.status.name, r.solution, r.objective)
    except Exception as e:
        return ("EXC:" + type(e).__name__, str(e)[:100], None)
    finally:
        signal.alarm(0)
from solvor import strongly_connected_components_edges
M = 3000
e = [(i, i + 1) for i in range(M - 1)]
print(f"input: chain graph n_nodes={M}; recursion limit {sys.getrecursionlimit()}")
out = {b: run(strongly_connected_components_edges, M, e, backend=b) for b in ("rust", "python", None)}
for b, r in out.items():
    print(f"backend={b}: status={r[0]} n_components={r[2]}" + (f" msg={r[1]}" if r[0].startswith('EXC') else ""))
if out["rust"][0] != out["python"][0]:
    print("VIOLATION: same valid input, rust gives OPTIMAL with 3000 components, python raises RecursionError."); sys.exit(1)
print("no violation"); sys.exit(0)
