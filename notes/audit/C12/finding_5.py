"""
C12 finding 5 (arguable, float corner): the convergence test max_diff < tol is evaluated on residuals that differ in the last
bits between the two back-ends (Python's sum() is compensated since 3.12, and the operations are grouped differently), so a tol at
the boundary makes the STATUS differ: one back-end says OPTIMAL (converged), the other MAX_ITER.
Run from the repository root: python AUDIT/finding_5.py   (exit 1 = violation present, 0 = absent)
"""
import importlib.machinery, importlib.util, os, subprocess, sys
sys.path.insert(0, os.getcwd())
_tgt = "/tmp/audit-C12-target"
_so = os.path.join(_tgt, "release", "lib_solvor_rust.so")
if not os.path.exists(_so):
    subprocess.run(["cargo", "build", "--release", "--offline", "--target-dir", _tgt], cwd="rust", check=True,
                   env=dict(os.environ, CARGO_NET_OFFLINE="true"), capture_output=True)
_loader = importlib.machinery.ExtensionFileLoader("solvor._solvor_rust", _so)
_spec = importlib.util.spec_from_file_location("solvor._solvor_rust", _so, loader=_loader)
_mod = importlib.util.module_from_spec(_spec); _spec.loader.exec_module(_mod); sys.modules["solvor._solvor_rust"] = _mod
import solvor; solvor._solvor_rust = _mod
import solvor.rust
assert solvor.rust.rust_available(), "rust extension not loaded"
import signal
def _alarm(*a): raise TimeoutError("call timed out")
signal.signal(signal.SIGALRM, _alarm)
def run(f, *a, **k):
    """call f and return (status name | 'EXC:<type>', solution, objective)"""
    signal.alarm(120)
    try:
        r = f(*a, **k); return (r.status.name, r.solution, r.objective)
    except Exception as e:
        return ("EXC:" + type(e).__name__, str(e)[:100], None)
    finally:
        signal.alarm(0)
import itertools, math
from solvor import pagerank_edges
n, e, k, tol = 4, [(0, 0), (0, 1)], 2, 0.011289062500000004
print(f"input: pagerank_edges({n}, {e}, max_iter={k}, tol={tol!r})")
out = {b: run(pagerank_edges, n, e, max_iter=k, tol=tol, backend=b) for b in ("rust", "python", None)}
for b, r in out.items(): print(f"backend={b}: status={r[0]} scores={r[1]}")
bad = out["rust"][0] != out["python"][0]
# the witness depends on the platform's float summation; if it does not reproduce, search a few small graphs
if not bad:
    pairs = [(u, v) for u in range(3) for v in range(3)]
    for m in (1, 2, 3):
        for ee in itertools.combinations(pairs, m):
            for kk in (1, 2, 3, 4):
                md = pagerank_edges(3, list(ee), max_iter=kk, tol=0.0, backend="python").objective
                for t in (md, math.nextafter(md, math.inf)):
                    if md and pagerank_edges(3, list(ee), max_iter=kk, tol=t, backend="rust").status != pagerank_edges(3, list(ee), max_iter=kk, tol=t, backend="python").status:
                        print("other witness:", 3, list(ee), kk, repr(t)); bad = True; break
                if bad: break
            if bad: break
        if bad: break
if bad:
    print("VIOLATION: same input, different status; scores agree to ~1e-17 but 'converged' vs 'iteration limit' depends on the back-end."); sys.exit(1)
print("no violation"); sys.exit(0)
