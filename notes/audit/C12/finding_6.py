"""
C12 finding 6 (arguable, extreme magnitudes): rust/src/bindings/shortest_path.rs maps every infinite distance to +inf
(if d.is_infinite() { INFINITY }), so a distance that overflowed to -inf is reported as 'unreachable' by the Rust path while the
Python path reports -inf. bellman_ford: node dropped from the distance dict / INFEASIBLE for the target; floyd_warshall: +inf entry.
Run from the repository root: python AUDIT/finding_6.py   (exit 1 = violation present, 0 = absent)
"""
import importlib.machinery, importlib.util, os, subprocess, sys
sys.path.insert(0, os.getcwd())
_tgt = "/tmp/audit-C12-target"
_so = os.path.join(_tgt, "release", "lib_solvor_rust.so")
if not os.path.exists(_so):
    subprocess.run(["cargo", "build", "--release", "--offline", "--target-dir", _tgt], cwd="rust", check=True,
                   env=dict(os.environ, CARGO_NET_OFFLINE="true"), capture_output=True)
_loader = importlib.machinery.ExtensionFileLoader("solvor._solvor_rust", _so)
_spec = importlib.util.spec_from_file_location("solvor._solvor_rust", _so, loader=_loader)
_mod = importlib.util.module_from_spec(_spec); _spec.loader.exec_module(_mod); sys.modules["solvor._solvor_rust"] = _mod
import solvor; solvor._solvor_rust = _mod
import solvor.rust
assert solvor.rust.rust_available(), "rust extension not loaded"
import signal
def _alarm(*a): raise TimeoutError("call timed out")
signal.signal(signal.SIGALRM, _alarm)
def run(f, *a, **k):
    """call f and return (status name | 'EXC:<type>', solution, objective)"""
    signal.alarm(120)
    try:
        r = f(*a, **k); return (r.status.name, r.solution, r.objective)
    except Exception as e:
        return ("EXC:" + type(e).__name__, str(e)[:100], None)
    finally:
        signal.alarm(0)
from solvor import bellman_ford, floyd_warshall
E = [(0, 1, -1e308), (1, 2, -1e308)]
print(f"input: edges={E}, n_nodes=3, start=0 (finite weights, no cycle)")
bad = 0
for title, f, a, k in (("bellman_ford all", bellman_ford, (0, E, 3), {}), ("bellman_ford target=2", bellman_ford, (0, E, 3), {"target": 2}),
                       ("floyd_warshall", floyd_warshall, (3, E), {})):
    r = run(f, *a, backend="rust", **k); p = run(f, *a, backend="python", **k)
    d = r != p; bad += d
    print(f"{title}: rust={r}\n{' ' * len(title)}  python={p} {'<-- DISAGREE' if d else ''}")
if bad:
    print("VIOLATION: node 2 IS reachable (path 0-1-2); rust says unreachable / INFEASIBLE / +inf, python says -inf with OPTIMAL."); sys.exit(1)
print("no violation"); sys.exit(0)
