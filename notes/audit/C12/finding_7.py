"""
C12 finding 7 (arguable, ints >= 2**53): floyd_warshall's Python path keeps integer weights as exact Python ints, the Rust path
converts them to f64. A cycle of exact weight -1 is a negative cycle for Python (UNBOUNDED) and weight 0 for Rust (OPTIMAL).
Run from the repository root: python AUDIT/finding_7.py   (exit 1 = violation present, 0 = absent)
"""
import importlib.machinery, importlib.util, os, subprocess, sys
sys.path.insert(0, os.getcwd())
_tgt = "/tmp/audit-C12-target"
_so = os.path.join(_tgt, "release", "lib_solvor_rust.so")
if not os.path.exists(_so):
    subprocess.run(["cargo", "build", "--release", "--offline", "--target-dir", _tgt], cwd="rust", check=True,
                   env=dict(os.environ, CARGO_NET_OFFLINE="true"), capture_output=True)
_loader = importlib.machinery.ExtensionFileLoader("solvor._solvor_rust", _so)
_spec = importlib.util.spec_from_file_location("solvor._solvor_rust", _so, loader=_loader)
_mod = importlib.util.module_from_spec(_spec); _spec.loader.exec_module(_mod); sys.modules["solvor._solvor_rust"] = _mod
import solvor; solvor._solvor_rust = _mod
import solvor.rust
assert solvor.rust.rust_available(), "rust extension not loaded"
import signal
def _alarm(*a): raise TimeoutError("call timed out")
signal.signal(signal.SIGALRM, _alarm)
def run(f, *a, **k):
    """call f and return (status name | 'EXC:<type>', solution, objective)"""
    signal.alarm(120)
    try:
        r = f(*a, **k); return (r.status.name, r.solution, r.objective)
    except Exception as e:
        return ("EXC:" + type(e).__name__, str(e)[:100], None)
    finally:
        signal.alarm(0)
from solvor import floyd_warshall, kruskal
E = [(0, 1, -(2 ** 53 + 1)), (1, 0, 2 ** 53)]
print(f"input: floyd_warshall(2, {E})   exact cycle weight = {E[0][2] + E[1][2]}")
out = {b: run(floyd_warshall, 2, E, backend=b) for b in ("rust", "python", None)}
for b, r in out.items(): print(f"backend={b}: {r}")
if out["rust"][0] != out["python"][0]:
    print("VIOLATION: status (UNBOUNDED vs OPTIMAL) depends on the back-end."); sys.exit(1)
print("no violation"); sys.exit(0)
