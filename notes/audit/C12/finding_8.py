"""
C12 finding 8 (arguable, container types): the Rust path only accepts edges as a Sequence of real tuples. Edge rows given as lists
(e.g. loaded from JSON) or edges given as a generator / set work with backend='python' and raise TypeError with rust/default.
(floyd_warshall(directed=False) even works on rust because the adapter rebuilds the tuples, directed=True does not.)
Run from the repository root: python AUDIT/finding_8.py   (exit 1 = violation present, 0 = absent)
"""
import importlib.machinery, importlib.util, os, subprocess, sys
sys.path.insert(0, os.getcwd())
_tgt = "/tmp/audit-C12-target"
_so = os.path.join(_tgt, "release", "lib_solvor_rust.so")
if not os.path.exists(_so):
    subprocess.run(["cargo", "build", "--release", "--offline", "--target-dir", _tgt], cwd="rust", check=True,
                   env=dict(os.environ, CARGO_NET_OFFLINE="true"), capture_output=True)
_loader = importlib.machinery.ExtensionFileLoader("solvor._solvor_rust", _so)
_spec = importlib.util.spec_from_file_location("solvor._solvor_rust", _so, loader=_loader)
_mod = importlib.util.module_from_spec(_spec); _spec.loader.exec_module(_mod); sys.modules["solvor._solvor_rust"] = _mod
import solvor; solvor._solvor_rust = _mod
import solvor.rust
assert solvor.rust.rust_available(), "rust extension not loaded"
import signal
def _alarm(*a): raise TimeoutError("call timed out")
signal.signal(signal.SIGALRM, _alarm)
def run(f, *a, **k):
    """call f and return (status name | 'EXC:<type>', solution, objective)"""
    signal.alarm(120)
    try:
        r = f(*a, **k); return (r.status.name, r.solution, r.objective)
    except Exception as e:
        return ("EXC:" + type(e).__name__, str(e)[:100], None)
    finally:
        signal.alarm(0)
from solvor import dijkstra_edges, bfs_edges, floyd_warshall, kruskal, topological_sort_edges
bad = 0
cases = [("dijkstra_edges rows as lists", dijkstra_edges, lambda: (3, [[0, 1, 1.0], [1, 2, 2.0]], 0), {}),
         ("kruskal rows as lists", kruskal, lambda: (3, [[0, 1, 1.0], [1, 2, 2.0]]), {}),
         ("floyd_warshall rows as lists, directed", floyd_warshall, lambda: (3, [[0, 1, 1.0]]), {}),
         ("floyd_warshall rows as lists, undirected", floyd_warshall, lambda: (3, [[0, 1, 1.0]]), {"directed": False}),
         ("bfs_edges edges as set", bfs_edges, lambda: (3, {(0, 1), (1, 2)}, 0), {}),
         ("topological_sort_edges edges as generator", topological_sort_edges, lambda: (3, (e for e in [(0, 1), (1, 2)])), {})]
for title, f, mk, k in cases:
    r = run(f, *mk(), backend="rust", **k); p = run(f, *mk(), backend="python", **k); d = run(f, *mk(), **k)
    dis = r[0] != p[0]; bad += dis
    print(f"{title}:\n   rust   ={r}\n   python ={p}\n   default={d} {'<-- DISAGREE' if dis else ''}")
if bad:
    print("VIOLATION: whether the call succeeds depends on the back-end."); sys.exit(1)
print("no violation"); sys.exit(0)
