"""
C12 finding 9 (arguable): Result.objective depends on the back-end. topological_sort_edges: python n_nodes, rust 0;
pagerank_edges: python = last residual (max_diff), rust = 0.0.
Run from the repository root: python AUDIT/finding_9.py   (exit 1 = violation present, 0 = absent)
"""
import importlib.machinery, importlib.util, os, subprocess, sys
sys.path.insert(0, os.getcwd())
_tgt = "/tmp/audit-C12-target"
_so = os.path.join(_tgt, "release", "lib_solvor_rust.so")
if not os.path.exists(_so):
    subprocess.run(["cargo", "build", "--release", "--offline", "--target-dir", _tgt], cwd="rust", check=True,
                   env=dict(os.environ, CARGO_NET_OFFLINE="true"), capture_output=True)
_loader = importlib.machinery.ExtensionFileLoader("solvor._solvor_rust", _so)
_spec = importlib.util.spec_from_file_location("solvor._solvor_rust", _so, loader=_loader)
_mod = importlib.util.module_from_spec(_spec); _spec.loader.exec_module(_mod); sys.modules["solvor._solvor_rust"] = _mod
import solvor; solvor._solvor_rust = _mod
import solvor.rust
assert solvor.rust.rust_available(), "rust extension not loaded"
import signal
def _alarm(*a): raise TimeoutError("call timed out")
signal.signal(signal.SIGALRM, _alarm)
def run(f, *a, **k):
    """call f and return (status name | 'EXC:<type>', solution, objective)"""
    signal.alarm(120)
    try:
        r = f(*a, **k); return (r.status.name, r.solution, r.objective)
    except Exception as e:
        return ("EXC:" + type(e).__name__, str(e)[:100], None)
    finally:
        signal.alarm(0)
from solvor import topological_sort_edges, pagerank_edges
bad = 0
for title, f, a, k in (("topological_sort_edges(3, [(0,1)])", topological_sort_edges, (3, [(0, 1)]), {}),
                       ("pagerank_edges(3, [(0,1)], max_iter=1)", pagerank_edges, (3, [(0, 1)]), {"max_iter": 1})):
    r = run(f, *a, backend="rust", **k); p = run(f, *a, backend="python", **k)
    d = r[2] != p[2]; bad += d
    print(f"{title}: rust objective={r[2]!r} python objective={p[2]!r} {'<-- DISAGREE' if d else ''}")
if bad:
    print("VIOLATION (arguable): the objective field of the Result reveals the back-end."); sys.exit(1)
print("no violation"); sys.exit(0)
