"""prim: neighbour lists given as one-shot iterables (generators / iterators) -> connected graph reported INFEASIBLE.

prim's signature is graph: dict[Node, Iterable[tuple[Node, float]]].  The node-collection pre-pass
(`for neighbors in graph.values(): for neighbor, _ in neighbors`) exhausts every one-shot iterable,
so the main loop sees an empty adjacency for every node.
"""
import sys
sys.path.insert(0, "")
sys.path.insert(0, ".")
from solvor.mst import prim, kruskal
from solvor.types import Status

adj = {0: [(1, 4), (2, 3)], 1: [(0, 4), (2, 2)], 2: [(0, 3), (1, 2)]}
as_lists = prim(adj, start=0)
as_gens = prim({u: ((v, w) for v, w in nbrs) for u, nbrs in adj.items()}, start=0)
as_iters = prim({u: iter(nbrs) for u, nbrs in adj.items()})
k = kruskal(3, [(0, 1, 4), (0, 2, 3), (1, 2, 2)])
print("graph (connected triangle):", adj)
print("prim with list neighbours      :", as_lists.status, as_lists.solution, as_lists.objective)
print("prim with generator neighbours :", as_gens.status, as_gens.solution, as_gens.objective)
print("prim with iterator neighbours  :", as_iters.status, as_iters.solution, as_iters.objective)
print("kruskal                        :", k.status, k.solution, k.objective)
bad = as_gens.status == Status.INFEASIBLE or as_iters.status == Status.INFEASIBLE
if bad:
    print("VIOLATION: connected graph (Iterable neighbour containers as in the type annotation) reported "
          "INFEASIBLE; kruskal finds a spanning tree of weight 5.")
    sys.exit(1)
print("no violation")
sys.exit(0)
