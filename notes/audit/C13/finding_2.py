"""objective is accumulated in binary floating point starting from 0.0, in algorithm-specific order:
 (a) kruskal and prim report different objectives (0.0 vs 1.0) for the same tree on the same float graph;
 (b) with pure integer weights >= 2**53 the reported objective differs from the exact total of the
     returned edges (3.0 vs 2) in both functions.
"""
import sys
sys.path.insert(0, "")
sys.path.insert(0, ".")
from fractions import Fraction
from solvor.mst import prim, kruskal

bad = False
# (a) path 0-1-2-3, only one spanning tree, exact total weight = 1
edges = [(0, 1, 1e16), (1, 2, -1e16), (2, 3, 1.0)]
g = {0: [(1, 1e16)], 1: [(0, 1e16), (2, -1e16)], 2: [(1, -1e16), (3, 1.0)], 3: [(2, 1.0)]}
k = kruskal(4, edges)
p0 = prim(g, start=0)
p3 = prim(g, start=3)
exact = sum(Fraction(w) for _, _, w in edges)
print("(a) edges:", edges, "exact total of the unique spanning tree =", exact)
print("    kruskal objective      :", k.objective, k.solution)
print("    prim(start=0) objective:", p0.objective, p0.solution)
print("    prim(start=3) objective:", p3.objective, p3.solution)
if not (k.objective == p0.objective == p3.objective == exact):
    print("    VIOLATION: kruskal / prim do not agree on the weight (and/or objective != total weight of returned edges)")
    bad = True
# (b) integers only
B = 2**53
edges = [(0, 1, -(B + 1)), (1, 2, B), (2, 3, 3)]
g = {0: [(1, -(B + 1))], 1: [(0, -(B + 1)), (2, B)], 2: [(1, B), (3, 3)], 3: [(2, 3)]}
k = kruskal(4, edges)
p = prim(g, start=0)
exact = sum(w for _, _, w in edges)
print("(b) integer edges:", edges, "exact total =", exact)
print("    kruskal objective:", k.objective, "recomputed from its solution:", sum(w for *_, w in k.solution))
print("    prim objective   :", p.objective, "recomputed from its solution:", sum(w for *_, w in p.solution))
if k.objective != exact or p.objective != exact:
    print("    VIOLATION: reported objective != total weight of the returned (integer-weighted) tree")
    bad = True
sys.exit(1 if bad else 0)
