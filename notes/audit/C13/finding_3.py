"""Non-float numeric weights crash both functions: total_weight starts at 0.0 and does `+= w`.
Decimal -> TypeError, int > float max -> OverflowError (Fraction works, silently converted to float)."""
import sys
sys.path.insert(0, "")
sys.path.insert(0, ".")
from decimal import Decimal
from solvor.mst import prim, kruskal

bad = False
def attempt(label, f):
    global bad
    try:
        r = f()
        print(label, "->", r.status, r.solution, r.objective)
    except Exception as e:
        print(label, "-> CRASH", type(e).__name__ + ":", e)
        bad = True
d = Decimal("1.5")
attempt("kruskal(2, [(0,1,Decimal('1.5'))])", lambda: kruskal(2, [(0, 1, d)]))
attempt("prim({0:[(1,Decimal('1.5'))],1:[(0,Decimal('1.5'))]})", lambda: prim({0: [(1, d)], 1: [(0, d)]}))
h = 10**400
attempt("kruskal(2, [(0,1,10**400)])", lambda: kruskal(2, [(0, 1, h)]))
attempt("prim({0:[(1,10**400)],1:[(0,10**400)]})", lambda: prim({0: [(1, h)], 1: [(0, h)]}))
if bad:
    print("VIOLATION (arguable): unexpected exception on a connected weighted graph whose weights are totally ordered numbers")
sys.exit(1 if bad else 0)
