"""prim silently accepts an adjacency dict in which each undirected edge is listed once (it even collects
nodes that occur only as neighbours and uses graph.get(v, [])), but then treats the edges as directed:
a non-minimum tree is returned with status OPTIMAL, or a connected graph is INFEASIBLE, depending on start."""
import sys
sys.path.insert(0, "")
sys.path.insert(0, ".")
from solvor.mst import prim, kruskal
from solvor.types import Status

edges = [(0, 1, 10), (0, 2, 1), (1, 2, 1)]
g = {0: [(1, 10), (2, 1)], 1: [(2, 1)]}          # every undirected edge listed exactly once
k = kruskal(3, edges)
bad = False
print("undirected edges:", edges, " adjacency (each edge once):", g)
print("kruskal:", k.status, k.solution, k.objective)
for s in (None, 0, 1, 2):
    r = prim(g, start=s)
    print(f"prim(start={s}):", r.status, r.solution, r.objective)
    if r.status != Status.OPTIMAL or r.objective != k.objective:
        bad = True
if bad:
    print("VIOLATION (arguable): prim returns weight 11 labelled OPTIMAL (minimum is 2) / INFEASIBLE for a connected graph; "
          "answer depends on the start node")
sys.exit(1 if bad else 0)
