"""C14 finding 1: topological_sort gives wrong status when the node iterable repeats a node.

strongly_connected_components / condense de-duplicate a repeated node, topological_sort does not:
it counts the repeated node's out-edges once per occurrence when building in-degrees, but relaxes
them occurrences**2 times, and compares len(result) with the length of the raw list.
"""
import os
import sys

sys.path.insert(0, os.getcwd())
from solvor.scc import strongly_connected_components, topological_sort
from solvor.types import Status

bad = 0

# (a) cyclic graph reported as sortable
E = {"x": ["y"], "y": ["z"], "z": ["y"]}
nodes = ["x", "x", "y", "z"]
r = topological_sort(nodes, lambda v: E[v])
s = strongly_connected_components(nodes, lambda v: E[v])
print("(a) nodes", nodes, "edges", E)
print("    topological_sort ->", r.status.name, r.solution)
print("    strongly_connected_components ->", s.solution, "(y,z form a cycle)")
if r.status != Status.INFEASIBLE:
    print("    VIOLATION: graph has the cycle y->z->y, but an ordering is returned as OPTIMAL;")
    print("    in it the edge z->y points backward.")
    bad = 1

# (b) acyclic graph reported INFEASIBLE
nodes = ["a", "b", "b"]
r = topological_sort(nodes, lambda v: ["b"] if v == "a" else [])
print("(b) nodes", nodes, "edges a->b")
print("    topological_sort ->", r.status.name, r.solution)
if r.status != Status.OPTIMAL:
    print("    VIOLATION: the graph a->b is acyclic, INFEASIBLE is wrong.")
    bad = 1

# (c) ordering is not an ordering of the nodes (repeats)
nodes = ["a", "a"]
r = topological_sort(nodes, lambda v: [])
print("(c) nodes", nodes, "no edges")
print("    topological_sort ->", r.status.name, r.solution)
if r.solution is not None and len(set(r.solution)) != len(r.solution):
    print("    VIOLATION (minor): the returned 'ordering' lists node 'a' twice.")
    bad = 1

print("violation present" if bad else "no violation")
sys.exit(bad)
