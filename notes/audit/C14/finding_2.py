"""C14 finding 2: SCC / condense crash (IndexError) on a hashable node that is not equal to itself (NaN).

Tarjan's pop loop ends with `if w == v: break`; for float('nan') / Decimal('NaN') that is never true,
so the loop pops past the root (silently swallowing unrelated stack entries) and dies on the empty stack.
All set/dict lookups in the module work for such a node (identity shortcut), topological_sort handles it.
"""
import os
import sys
from decimal import Decimal

sys.path.insert(0, os.getcwd())
from solvor.scc import condense, strongly_connected_components, topological_sort

bad = 0
for label in (float("nan"), Decimal("NaN")):
    nodes = [0, label, 1]
    adj = {0: [label], 1: []}
    nb = lambda v: adj[v] if v == v else [1]  # 0 -> nan -> 1, acyclic path  # noqa: E731
    t = topological_sort(nodes, nb)
    print("nodes", nodes, "edges 0->nan->1; topological_sort ->", t.status.name, t.solution)
    for fn in (strongly_connected_components, condense):
        try:
            r = fn(nodes, nb)
            print("   ", fn.__name__, "->", r.solution)
        except Exception as e:  # noqa: BLE001
            print("   ", fn.__name__, "raised", type(e).__name__ + ":", e)
            print("    VIOLATION: unexpected exception on a graph with hashable nodes (expected 3 singleton components)")
            bad = 1
print("violation present" if bad else "no violation")
sys.exit(bad)
