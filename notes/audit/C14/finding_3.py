"""C14 finding 3: SCC / condense raise RecursionError on a plain path of ~1000 nodes (default interpreter settings).

strongconnect() is recursive, one Python frame per DFS depth. topological_sort (iterative) solves the same input.
The module docstring mentions the limitation, but the property quantifies over all directed graphs.
"""
import os
import sys

sys.path.insert(0, os.getcwd())
from solvor.scc import condense, strongly_connected_components, topological_sort

n = max(1000, sys.getrecursionlimit())
bad = 0
nb = lambda v: [v + 1]  # path 0->1->...->n-1 (last neighbour lies outside the node set)  # noqa: E731
t = topological_sort(range(n), nb)
print(f"path graph with {n} nodes, recursion limit {sys.getrecursionlimit()}")
print("   topological_sort ->", t.status.name, "len", len(t.solution))
for fn in (strongly_connected_components, condense):
    try:
        r = fn(range(n), nb)
        print("  ", fn.__name__, "->", r.status.name, "components", r.objective)
    except RecursionError as e:
        print("  ", fn.__name__, "raised RecursionError:", e)
        print("   VIOLATION: crash on a valid acyclic graph (expected", n, "singleton components, sinks first)")
        bad = 1
print("violation present" if bad else "no violation")
sys.exit(bad)
