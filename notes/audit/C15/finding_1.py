"""pagerank declares convergence (Status.OPTIMAL) on scores that violate the damped
PageRank equation by far more than tol (default damping=0.85, tol=1e-6)."""
import sys
sys.path.insert(0, ".")
from fractions import Fraction as F
from solvor.pagerank import pagerank
from solvor.types import Status


def wheel(m, L):
    # hub 'A' -> first node of m chains of length L; the last node of every chain -> 'A'
    out = {"A": [(i, 1) for i in range(m)]}
    for i in range(m):
        for j in range(1, L + 1):
            out[(i, j)] = [(i, j + 1)] if j < L else ["A"]
    return list(out), out


def exact_residual(nodes, out, x, d):
    """max_v |x_v - ((1-d)/n + d*sum_{u->v} x_u/outdeg(u) + d*dangling/n)| evaluated exactly."""
    n = len(nodes)
    d = F(d)
    xs = {v: F(x[v]) for v in nodes}
    dang = sum(xs[v] for v in nodes if not out[v])
    fx = {v: (1 - d) / n + d * dang / n for v in nodes}
    for v in nodes:
        for w in out[v]:
            fx[w] += d * xs[v] / len(out[v])
    worst = max(nodes, key=lambda v: abs(fx[v] - xs[v]))
    return float(abs(fx[worst] - xs[worst])), worst


bad = False
for m, L in ((3, 2), (270, 2)):
    nodes, out = wheel(m, L)
    tol = 1e-6
    r = pagerank(nodes, lambda v: out[v])  # defaults: damping=0.85, tol=1e-6, max_iter=100
    res, worst = exact_residual(nodes, out, r.solution, 0.85)
    print(f"wheel(m={m}, L={L}): n={len(nodes)} nodes, no dangling nodes, strongly connected")
    print(f"  returned: status={r.status.name} iterations={r.iterations} objective(max_diff)={r.objective:.3e}")
    print(f"  exact residual of the PageRank equation at node {worst!r}: {res:.3e} = {res / tol:.1f} x tol")
    if r.status == Status.OPTIMAL and res > tol:
        bad = True
        print("  VIOLATION: result is labelled converged but does not satisfy the equation to within tol")
if bad:
    print("why: the stop test is max|x_new - x_old| < tol; in the max-norm the PageRank map is not a contraction")
    print("     (a hub with m in-links amplifies a per-node change eps to d*m*eps), so the residual of the")
    print("     returned vector can exceed the last observed change by a factor ~ d*m.")
sys.exit(1 if bad else 0)
