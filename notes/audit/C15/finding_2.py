"""articulation_points / bridges crash with RecursionError on a path graph of 1000 nodes."""
import sys
sys.path.insert(0, ".")
from solvor.articulation import articulation_points, bridges

N = 1000
nb = lambda v: [w for w in (v - 1, v + 1) if 0 <= w < N]
bad = False
print(f"input: path graph 0-1-2-...-{N-1} (nodes=range({N})), recursion limit {sys.getrecursionlimit()} (default)")
for f, expect in ((articulation_points, N - 2), (bridges, N - 1)):
    try:
        r = f(range(N), nb)
        print(f"  {f.__name__}: returned {len(r.solution)} items (expected {expect})")
        if len(r.solution) != expect:
            bad = True
    except RecursionError as e:
        bad = True
        print(f"  {f.__name__}: RecursionError: {e}  -- expected {expect} cut vertices/bridges")
if bad:
    print("VIOLATION: unexpected exception on a valid undirected graph (recursive DFS, depth = longest DFS path)")
sys.exit(1 if bad else 0)
