"""bridges crashes with TypeError when the two endpoints of a bridge are not mutually orderable."""
import sys
sys.path.insert(0, ".")
from solvor.articulation import articulation_points, bridges

cases = {
    "None/str/int labels": {None: ["a"], "a": [None, 1], 1: ["a"]},
    "complex labels": {1j: [2j], 2j: [1j]},
    "tuples with mixed fields": {(1, "a"): [(1, 2)], (1, 2): [(1, "a")]},
}
bad = False
for name, g in cases.items():
    print(f"input ({name}): {g}")
    ap = articulation_points(g.keys(), lambda v: g[v])
    print(f"  articulation_points -> {ap.solution}  (works)")
    try:
        r = bridges(g.keys(), lambda v: g[v])
        print(f"  bridges -> {r.solution}")
    except TypeError as e:
        bad = True
        print(f"  bridges -> TypeError: {e}")
if bad:
    print("VIOLATION: every edge of these graphs is a bridge, but bridges() raises instead of returning them;")
    print("module doc says 'Works with any hashable node type'; cause: `edge = (v, w) if v < w else (w, v)`.")
sys.exit(1 if bad else 0)
