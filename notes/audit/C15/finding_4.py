"""pagerank(max_iter=0) (and pagerank_edges) crashes with UnboundLocalError."""
import sys
sys.path.insert(0, ".")
from solvor.pagerank import pagerank, pagerank_edges

g = {0: [1], 1: [0]}
bad = False
print("input: graph 0<->1, max_iter=0")
for name, call in (
    ("pagerank", lambda: pagerank(g, lambda v: g[v], max_iter=0)),
    ("pagerank_edges", lambda: pagerank_edges(2, [(0, 1), (1, 0)], max_iter=0)),
):
    try:
        r = call()
        print(f"  {name} -> {r!r} {r.solution}")
    except UnboundLocalError as e:
        bad = True
        print(f"  {name} -> UnboundLocalError: {e}")
if bad:
    print("VIOLATION: unexpected exception; a zero budget should give the uniform start vector labelled MAX_ITER")
    print("(non-negative, sums to 1). Cause: `max_diff` is only assigned inside the iteration loop.")
sys.exit(1 if bad else 0)
