"""A node listed twice in `nodes`: pagerank scores do not sum to 1, louvain output is not a partition."""
import sys
sys.path.insert(0, ".")
from solvor.pagerank import pagerank
from solvor.community import louvain

g = {0: [1], 1: [0]}
bad = False
r = pagerank([0, 0, 1], lambda v: g[v])
s = sum(r.solution.values())
print(f"pagerank(nodes=[0,0,1], 0<->1) -> {r.solution} status={r.status.name} sum={s}")
if abs(s - 1) > 1e-9:
    bad = True
    print("  VIOLATION: scores sum to", s, "not 1 (n counts the duplicate, the dict does not)")
r = louvain([0, 0, 1], lambda v: g[v])
flat = sorted(x for c in r.solution for x in c)
print(f"louvain(nodes=[0,0,1], 0<->1) -> {r.solution} modularity={r.objective}")
if flat != [0, 1]:
    bad = True
    print("  VIOLATION: node 0 appears in two communities -> not a partition of the node set {0,1}")
t = {0: [1, 2], 1: [0, 2], 2: [0, 1]}
r = louvain([0, 1, 0, 1, 2], lambda v: t[v])
flat = sorted(x for c in r.solution for x in c)
print(f"louvain(nodes=[0,1,0,1,2], triangle) -> {r.solution} modularity={r.objective}")
if flat != [0, 1, 2]:
    bad = True
    print("  VIOLATION: not a partition; reported modularity is negative although {0,1,2} has modularity 0")
sys.exit(1 if bad else 0)
