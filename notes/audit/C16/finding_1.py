"""solve_bin_pack: the absolute fit tolerance 1e-9 is not scale-aware, so with small
decimal sizes a bin is loaded far above its capacity, k drops below ceil(total/capacity)
and the over-full one-bin answer is labelled OPTIMAL."""
import sys
sys.path.insert(0, ".")
from fractions import Fraction as F
from math import ceil
from solvor import solve_bin_pack
from solvor.types import Status

bad = 0
cases = [([1e-9, 1e-9], 1e-9), ([2.0**-40] * 20, 2.0**-40), ([1e-10, 9e-11], 1e-10)]
for sizes, cap in cases:
    for alg in ("first-fit", "best-fit", "first-fit-decreasing", "best-fit-decreasing"):
        r = solve_bin_pack(sizes, cap, algorithm=alg)
        loads = {}
        for i, b in enumerate(r.solution):
            loads[b] = loads.get(b, F(0)) + F(sizes[i])
        worst = max(loads.values())
        lb = ceil(sum(F(s) for s in sizes) / F(cap))
        viol = []
        if worst > F(cap):
            viol.append(f"bin load {float(worst):.3g} = {float(worst / F(cap)):.3g} x capacity")
        if r.objective < lb:
            viol.append(f"k={r.objective} < ceil(total/capacity)={lb}")
        if r.status == Status.OPTIMAL and r.objective < lb:
            viol.append("labelled OPTIMAL although no feasible packing has so few bins")
        if viol:
            bad += 1
            print(f"sizes={sizes[:3]}{'...' if len(sizes) > 3 else ''} (n={len(sizes)}) capacity={cap} {alg}: "
                  f"assignment={r.solution} k={r.objective} {r.status.name} -> " + "; ".join(viol))
if bad:
    print(f"VIOLATION present in {bad} runs: every item equals the capacity, so each needs its own bin")
    sys.exit(1)
print("no violation")
sys.exit(0)
