"""solve_bin_pack with plain integer sizes >= 2**53: the fit test `size <= remaining + 1e-9`
converts the exact integer `remaining` to a float.  Rounding up lets an item into a bin
it does not fit (overfull bin, labelled OPTIMAL); rounding down rejects an exact fit, so the
decreasing variants use 2 bins where 1 suffices (2 > 11/9*1 + 6/9).  Beyond 1e308: OverflowError."""
import sys
sys.path.insert(0, ".")
from solvor import solve_bin_pack
from solvor.types import Status

B = 2**53
bad = 0
ALGS = ("first-fit", "best-fit", "first-fit-decreasing", "best-fit-decreasing")

# (a) overfull bin: 2*(B+4) = 2B+8 > capacity 2B+7, OPT = 2
sizes, cap = [B + 4, B + 4], 2 * B + 7
for alg in ALGS:
    r = solve_bin_pack(sizes, cap, algorithm=alg)
    loads = {}
    for i, b in enumerate(r.solution):
        loads[b] = loads.get(b, 0) + sizes[i]
    if max(loads.values()) > cap:
        bad += 1
        print(f"(a) sizes={sizes} capacity={cap} {alg}: {r.solution} k={r.objective} {r.status.name}; "
              f"bin load {max(loads.values())} > capacity {cap} (exact integers), "
              f"k < ceil(total/capacity) = {-(-sum(sizes) // cap)}")

# (b) exact fit refused: 2*(B+1) == capacity, OPT = 1
sizes, cap = [B + 1, B + 1], 2 * B + 2
for alg in ALGS:
    r = solve_bin_pack(sizes, cap, algorithm=alg)
    if r.objective > 1:
        bad += 1
        extra = " -> exceeds 11/9*OPT + 6/9 = 1.89 for a decreasing variant" if "decreasing" in alg else ""
        print(f"(b) sizes={sizes} capacity={cap} {alg}: {r.solution} k={r.objective} {r.status.name}; "
              f"both items fill one bin exactly (OPT=1){extra}")

# (c) crash on a valid integer input
sizes, cap = [1, 10**400], 10**400 + 1
for alg in ("first-fit", "best-fit"):
    try:
        solve_bin_pack(sizes, cap, algorithm=alg)
    except OverflowError as e:
        bad += 1
        print(f"(c) sizes=[1, 10**400] capacity=10**400+1 {alg}: OverflowError: {e}")

if bad:
    print(f"VIOLATION present ({bad} runs)")
    sys.exit(1)
print("no violation")
sys.exit(0)
