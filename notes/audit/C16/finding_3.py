"""solve_knapsack: the post-check `total_weight > capacity + 1e-9` is an absolute tolerance.
With zero / tiny capacity, or a weight that exceeds the capacity by < 1e-9, an item that does
NOT fit is returned and labelled OPTIMAL (its value can be far above the true optimum)."""
import sys
sys.path.insert(0, ".")
from fractions import Fraction as F
from itertools import combinations
from solvor import solve_knapsack

def brute(values, weights, cap):
    n = len(values)
    best = F(0)
    for k in range(n + 1):
        for c in combinations(range(n), k):
            if sum((F(weights[i]) for i in c), F(0)) <= F(cap):
                best = max(best, sum((F(values[i]) for i in c), F(0)))
    return best

bad = 0
cases = [
    ([1], [1e-10], 0),                       # zero capacity, positive weight
    ([1], [9e-10], 1e-12),                   # weight = 900 x capacity
    ([7], [2.0**-40], 0.0),
    ([5, 1], [0.5000000005, 0.5], 0.5),      # ordinary magnitude, excess 5e-10
    ([5, 4], [0.6, 0.4000000005], 1),
]
for values, weights, cap in cases:
    r = solve_knapsack(values, weights, cap)
    tw = sum((F(weights[i]) for i in r.solution), F(0))
    opt = brute(values, weights, cap)
    if tw > F(cap):
        bad += 1
        print(f"values={values} weights={weights} capacity={cap}: solution={r.solution} objective={r.objective} "
              f"{r.status.name}; total weight {float(tw)!r} > capacity {cap!r}; best value within capacity is {float(opt)}")
if bad:
    print(f"VIOLATION present in {bad} cases: selected items exceed the capacity, answer labelled OPTIMAL")
    sys.exit(1)
print("no violation")
sys.exit(0)
