"""solve_knapsack crashes with MemoryError when capacity is a large integer (or integer-valued
float) and all weights are integers: the DP table is sized by the capacity itself, even when the
instance is trivial (one item of weight 1).  A non-integer capacity of the same size works."""
import sys
sys.path.insert(0, ".")
from solvor import solve_knapsack

bad = 0
for cap in (2**53, 10**15, 1e15, 2.0**53):
    try:
        r = solve_knapsack([1], [1], cap)
        print(f"values=[1] weights=[1] capacity={cap!r}: {r.solution} {r.objective} {r.status.name}")
    except MemoryError as e:
        bad += 1
        print(f"values=[1] weights=[1] capacity={cap!r}: MemoryError (expected solution (0,), objective 1)")
r = solve_knapsack([1], [1.5], 1e15)
print(f"for comparison values=[1] weights=[1.5] capacity=1e15: {r.solution} {r.objective} {r.status.name}")
if bad:
    print("VIOLATION present: unexpected exception on a valid integer instance")
    sys.exit(1)
print("no violation")
sys.exit(0)
