"""solve_knapsack with integers >= 2**53 mixed with a float: float absorption makes the
feasibility post-check and the DP comparison wrong.
(a) weights [2**53+1, 0.5], capacity 2**53+1: both items returned (weight 2**53+1.5 > capacity), OPTIMAL.
(b) values [2**53+1, 2**53, 1.0], weights [1, 1, 0], capacity 1: the free item of value 1.0 is left out, OPTIMAL."""
import sys
sys.path.insert(0, ".")
from fractions import Fraction as F
from solvor import solve_knapsack

B = 2**53
bad = 0
values, weights, cap = [1, 1], [B + 1, 0.5], B + 1
r = solve_knapsack(values, weights, cap)
tw = sum((F(weights[i]) for i in r.solution), F(0))
if tw > cap:
    bad += 1
    print(f"(a) values={values} weights={weights} capacity={cap}: {r.solution} obj={r.objective} {r.status.name}; "
          f"exact total weight {tw} > capacity {cap}; best feasible value is 1")
values, weights, cap = [B + 1, B, 1.0], [1, 1, 0], 1
r = solve_knapsack(values, weights, cap)
got = sum((F(values[i]) for i in r.solution), F(0))
if r.status.name == "OPTIMAL" and got < B + 2:
    bad += 1
    print(f"(b) values={values} weights={weights} capacity={cap}: {r.solution} obj={r.objective} {r.status.name}; "
          f"subset (0, 2) has weight 1 and value {B + 2} > {got}")
if bad:
    print("VIOLATION present")
    sys.exit(1)
print("no violation")
sys.exit(0)
