"""C17 finding 1: solve_cg labels a plan OPTIMAL that uses one roll more than the true minimum
(float drift of the master LP objective exceeds eps=1e-9 once demands reach ~1e7)."""
import sys, os
sys.path.insert(0, os.getcwd())
sys.path.insert(1, os.path.dirname(os.path.dirname(os.path.abspath(__file__))))
import solvor; print("solvor imported from", solvor.__file__)
from solvor import solve_cg
from solvor.types import Status

W, sizes, demands = 11, [2, 8], [68994831, 82920176]
# True minimum by hand: a roll of width 11 holds at most one piece of size 8, so >= 82920176 rolls;
# 82920176 rolls of pattern (1,1) (2+8=10<=11) give 82920176 >= 68994831 pieces of size 2. Minimum = 82920176.
better = {(1, 1): 82920176}
assert all(sum(a * s for a, s in zip(p, sizes)) <= W for p in better)
assert all(sum(p[i] * c for p, c in better.items()) >= demands[i] for i in range(2))
true_min = sum(better.values())

bad = 0
for W, sizes, demands, better in [
    (11, [2, 8], [68994831, 82920176], {(1, 1): 82920176}),
    (12, [2, 10, 8], [6438431, 8410951, 7792171], {(0, 1, 0): 8410951, (0, 0, 1): 4572955, (2, 0, 1): 3219216}),
]:
    assert all(sum(a * s for a, s in zip(p, sizes)) <= W for p in better)
    assert all(sum(p[i] * c for p, c in better.items()) >= d for i, d in enumerate(demands))
    cert = sum(better.values())
    r = solve_cg(demands, roll_width=W, piece_sizes=sizes)
    rolls = sum(r.solution.values()) if r.solution else None
    print(f"roll_width={W} piece_sizes={sizes} demands={demands}")
    print(f"  solve_cg -> status={r.status.name} objective={r.objective!r} plan={r.solution}")
    print(f"  verified feasible plan with {cert} rolls: {better}")
    if r.status == Status.OPTIMAL and rolls > cert:
        print(f"  VIOLATION: status OPTIMAL with {rolls} rolls, but a valid plan with {cert} rolls exists")
        bad = 1
sys.exit(bad)
