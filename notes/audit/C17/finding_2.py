"""C17 finding 2: solve_bp reports an objective that is not the number of rolls of the returned plan
(raw float LP objective such as 7.000000000000001 / 6.999999999999999 instead of the integer count)."""
import sys, os
sys.path.insert(0, os.getcwd())
sys.path.insert(1, os.path.dirname(os.path.dirname(os.path.abspath(__file__))))
import solvor; print("solvor imported from", solvor.__file__)
from solvor import solve_bp

bad = 0
for W, sizes, demands in [(3, [1, 2], [7, 7]), (6, [4, 2], [7, 5]), (6, [6, 5, 2, 4], [2, 1, 5, 5])]:
    r = solve_bp(demands, roll_width=W, piece_sizes=sizes)
    rolls = sum(r.solution.values())
    print(f"roll_width={W} piece_sizes={sizes} demands={demands}: status={r.status.name} "
          f"objective={r.objective!r} plan={r.solution} rolls in plan={rolls}")
    if r.objective != rolls:
        print(f"  VIOLATION: objective {r.objective!r} != total number of rolls used {rolls}"
              f" (int(objective)={int(r.objective)})")
        bad = 1
sys.exit(bad)
