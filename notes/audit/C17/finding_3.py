"""C17 finding 3: solve_cg in custom-pricing mode crashes with OverflowError when the initial columns
cannot cover the demands (the explicit column set can). solve_bp on the same input says INFEASIBLE."""
import sys, os
sys.path.insert(0, os.getcwd())
sys.path.insert(1, os.path.dirname(os.path.dirname(os.path.abspath(__file__))))
import solvor; print("solvor imported from", solvor.__file__)
from solvor import solve_cg, solve_bp

S = [(2, 0), (0, 4), (0, 0)]          # explicit column set; optimum: 1x(2,0) + 1x(0,4) = 2
demands = [2, 3]
init = [(0, 4), (0, 0)]               # initial columns alone cannot cover row 0

def pricing(duals):
    best, bv = None, -1e-9
    for c in S:
        rc = 1 - sum(a * b for a, b in zip(duals, c))
        if rc < bv:
            best, bv = c, rc
    return (best, bv) if best is not None else (None, 0.0)

bad = 0
print(f"demands={demands} column set={S} initial_columns={init}")
try:
    r = solve_cg(demands, pricing_fn=pricing, initial_columns=init)
    print("solve_cg ->", r.status.name, r.objective, r.solution)
except OverflowError as e:
    print("solve_cg -> VIOLATION: unexpected exception OverflowError:", e)
    bad = 1
r = solve_bp(demands, pricing_fn=pricing, initial_columns=init)
print("solve_bp ->", r.status.name, r.objective, r.solution, "(instance is feasible with 2 columns: (2,0)+(0,4))")
sys.exit(bad)
