"""C17 finding 4 (arguable: eps=0 is an accepted tolerance value): solve_cg(eps=0.0) labels a
non-minimal plan OPTIMAL on a tiny instance."""
import sys, os
sys.path.insert(0, os.getcwd())
sys.path.insert(1, os.path.dirname(os.path.dirname(os.path.abspath(__file__))))
import solvor; print("solvor imported from", solvor.__file__)
from solvor import solve_cg
from solvor.types import Status

W, sizes, demands = 3, [1, 2], [7, 7]
# each roll holds at most one piece of size 2 -> >=7 rolls; 7 x (1,1) covers both demands: minimum = 7
r = solve_cg(demands, roll_width=W, piece_sizes=sizes, eps=0.0)
rolls = sum(r.solution.values())
print(f"roll_width={W} piece_sizes={sizes} demands={demands} eps=0.0 -> status={r.status.name} "
      f"objective={r.objective} plan={r.solution}; true minimum = 7 via {{(1,1): 7}}")
if r.status == Status.OPTIMAL and rolls > 7:
    print("VIOLATION: OPTIMAL claimed for", rolls, "rolls, minimum is 7")
    sys.exit(1)
sys.exit(0)
