"""C18 finding 1: solve_job_shop crashes (MemoryError) / needs O(max machine index) memory
for a valid job list whose machine indices are large.  The property quantifies over
"any machine indices"."""
import os, sys, signal
sys.path.insert(0, os.getcwd())
try:
    import resource
    lim = 2 * 2**30
    resource.setrlimit(resource.RLIMIT_AS, (lim, lim))  # safety net only
except Exception:
    pass
from solvor import solve_job_shop

def handler(*a):
    raise TimeoutError("timeout")
signal.signal(signal.SIGALRM, handler)

bad = 0
for idx in (2**60, 10**12):
    jobs = [[(idx, 3), (0, 2)], [(0, 1), (idx, 4)]]
    print("input jobs =", jobs)
    signal.alarm(60)
    try:
        r = solve_job_shop(jobs, seed=0)
        signal.alarm(0)
        print("  returned", r.solution, r.objective, "(no violation for this index)")
    except BaseException as ex:  # noqa
        signal.alarm(0)
        bad += 1
        print("  raised %s: %s" % (type(ex).__name__, ex))
        print("  -> a 2-job/4-operation instance with non-negative integer machine indices is a valid input;")
        print("     the statement promises a schedule, the code allocates [0] * (max_index + 1) and crashes.")
sys.exit(1 if bad else 0)
