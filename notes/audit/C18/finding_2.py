"""C18 finding 2: solve_job_shop objective != latest end time when the makespan is an
integer that is not exactly representable as a float (>= 2**53): objective = float(makespan)."""
import os, sys
sys.path.insert(0, os.getcwd())
from solvor import solve_job_shop

bad = 0
for jobs in ([[(0, 2**53 + 1)]], [[(0, 2**53), (1, 1)], [(1, 3)]], [[(0, 10**17 + 1)], [(0, 2)]]):
    r = solve_job_shop(jobs, seed=0)
    latest = max(e for _, e in r.solution.values())
    print("jobs =", jobs)
    print("  schedule =", r.solution)
    print("  objective = %r   latest end = %r   equal: %s" % (r.objective, latest, r.objective == latest))
    if r.objective != latest:
        bad += 1
        print("  -> objective is off by", latest - int(r.objective), "from the latest end time of the returned schedule")
sys.exit(1 if bad else 0)
