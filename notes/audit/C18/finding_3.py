"""C18 finding 3: solve_vrptw uses Customer.id as a list index into [depot] + customers.
The docs only require a "Unique customer ID".  With unique ids that are not exactly
1..n in list order, customers are lost, mixed up, or the call crashes."""
import os, sys, signal
from math import hypot
sys.path.insert(0, os.getcwd())
from solvor.vrp import Customer, solve_vrptw

def handler(*a):
    raise TimeoutError("timeout")
signal.signal(signal.SIGALRM, handler)
bad = 0

def run(title, customers, **kw):
    print("==", title)
    print("   customers =", customers)
    signal.alarm(60)
    try:
        r = solve_vrptw(customers, 1, seed=0, max_iter=50, **kw)
        signal.alarm(0)
        return r
    except BaseException as ex:  # noqa
        signal.alarm(0)
        print("   raised %s: %s" % (type(ex).__name__, ex))
        return ex

# (a) zero-based ids: customer id 1 is lost (neither routed nor unassigned), objective claims all served
cs = [Customer(0, 1, 0), Customer(1, 5, 5)]
r = run("(a) ids 0,1", cs)
if not isinstance(r, BaseException):
    s = r.solution
    print("   routes", s.routes, "arrival", s.arrival_times, "unassigned", s.unassigned, "objective", r.objective)
    # the only visit has arrival 1.0 = distance depot->(1,0): that is the customer with id 0.
    visited_xy = {(round(s.customers[c].x, 9), round(s.customers[c].y, 9)) for rt in s.routes for c in rt}
    lost = [c for c in cs if (c.x, c.y) not in visited_xy]
    if lost and not s.unassigned:
        bad += 1
        print("   -> LOST: location(s)", [(c.id, c.x, c.y) for c in lost], "are on no route and 'unassigned' is empty;")
        print("      objective %.3f contains no unassigned penalty." % r.objective)

# (b) unique ids with a gap: crash
r = run("(b) ids 10,20", [Customer(10, 1, 0), Customer(20, 5, 5)])
if isinstance(r, BaseException):
    bad += 1
    print("   -> crash on a valid customer set with unique ids")

# (c) ids in a different order than the list: route entry k is served with the data of the k-th list element
cs = [Customer(2, 1, 0), Customer(1, 5, 5)]
r = run("(c) ids 2,1", cs)
if not isinstance(r, BaseException):
    s = r.solution
    byid = {c.id: c for c in cs}
    rt, arr = s.routes[0], s.arrival_times[0]
    print("   routes", s.routes, "arrival", s.arrival_times, "objective", r.objective)
    first = rt[0]
    expect = hypot(byid[first].x, byid[first].y)
    if abs(arr[0] - expect) > 1e-9:
        bad += 1
        print("   -> first stop is customer id %d at (%s,%s): travel from depot = %.4f, reported arrival = %.4f"
              % (first, byid[first].x, byid[first].y, expect, arr[0]))
        print("      arrival times are not consistent with travel for the customers the ids denote")

# (d) duplicate id (for completeness; violates 'unique'): second customer silently dropped
cs = [Customer(1, 1, 0), Customer(1, 5, 5)]
r = run("(d) ids 1,1 (not unique - informational)", cs)
if not isinstance(r, BaseException):
    print("   routes", r.solution.routes, "unassigned", r.solution.unassigned, "objective", r.objective)

sys.exit(1 if bad else 0)
