"""C18 finding 4: a customer with required_vehicles <= 0 is silently dropped from the state
by sync_aware_insertion (it is neither 'single' (==1) nor 'multi' (>1)) - lost customer,
no penalty in the objective.  Needs at least one other customer with required_vehicles > 1
so that the sync operators are enabled."""
import os, sys
sys.path.insert(0, os.getcwd())
from random import Random
from solvor.vrp import Customer, Vehicle, VRPState, solve_vrptw, sync_aware_insertion, vrp_objective

bad = 0
cs = [Customer(1, 1, 0, required_vehicles=0), Customer(2, 5, 5, required_vehicles=2)]
for seed in range(5):
    r = solve_vrptw(cs, 2, seed=seed, max_iter=100)
    s = r.solution
    on = {c for rt in s.routes for c in rt}
    lost = [c.id for c in cs if c.id not in on and c.id not in s.unassigned]
    print("seed", seed, "routes", s.routes, "unassigned", s.unassigned, "objective", r.objective, "lost", lost)
    if lost:
        bad += 1
# operator level
st = VRPState.from_problem([Customer(0, 0, 0)] + cs, [Vehicle(0), Vehicle(1)])
out = sync_aware_insertion(st, Random(0))
on = {c for rt in out.routes for c in rt}
print("operator: before unassigned", st.unassigned, "-> after routes", out.routes, "unassigned", out.unassigned,
      "objective", vrp_objective(out))
if 1 not in on and 1 not in out.unassigned:
    bad += 1
    print("-> customer 1 is on no route and not in 'unassigned': lost by sync_aware_insertion")
sys.exit(1 if bad else 0)
