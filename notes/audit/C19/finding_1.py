"""C19 finding 1: lns() with a user acceptance rule can return a result that is WORSE than a
candidate it evaluated (the best-so-far is only updated for accepted candidates)."""
import os, sys
sys.path.insert(0, os.getcwd())
from solvor import lns

cost = {"s": 10.0, "a": 9.5, "b": 12.0}
log = []

def objective(sol):
    log.append((sol, cost[sol]))
    return cost[sol]

def destroy(sol, rng):
    return sol

def repair(partial, rng):
    return {"s": "a", "a": "b", "b": "a"}[partial]

def accept(current_obj, new_obj, iteration, rng):
    # threshold acceptance: move only when the improvement is at least 1.0
    return new_obj <= current_obj - 1.0

res = lns("s", objective, destroy, repair, accept=accept, max_iter=10, seed=0)
best_seen = min(v for _, v in log)
print("input: lns('s', objective, destroy, repair, accept=<improve by >= 1.0>, max_iter=10, seed=0)")
print("evaluated candidates:", log)
print("returned:", res.solution, res.objective, "evaluations", res.evaluations)
print("best evaluated objective:", best_seen)
bad = res.objective > best_seen
# second variant: an acceptance rule that never accepts
log2 = []
vals = [5, 1, 9]
def obj2(s):
    log2.append((s, vals[s])); return vals[s]
res2 = lns(0, obj2, lambda s, r: s, lambda s, r: (s + 1) % 3, accept=lambda c, n, i, r: False, max_iter=5, seed=0)
print("variant accept=never: returned", res2.solution, res2.objective, "evaluated", log2)
bad = bad or res2.objective > min(v for _, v in log2)
if bad:
    print("VIOLATION: returned objective is worse than a candidate the solver evaluated "
          "(statement: 'at least as good as ... every candidate the solver evaluated', quantified over acceptance rules)")
    sys.exit(1)
print("no violation")
sys.exit(0)
