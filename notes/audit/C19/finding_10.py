"""C19 finding 10: alns(segment_size=0) raises ZeroDivisionError (iteration % segment_size)."""
import os, sys, signal
sys.path.insert(0, os.getcwd())
from solvor import alns

def _timeout(*a):
    raise TimeoutError("hang")
signal.signal(signal.SIGALRM, _timeout)

vals = [5, 1, 9]
DESC = "alns(0, lambda s: vals[s], [lambda s, r: s], [lambda s, r: (s+1)%3], segment_size=0, max_iter=5, seed=0)"
WHY = "segment_size=0 (never adapt weights) crashes on the first iteration"
def run():
    return alns(0, lambda s: vals[s], [lambda s, r: s], [lambda s, r: (s + 1) % 3], segment_size=0, max_iter=5, seed=0)

print("input:", DESC)
signal.alarm(120)
try:
    res = run()
except Exception as e:  # noqa
    print("raised:", type(e).__name__, "-", e)
    print("VIOLATION:", WHY)
    sys.exit(1)
finally:
    signal.alarm(0)
print("returned:", res.solution, res.objective, res.status.name)
print("no violation (call completed)")
sys.exit(0)
