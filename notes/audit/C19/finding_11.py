"""C19 finding 11: bayesian_opt(n_initial=0) raises ValueError (min() of empty range) instead of starting from the GP prior / a random point."""
import os, sys, signal
sys.path.insert(0, os.getcwd())
from solvor import bayesian_opt

def _timeout(*a):
    raise TimeoutError("hang")
signal.signal(signal.SIGALRM, _timeout)

DESC = "bayesian_opt(lambda x: (x[0]-1)**2, [(-5.0, 5.0)], n_initial=0, max_iter=5, seed=0)"
WHY = "n_initial=0 is a zero value of a budget option; gp_predict even has an n==0 branch, but the best-of-initial lookup crashes first"
def run():
    return bayesian_opt(lambda x: (x[0] - 1) ** 2, [(-5.0, 5.0)], n_initial=0, max_iter=5, seed=0)

print("input:", DESC)
signal.alarm(120)
try:
    res = run()
except Exception as e:  # noqa
    print("raised:", type(e).__name__, "-", e)
    print("VIOLATION:", WHY)
    sys.exit(1)
finally:
    signal.alarm(0)
print("returned:", res.solution, res.objective, res.status.name)
print("no violation (call completed)")
sys.exit(0)
