"""C19 finding 12: lbfgs(m=0, objective_fn=...) raises IndexError (pop from empty history)."""
import os, sys, signal
sys.path.insert(0, os.getcwd())
from solvor import lbfgs

def _timeout(*a):
    raise TimeoutError("hang")
signal.signal(signal.SIGALRM, _timeout)

DESC = "lbfgs(lambda x: [2*x[0]], [1.0], objective_fn=lambda x: x[0]**2, m=0)"
WHY = "m=0 (no stored correction pairs = steepest descent) crashes at the first positive-curvature step"
def run():
    return lbfgs(lambda x: [2 * x[0]], [1.0], objective_fn=lambda x: x[0] ** 2, m=0)

print("input:", DESC)
signal.alarm(120)
try:
    res = run()
except Exception as e:  # noqa
    print("raised:", type(e).__name__, "-", e)
    print("VIOLATION:", WHY)
    sys.exit(1)
finally:
    signal.alarm(0)
print("returned:", res.solution, res.objective, res.status.name)
print("no violation (call completed)")
sys.exit(0)
