"""C19 finding 13: evolve(tournament_k=0) raises ValueError (min of empty sample); evolve with an empty population raises IndexError."""
import os, sys, signal
sys.path.insert(0, os.getcwd())
from solvor import evolve

def _timeout(*a):
    raise TimeoutError("hang")
signal.signal(signal.SIGALRM, _timeout)

vals = [5, 1, 9]
DESC = "evolve(lambda s: vals[s], [0, 1, 2], lambda a, b: a, lambda a: a, tournament_k=0, max_iter=2, seed=0)"
WHY = "tournament_k=0 is a zero value of a public option; uncontrolled ValueError from min([])"
def run():
    return evolve(lambda s: vals[s], [0, 1, 2], lambda a, b: a, lambda a: a, tournament_k=0, max_iter=2, seed=0)

print("input:", DESC)
signal.alarm(120)
try:
    res = run()
except Exception as e:  # noqa
    print("raised:", type(e).__name__, "-", e)
    print("VIOLATION:", WHY)
    sys.exit(1)
finally:
    signal.alarm(0)
print("returned:", res.solution, res.objective, res.status.name)
print("no violation (call completed)")
sys.exit(0)
