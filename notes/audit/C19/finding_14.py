"""C19 finding 14: differential_evolution with very wide bounds raises OverflowError in the convergence test ((v-mean)**2)."""
import os, sys, signal
sys.path.insert(0, os.getcwd())
from solvor import differential_evolution

def _timeout(*a):
    raise TimeoutError("hang")
signal.signal(signal.SIGALRM, _timeout)

DESC = "differential_evolution(lambda x: abs(x[0]), [(-1e200, 1e200)], max_iter=3, seed=0)"
WHY = "bounds are finite floats and particle_swarm handles them; _population_converged uses float ** 2 which raises instead of giving inf"
def run():
    return differential_evolution(lambda x: abs(x[0]), [(-1e200, 1e200)], max_iter=3, seed=0)

print("input:", DESC)
signal.alarm(120)
try:
    res = run()
except Exception as e:  # noqa
    print("raised:", type(e).__name__, "-", e)
    print("VIOLATION:", WHY)
    sys.exit(1)
finally:
    signal.alarm(0)
print("returned:", res.solution, res.objective, res.status.name)
print("no violation (call completed)")
sys.exit(0)
