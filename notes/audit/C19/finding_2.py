"""C19 finding 2: differential_evolution / particle_swarm silently drop user start points beyond
population_size / n_particles, so the result can be worse than a start point the user supplied."""
import os, sys
sys.path.insert(0, os.getcwd())
from solvor import differential_evolution, particle_swarm

def f(x):
    # needle at the warm-start point, smooth bowl elsewhere
    return -1.0 if list(x) == [3.0] else (x[0] + 4.0) ** 2

bounds = [(-5.0, 5.0)]
bad = False

starts = [[-4.0 + 0.01 * i] for i in range(15)] + [[3.0]]   # 16 start points, default population_size=15
r = differential_evolution(f, bounds, initial_population=starts, seed=0)
best_start = min(f(s) for s in starts)
print("DE : 16 start points (all inside bounds), default population_size=15, seed=0")
print("     returned", r.solution, r.objective, "| best start point [3.0] has f =", best_start)
if r.objective > best_start:
    bad = True

starts = [[-4.0 + 0.01 * i] for i in range(30)] + [[3.0]]   # 31 start points, default n_particles=30
r = particle_swarm(f, bounds, initial_positions=starts, seed=0, max_iter=50)
best_start = min(f(s) for s in starts)
print("PSO: 31 start points (all inside bounds), default n_particles=30, seed=0")
print("     returned", r.solution, r.objective, "| best start point [3.0] has f =", best_start)
if r.objective > best_start:
    bad = True

if bad:
    print("VIOLATION: result is worse than one of the starting points (statement: 'at least as good as the starting point(s)'); "
          "the extra start points are never evaluated")
    sys.exit(1)
print("no violation")
sys.exit(0)
