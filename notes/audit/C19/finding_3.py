"""C19 finding 3: powell(bounds=...) returns points far outside the bounds (and evaluates the
objective outside them). The reported objective is faithful, the bounds are not respected."""
import os, sys
sys.path.insert(0, os.getcwd())
from solvor import powell

bad = False
cases = [
    ("f(x)=x0, x0=[0.0], bounds=[(-1,1)], minimize", lambda x: x[0], [0.0], [(-1, 1)], True),
    ("f(x)=x0, x0=[0.0], bounds=[(-1,1)], maximize", lambda x: x[0], [0.0], [(-1, 1)], False),
    ("f(x)=(x0-3)^2, x0=[0.0], bounds=[(-1,1)], minimize", lambda x: (x[0] - 3) ** 2, [0.0], [(-1, 1)], True),
]
for name, f, x0, b, mn in cases:
    seen_out = []
    def g(x, f=f):
        if not all(lo <= xi <= hi for xi, (lo, hi) in zip(x, b)):
            seen_out.append(list(x))
        return f(x)
    r = powell(g, x0, bounds=b, minimize=mn)
    inside = all(lo <= xi <= hi for xi, (lo, hi) in zip(r.solution, b))
    print(name)
    print("   returned", r.solution, "objective", r.objective, "f(solution)", f(r.solution),
          "| inside bounds:", inside, "| objective calls outside bounds:", len(seen_out))
    if not inside:
        bad = True
if bad:
    print("VIOLATION: a bounded solver returned a point outside its bounds "
          "(bracket found by _bracket_minimum slides outside [alpha_min, alpha_max]; clamping then gives a > c "
          "and golden section returns (a+c)/2 outside the range)")
    sys.exit(1)
print("no violation")
sys.exit(0)
