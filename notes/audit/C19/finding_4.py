"""C19 finding 4: tabu_search uses `best_neighbor is None` as 'no admissible neighbour' sentinel.
If None is itself a solution value, the search stops and an evaluated, strictly better candidate is lost."""
import os, sys
sys.path.insert(0, os.getcwd())
from solvor import tabu_search

cost = {None: 0, "a": 5, "b": 3}     # None = 'no facility', a legitimate label
log = []
def objective(s):
    log.append((s, cost[s])); return cost[s]
def neighbors(s):
    return [("drop", None), ("swap", "b")]

r = tabu_search("a", objective, neighbors, max_iter=5, seed=0)
print("input: tabu_search('a', cost.get, neighbors -> [('drop', None), ('swap', 'b')], max_iter=5, seed=0)")
print("evaluated:", log)
print("returned:", r.solution, r.objective, "iterations", r.iterations)
if r.objective > min(v for _, v in log):
    print("VIOLATION: returned objective 5 is worse than evaluated candidates None (0) and 'b' (3)")
    sys.exit(1)
print("no violation")
sys.exit(0)
