"""C19 finding 5: with integer bounds >= 2**53 the random initial points of differential_evolution,
particle_swarm and bayesian_opt (rng.uniform(lo, hi), never clipped) fall below the lower bound."""
import os, sys
sys.path.insert(0, os.getcwd())
from solvor import differential_evolution, particle_swarm, bayesian_opt

B = 2 ** 53
bounds = [(B + 1, B + 3)]
f = lambda x: x[0]
bad = False
for name, run in [
    ("differential_evolution", lambda: differential_evolution(f, bounds, max_iter=3, seed=0)),
    ("particle_swarm", lambda: particle_swarm(f, bounds, max_iter=3, seed=0)),
    ("bayesian_opt", lambda: bayesian_opt(f, bounds, max_iter=6, seed=0)),
]:
    r = run()
    lo, hi = bounds[0]
    inside = lo <= r.solution[0] <= hi
    print(f"{name}: bounds [(2**53+1, 2**53+3)] -> solution {r.solution!r}, lo - x = {lo - int(r.solution[0])}, inside: {inside}")
    if not inside:
        bad = True
if bad:
    print("VIOLATION: returned point is below the lower bound (x = 2**53 < lo = 2**53+1)")
    sys.exit(1)
print("no violation")
sys.exit(0)
