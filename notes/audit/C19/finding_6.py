"""C19 finding 6: anneal(min_temp=0) divides by a temperature that has underflowed to 0.0 -> ZeroDivisionError."""
import os, sys, signal
sys.path.insert(0, os.getcwd())
from solvor import anneal

def _timeout(*a):
    raise TimeoutError("hang")
signal.signal(signal.SIGALRM, _timeout)

vals = [5, 1, 9]
DESC = "anneal(0, lambda s: vals[s], lambda s: (s+1)%3, cooling=0.99, min_temp=0, seed=0)  [default max_iter=100000]"
WHY = "valid options (min_temp=0 = never stop on temperature); 1000*0.99**iteration underflows to 0.0 after ~75k iterations, exp(-delta/0.0) crashes instead of returning the best point"
def run():
    return anneal(0, lambda s: vals[s], lambda s: (s + 1) % 3, cooling=0.99, min_temp=0, seed=0)

print("input:", DESC)
signal.alarm(120)
try:
    res = run()
except Exception as e:  # noqa
    print("raised:", type(e).__name__, "-", e)
    print("VIOLATION:", WHY)
    sys.exit(1)
finally:
    signal.alarm(0)
print("returned:", res.solution, res.objective, res.status.name)
print("no violation (call completed)")
sys.exit(0)
