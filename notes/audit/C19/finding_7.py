"""C19 finding 7: tabu_search(cooldown=0) raises IndexError (tabu_list[0] on an empty deque(maxlen=0))."""
import os, sys, signal
sys.path.insert(0, os.getcwd())
from solvor import tabu_search

def _timeout(*a):
    raise TimeoutError("hang")
signal.signal(signal.SIGALRM, _timeout)

vals = [5, 1, 9]
DESC = "tabu_search(0, lambda s: vals[s], lambda s: [(1, (s+1)%3)], cooldown=0, seed=0)"
WHY = "cooldown=0 (no tabu memory, plain steepest descent) is a legal value of the limit; the call crashes after the first move instead of returning the best evaluated point"
def run():
    return tabu_search(0, lambda s: vals[s], lambda s: [(1, (s + 1) % 3)], cooldown=0, seed=0)

print("input:", DESC)
signal.alarm(120)
try:
    res = run()
except Exception as e:  # noqa
    print("raised:", type(e).__name__, "-", e)
    print("VIOLATION:", WHY)
    sys.exit(1)
finally:
    signal.alarm(0)
print("returned:", res.solution, res.objective, res.status.name)
print("no violation (call completed)")
sys.exit(0)
