"""C19 finding 8: bayesian_opt crashes with ZeroDivisionError when a dimension has lo == hi (length scale 0)."""
import os, sys, signal
sys.path.insert(0, os.getcwd())
from solvor import bayesian_opt

def _timeout(*a):
    raise TimeoutError("hang")
signal.signal(signal.SIGALRM, _timeout)

DESC = "bayesian_opt(lambda x: (x[0]-1)**2 + x[1], [(-5.0, 5.0), (1.5, 1.5)], max_iter=8, seed=0)"
WHY = "degenerate (fixed) dimension is a valid bound, differential_evolution/particle_swarm accept it; bayesian_opt divides by length_scale=(hi-lo)/2=0"
def run():
    return bayesian_opt(lambda x: (x[0] - 1) ** 2 + x[1], [(-5.0, 5.0), (1.5, 1.5)], max_iter=8, seed=0)

print("input:", DESC)
signal.alarm(120)
try:
    res = run()
except Exception as e:  # noqa
    print("raised:", type(e).__name__, "-", e)
    print("VIOLATION:", WHY)
    sys.exit(1)
finally:
    signal.alarm(0)
print("returned:", res.solution, res.objective, res.status.name)
print("no violation (call completed)")
sys.exit(0)
