"""C19 finding 9: differential_evolution with accepted strategy rand/2 (or best/2, best/3) and a small population raises IndexError in the rand/1 fallback."""
import os, sys, signal
sys.path.insert(0, os.getcwd())
from solvor import differential_evolution

def _timeout(*a):
    raise TimeoutError("hang")
signal.signal(signal.SIGALRM, _timeout)

DESC = "differential_evolution(lambda x: x[0]**2, [(-5.0, 5.0)], strategy=\"rand/2\", population_size=5, max_iter=3, seed=0)"
WHY = "strategy string is accepted by _parse_strategy; the fallback samples 2 indices but the loop still reads 2*num_diffs of them"
def run():
    return differential_evolution(lambda x: x[0] ** 2, [(-5.0, 5.0)], strategy="rand/2", population_size=5, max_iter=3, seed=0)

print("input:", DESC)
signal.alarm(120)
try:
    res = run()
except Exception as e:  # noqa
    print("raised:", type(e).__name__, "-", e)
    print("VIOLATION:", WHY)
    sys.exit(1)
finally:
    signal.alarm(0)
print("returned:", res.solution, res.objective, res.status.name)
print("no violation (call completed)")
sys.exit(0)
