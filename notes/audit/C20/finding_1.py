"""C20 finding 1: FenwickTree coerces exact numerics (int >= 2**53, Fraction) to float.

prefix() starts from total = 0.0 and FenwickTree(n) starts from [0.0]*n, so exact
Python ints are silently rounded to binary64 (wrong answer) or raise OverflowError
(crash) although a plain array that received the same values answers exactly.
"""
import sys
sys.path.insert(0, ".")
from fractions import Fraction
from solvor.utils import FenwickTree

bad = []

def case(label, build, query, expected):
    try:
        got = query(build())
    except Exception as e:  # crash on a valid input
        got = f"EXC {type(e).__name__}: {e}"
    ok = (not isinstance(got, str)) and got == expected
    print(f"{label}\n   returned {got!r}\n   plain array gives {expected!r}   {'ok' if ok else 'MISMATCH'}")
    if not ok:
        bad.append(label)

# a) one element, value 2**53+1
case("FenwickTree([2**53+1]).prefix(0)", lambda: FenwickTree([2**53 + 1]), lambda f: f.prefix(0), 2**53 + 1)
# b) two exactly-representable ints whose sum is not
case("FenwickTree([2**60, 1]).prefix(1)", lambda: FenwickTree([2**60, 1]), lambda f: f.prefix(1), 2**60 + 1)
# c) every value AND the true answer are below 2**53; only an internal node is not
vals = [2**52 + 1, 2**52, -(2**52)]
case(f"FenwickTree({vals}).prefix(2)", lambda: FenwickTree(vals), lambda f: f.prefix(2), sum(vals))
# d) size constructor + int update
def b():
    f = FenwickTree(2); f.update(0, 2**53 + 1); return f
case("FenwickTree(2); update(0, 2**53+1); range_sum(0,0)", b, lambda f: f.range_sum(0, 0), 2**53 + 1)
# e) crash: int beyond float range; the queried cell is a harmless 1
case("FenwickTree([10**400, 1]).range_sum(1,1)", lambda: FenwickTree([10**400, 1]), lambda f: f.range_sum(1, 1), 1)
# f) Fraction-like values
case("FenwickTree([Fraction(1,3)]).prefix(0)", lambda: FenwickTree([Fraction(1, 3)]), lambda f: f.prefix(0), Fraction(1, 3))

if bad:
    print(f"\nVIOLATION: {len(bad)} queries differ from the plain-array model")
    sys.exit(1)
print("\nno violation")
sys.exit(0)
