"""C20 finding 2: a large update that is later undone permanently destroys OTHER cells.

Array model: a = [0.0, 1.0]; a[0] += 1e16; a[0] -= 1e16  ->  a == [0.0, 1.0] exactly
(every stored value is exactly representable, no summation order matters for the
final state).  The Fenwick node covering indices 0..1 absorbed 1.0 into 1e16, so
afterwards cell 1 reads 0.0 for ever: absolute error 1.0, relative error 100 %.
"""
import sys
sys.path.insert(0, ".")
from solvor.utils import FenwickTree

bad = 0
for label, make in [
    ("FenwickTree([0.0, 1.0])", lambda: FenwickTree([0.0, 1.0])),
    ("FenwickTree(2); update(1, 1.0)", lambda: (lambda f: (f.update(1, 1.0), f)[1])(FenwickTree(2))),
]:
    ft = make()
    arr = [0.0, 1.0]
    before = (ft.prefix(1), ft.range_sum(1, 1))
    ft.update(0, 1e16); arr[0] += 1e16
    ft.update(0, -1e16); arr[0] += -1e16
    got = (ft.prefix(1), ft.range_sum(1, 1), ft.range_sum(0, 0))
    exp = (sum(arr[:2]), sum(arr[1:2]), sum(arr[0:1]))
    print(f"{label}; update(0, 1e16); update(0, -1e16)")
    print(f"   before the two updates (prefix(1), range_sum(1,1)) = {before}")
    print(f"   plain array is now {arr}")
    print(f"   (prefix(1), range_sum(1,1), range_sum(0,0)) returned {got}, plain array gives {exp}")
    if got != exp:
        bad += 1
if bad:
    print("\nVIOLATION: cell 1 was never updated, the array holds 1.0 there, the tree answers 0.0")
    sys.exit(1)
print("\nno violation")
sys.exit(0)
