"""C20 finding 3: finite values, finite true answer, FenwickTree answers inf / nan.

Internal nodes store sums of blocks and range_sum is prefix(right) - prefix(left-1);
either can overflow although the queried range itself is small.
"""
import sys, math
sys.path.insert(0, ".")
from solvor.utils import FenwickTree

bad = 0
def case(label, ft, l, r, arr):
    global bad
    got = ft.range_sum(l, r); exp = sum(arr[l:r + 1])
    flag = got != exp
    print(f"{label}: range_sum({l},{r}) returned {got!r}, plain array {arr} gives {exp!r}  {'MISMATCH' if flag else 'ok'}")
    bad += flag

case("FenwickTree([1e308, 1e308])", FenwickTree([1e308, 1e308]), 1, 1, [1e308, 1e308])
case("FenwickTree([1e308, 1e308, 5.0])", FenwickTree([1e308, 1e308, 5.0]), 1, 2, [1e308, 1e308, 5.0])
# overflow that is undone: the array is all small again, the tree stays poisoned
ft = FenwickTree([1e308, 1e308, 5.0, 7.0]); arr = [1e308, 1e308, 5.0, 7.0]
ft.update(0, -1e308); arr[0] += -1e308
ft.update(1, -1e308); arr[1] += -1e308
case("FenwickTree([1e308,1e308,5.0,7.0]); update(0,-1e308); update(1,-1e308)", ft, 0, 3, arr)
got = ft.prefix(3); exp = sum(arr)
print(f"   prefix(3) returned {got!r}, plain array gives {exp!r}")
bad += (got != exp) and not (math.isnan(got) and math.isnan(exp))
if bad:
    print("\nVIOLATION: inf/nan returned where the plain array gives a finite exact value")
    sys.exit(1)
print("\nno violation")
sys.exit(0)
