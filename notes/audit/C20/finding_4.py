"""C20 finding 4: range_sum(left, right) with left > right + 1 (both indices in range).

The inclusive range left..right is empty, a plain array gives sum(a[left:right+1]) == 0;
FenwickTree returns MINUS the sum of the cells strictly between right and left.
(range_sum(right+1, right) correctly gives 0.)
"""
import sys
sys.path.insert(0, ".")
from solvor.utils import FenwickTree

a = [1, 2, 3, 4]
ft = FenwickTree(a)
bad = 0
for l, r in [(3, 1), (3, 0), (2, 0), (2, 1)]:
    got = ft.range_sum(l, r); exp = sum(a[l:r + 1])
    print(f"FenwickTree({a}).range_sum({l},{r}) returned {got!r}, plain array sum(a[{l}:{r + 1}]) = {exp!r}  {'MISMATCH' if got != exp else 'ok'}")
    bad += got != exp
if bad:
    print("\nVIOLATION (arguable): empty range answered with a negative non-zero sum, no error raised")
    sys.exit(1)
print("\nno violation")
sys.exit(0)
