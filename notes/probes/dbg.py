import sys, collections
from solvor.sat import solve_sat
cnt=collections.Counter()
def tr(frame,event,arg):
    if event=='line' and frame.f_code.co_filename.endswith('sat.py'):
        cnt[frame.f_lineno]+=1
        if sum(cnt.values())>300000:
            raise RuntimeError("fuel")
    return tr
sys.settrace(tr)
try:
    r=solve_sat([[4,3,-1],[3],[3,-1,-5],[-5,1],[-2,-3,-5],[1,4,-2],[4,1,5],[-4,1]],solution_limit=50,luby_factor=2,max_restarts=5)
    print(r.status, len(r.solutions or []))
except RuntimeError as e:
    sys.settrace(None)
    print("fuel exhausted; hottest lines:", cnt.most_common(12))
