"""Exact LP oracle: min c.x s.t. A x <= b, x >= 0 over Fractions, via vertex enumeration (tiny) or Bland simplex."""
from fractions import Fraction as F
from itertools import combinations

def _solve_square(M, rhs):
    n=len(M)
    A=[row[:]+[r] for row,r in zip(M,rhs)]
    for col in range(n):
        piv=None
        for r in range(col,n):
            if A[r][col]!=0: piv=r;break
        if piv is None: return None
        A[col],A[piv]=A[piv],A[col]
        p=A[col][col]
        A[col]=[v/p for v in A[col]]
        for r in range(n):
            if r!=col and A[r][col]!=0:
                f=A[r][col]
                A[r]=[a-f*b for a,b in zip(A[r],A[col])]
    return [A[i][n] for i in range(n)]

def vertices(A,b):
    """all basic feasible solutions of {Ax<=b, x>=0}"""
    m=len(A); n=len(A[0])
    rows=[( [F(v) for v in A[i]], F(b[i])) for i in range(m)]
    for j in range(n):
        e=[F(0)]*n; e[j]=F(-1); rows.append((e,F(0)))
    out=[]
    seen=set()
    for idx in combinations(range(len(rows)),n):
        M=[rows[i][0] for i in idx]; r=[rows[i][1] for i in idx]
        x=_solve_square(M,r)
        if x is None: continue
        t=tuple(x)
        if t in seen: continue
        if all(sum(a*xi for a,xi in zip(row,x))<=rhs for row,rhs in rows):
            seen.add(t); out.append(x)
    return out

def solve_exact(c,A,b,minimize=True):
    """returns ('infeasible',None,None) | ('unbounded',None,None) | ('optimal',x,obj)"""
    n=len(c)
    cc=[F(v) if minimize else -F(v) for v in c]
    V=vertices(A,b)
    if not V: return ('infeasible',None,None)   # pointed polyhedron (x>=0) nonempty => has a vertex
    # unbounded iff exists recession direction d>=0, A d<=0, cc.d<0 ; normalise sum(d)=1 -> polytope, check vertices
    A2=[list(r) for r in A]+[[1]*n,[-1]*n]
    b2=[0]*len(A)+[1,-1]
    R=vertices(A2,b2)
    for d in R:
        if sum(ci*di for ci,di in zip(cc,d))<0: return ('unbounded',None,None)
    best=min(V,key=lambda x:sum(ci*xi for ci,xi in zip(cc,x)))
    obj=sum(F(ci)*xi for ci,xi in zip(c,best))
    return ('optimal',best,obj)
