import sys, time
from solvor.sat import solve_sat, luby
import solvor.sat as S
mon=sys.monitoring
TOOL=3
class Fuel(Exception): pass
class FuelMeter:
    def __init__(self, code_filter, budget):
        self.budget=budget; self.used=0; self.filter=code_filter
    def __enter__(self):
        mon.use_tool_id(TOOL,"fuel")
        def on_line(code, line):
            if not self.filter(code): return mon.DISABLE
            self.used+=1
            if self.used>self.budget:
                raise Fuel(f"{code.co_filename}:{line}")
        # count backward jumps + function starts: cheaper than lines
        def on_jump(code, src, dst):
            if not self.filter(code): return mon.DISABLE
            if dst<src:
                self.used+=1
                if self.used>self.budget: raise Fuel(f"{code.co_qualname}@{dst}")
        mon.register_callback(TOOL, mon.events.JUMP, on_jump)
        mon.register_callback(TOOL, mon.events.BRANCH, on_jump) if False else None
        mon.set_events(TOOL, mon.events.JUMP)
        return self
    def __exit__(self,*a):
        mon.set_events(TOOL,0); mon.free_tool_id(TOOL)
filt=lambda code: 'solvor' in code.co_filename
t=time.time()
try:
    with FuelMeter(filt,200000) as f:
        luby(2)
except Fuel as e: print("fuel exhausted at",e,"in",round(time.time()-t,3),"s")
import random
rng=random.Random(1)
n=40; cl=[[v if rng.random()<.5 else -v for v in rng.sample(range(1,n+1),3)] for _ in range(160)]
t=time.time(); r=solve_sat(cl); t1=time.time()-t
t=time.time()
with FuelMeter(filt,10**9) as f: r2=solve_sat(cl)
t2=time.time()-t
print(r.status,r2.status,"plain",round(t1,4),"metered",round(t2,4),"jumps",f.used)
