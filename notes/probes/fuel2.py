import sys, time
from solvor.sat import luby
mon=sys.monitoring; TOOL=3
class Fuel(Exception): pass
used=0
def run(ev_name):
    global used
    used=0
    mon.use_tool_id(TOOL,"fuel")
    ev=getattr(mon.events,ev_name)
    def cb(code,*a):
        global used
        if 'solvor' not in code.co_filename: return mon.DISABLE
        used+=1
        if used>100000: raise Fuel(ev_name)
    mon.register_callback(TOOL,ev,cb)
    mon.set_events(TOOL,ev)
    t=time.time()
    try:
        luby(2)
    except Fuel as e: print(ev_name,"fuel exhausted",round(time.time()-t,3))
    finally:
        mon.set_events(TOOL,0); mon.register_callback(TOOL,ev,None); mon.free_tool_id(TOOL)
import threading
threading.Timer(20,lambda: (print("watchdog: still hung; used=",used), __import__('os')._exit(3))).start()
run(sys.argv[1])
__import__('os')._exit(0)
