import sys
from solvor.sat import solve_sat
mon=sys.monitoring; TOOL=4
mon.use_tool_id(TOOL,"satmon")
events=[]
pre={}
def on_start(code, off):
    if not code.co_filename.endswith("solvor/sat.py") or code.co_name not in ("unassign_to","analyze"): return mon.DISABLE
    f=sys._getframe(1)
    if code.co_name=="unassign_to":
        loc=f.f_locals
        tl=loc["trail_lim"]; tr=loc["trail"]
        lvl0=list(tr[:tl[0]]) if tl else list(tr)
        pre[id(f)]=(loc["level"],lvl0,len(tl))
def on_return(code, off, retval):
    if not code.co_filename.endswith("solvor/sat.py") or code.co_name not in ("unassign_to","analyze"): return mon.DISABLE
    f=sys._getframe(1)
    if code.co_name=="unassign_to":
        level,lvl0,ntl=pre.pop(id(f))
        loc=f.f_locals
        vals=loc["vals"]
        lost=[v for v in lvl0 if vals[v]==2]
        events.append(("unassign_to",level,ntl,len(loc["trail_lim"]),"LOST_LEVEL0" if lost else "ok",lost))
    else:
        events.append(("analyze",retval))
mon.register_callback(TOOL,mon.events.PY_START,on_start)
mon.register_callback(TOOL,mon.events.PY_RETURN,on_return)
mon.set_events(TOOL,mon.events.PY_START|mon.events.PY_RETURN)
r=solve_sat([[1],[2,3],[-2,-3],[2,-3,4],[-4,3]],solution_limit=10)
mon.set_events(TOOL,0)
print(r.status,r.solutions)
for e in events[:10]: print(e)
