import importlib.util, importlib.machinery, sys, shutil, tempfile, os
d=tempfile.mkdtemp()
dst=os.path.join(d,"_solvor_rust.cpython-312-x86_64-linux-gnu.so")
shutil.copy("/repo/rust/target/release/lib_solvor_rust.so",dst)
loader=importlib.machinery.ExtensionFileLoader("solvor._solvor_rust",dst)
spec=importlib.util.spec_from_file_location("solvor._solvor_rust",dst,loader=loader)
mod=importlib.util.module_from_spec(spec); spec.loader.exec_module(mod)
sys.modules["solvor._solvor_rust"]=mod
import solvor
solvor._solvor_rust=mod
from solvor.rust import get_rust_module, rust_available
print(rust_available(), get_rust_module().__file__)
print(solvor.floyd_warshall(3,[(0,1,1.0),(1,2,2.0)],backend="rust").solution)
# C06 recorder
import solvor.cp_encoder as E
from solvor.cp import Model
from solvor.types import Result, Status
rec={}
def fake(clauses,**kw):
    rec['clauses']=[list(c) for c in clauses]; rec['kw']=kw
    return Result(None,0,0,0,Status.INFEASIBLE)
E.solve_sat=fake
m=Model(); x=m.int_var(0,2,'x'); y=m.int_var(1,3,'y'); m.add(m.sum_le([x,y,x],4))
r=E.SATEncoder(m).solve()
print(r.status, len(rec['clauses']), rec['clauses'][:6], {n:v.bool_vars for n,v in m._vars.items()})
shutil.rmtree(d)
