import random, sys, itertools, importlib, signal
from functools import lru_cache
from collections import defaultdict
from fractions import Fraction as F
from exact_lp import solve_exact
BP=importlib.import_module("solvor.bp")
from solvor.types import Status
orig=BP._solve_bounded_master_lp
st={}
def wrapped(columns,demands,col_bounds,eps):
    r=orig(columns,demands,col_bounds,eps)
    x,du,obj=r
    if obj==float('inf'):
        if col_bounds:
            st['inf_under_bounds']=st.get('inf_under_bounds',0)+1
        else: st['inf_nobounds']=st.get('inf_nobounds',0)+1
    else:
        bad=False
        for i,d in enumerate(demands):
            if sum(c[i]*xi for c,xi in zip(columns,x))<d-1e-6: bad=True
        for idx,(lo,hi) in col_bounds.items():
            if x[idx]<lo-1e-6 or x[idx]>hi+1e-6: bad=True
        if abs(sum(x)-obj)>1e-6: st['obj_mismatch']=st.get('obj_mismatch',0)+1
        if bad: st['infeasible_point']=st.get('infeasible_point',0)+1
    st['calls']=st.get('calls',0)+1
    return r
BP._solve_bounded_master_lp=wrapped
rng=random.Random(int(sys.argv[1])); N=int(sys.argv[2])
tab=defaultdict(int); ex=[]
for it in range(N):
    W=rng.randint(4,12); m=rng.randint(1,4)
    sizes=sorted(set(rng.randint(1,W) for _ in range(m)))
    dem=[rng.randint(0,5) for _ in sizes]
    pats=[p for p in itertools.product(*[range(0,W//s+1) for s in sizes]) if sum(a*s for a,s in zip(p,sizes))<=W and any(p)]
    maxpats=[p for p in pats if not any(all(q[i]>=p[i] for i in range(len(p))) and q!=p for q in pats)]
    @lru_cache(None)
    def opt_rolls(d):
        if not any(d): return 0
        return 1+min(opt_rolls(tuple(max(0,x-a) for x,a in zip(d,p))) for p in maxpats if any(a>0 and x>0 for x,a in zip(d,p)))
    topt=opt_rolls(tuple(dem))
    st.clear()
    r=BP.solve_bp(dem,roll_width=W,piece_sizes=sizes,max_iter=50)
    cls="ok"
    if r.status in (Status.OPTIMAL,Status.FEASIBLE):
        plan=r.solution
        if any(sum(p[i]*c for p,c in plan.items())<dem[i] for i in range(len(dem))): cls="DEMAND_MISSED"
        elif r.objective<topt-1e-9: cls="BELOW_OPT"
        elif r.status==Status.OPTIMAL and r.objective>topt+1e-9: cls="OPTIMAL_NOT_MIN"
    else: cls=r.status.name
    ev=tuple(sorted(k for k in st if k not in('calls',)))
    tab[(cls,ev,"branched" if r.iterations>0 else "root")]+=1
    if cls!="ok" and not ev and len(ex)<3: ex.append((dem,W,sizes,r.status.name,r.objective,topt))
for k,v in sorted(tab.items(),key=str): print(k,v)
print(ex)
