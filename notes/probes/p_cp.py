import random, itertools, sys, signal
from solvor.cp import Model, IntVar, Expr
from solvor.types import Status
class TO(Exception): pass
def handler(s,f): raise TO()
signal.signal(signal.SIGALRM, handler)

# independent semantic evaluator over the constraint tuples
def ev(e, asg):
    if isinstance(e,int): return e
    if isinstance(e,IntVar): return asg[e.name]
    if isinstance(e,Expr): return ev(e.data,asg)
    op=e[0]
    if op=="add": return ev(e[1],asg)+ev(e[2],asg)
    if op=="sub": return ev(e[1],asg)-ev(e[2],asg)
    if op=="rsub": return ev(e[2],asg)-ev(e[1],asg)
    if op=="mul": return ev(e[1],asg)*ev(e[2],asg)
    raise ValueError(op)
def holds(c, asg):
    k=c[0]
    if k=="all_different":
        vs=[asg[v.name] for v in c[1]]; return len(set(vs))==len(vs)
    if k=="eq_const": return asg[c[1].name]==c[2]
    if k=="ne_const": return asg[c[1].name]!=c[2]
    if k=="eq_var": return asg[c[1].name]==asg[c[2].name]
    if k=="ne_var": return asg[c[1].name]!=asg[c[2].name]
    if k=="ne_expr":
        l,r=ev(c[1],asg),ev(c[2],asg); return (l!=r) if c[3] else (l==r)
    if k=="sum_eq": return sum(asg[v.name] for v in c[1])==c[2]
    if k=="sum_le": return sum(asg[v.name] for v in c[1])<=c[2]
    if k=="sum_ge": return sum(asg[v.name] for v in c[1])>=c[2]
    if k=="circuit":
        n=len(c[1]); succ=[asg[v.name] for v in c[1]]
        if sorted(succ)!=list(range(n)): return False
        seen=0;cur=0
        for _ in range(n):
            cur=succ[cur]; seen+=1
            if cur==0: break
        return seen==n
    if k=="no_overlap":
        st=[asg[v.name] for v in c[1]]; du=c[2]
        for i in range(len(st)):
            for j in range(i+1,len(st)):
                if not (st[i]+du[i]<=st[j] or st[j]+du[j]<=st[i]): return False
        return True
    if k=="cumulative":
        st=[asg[v.name] for v in c[1]]; du=c[2]; de=c[3]; cap=c[4]
        if not st: return True
        for t in range(min(st), max(s+d for s,d in zip(st,du))+1):
            if sum(de[i] for i in range(len(st)) if st[i]<=t<st[i]+du[i])>cap: return False
        return True
    raise ValueError(k)

def gen(rng):
    m=Model()
    nv=rng.randint(1,4)
    vs=[]
    for i in range(nv):
        lb=rng.randint(-2,3); ub=lb+rng.randint(0,3)
        vs.append(m.int_var(lb,ub,f"x{i}"))
    desc=[]
    def term():
        v=rng.choice(vs)
        r=rng.random()
        if r<0.6: return v, v.name
        if r<0.8:
            k=rng.choice([2,3,-1,0,1]); 
            return (v*k if rng.random()<0.5 else k*v), f"{k}*{v.name}"
        k=rng.randint(-2,2); return v+k, f"({v.name}+{k})"
    def expr():
        r=rng.random()
        a,da=term()
        if r<0.3: return a,da
        b,db=term()
        if r<0.55: return a+b, f"{da}+{db}"
        if r<0.8:
            try: return a-b, f"{da}-{db}"
            except TypeError: return a+b, f"{da}+{db}"
        k=rng.randint(-3,5)
        if r<0.9: return k+a, f"{k}+{da}"
        try: return k-a, f"{k}-{da}"
        except TypeError: return a+k, f"{da}+{k}"
    nc=rng.randint(1,3)
    for _ in range(nc):
        kind=rng.choice(["lin","lin","lin","alldiff","sum","circuit","no_overlap","cumulative","simple"])
        try:
            if kind=="lin":
                a,da=expr()
                if rng.random()<0.5: b,db=expr()
                else: b=rng.randint(-3,8); db=str(b)
                if rng.random()<0.7: c=(a==b); d=f"{da}=={db}"
                else: c=(a!=b); d=f"{da}!={db}"
                if c is True or c is False or c is NotImplemented: continue
                m.add(c); desc.append(d)
            elif kind=="simple":
                v=rng.choice(vs); w=rng.choice(vs); k=rng.randint(-2,5)
                c=rng.choice([v==k, v!=k, v==w, v!=w]); m.add(c); desc.append(str(c[0]))
            elif kind=="alldiff":
                sub=rng.sample(vs,rng.randint(1,len(vs))); m.add(m.all_different(sub)); desc.append("alldiff"+str([v.name for v in sub]))
            elif kind=="sum":
                sub=[rng.choice(vs) for _ in range(rng.randint(1,4))]; t=rng.randint(-3,8)
                f=rng.choice(["sum_eq","sum_le","sum_ge"]); m.add(getattr(m,f)(sub,t)); desc.append(f"{f}{[v.name for v in sub]},{t}")
            elif kind=="circuit":
                if len(vs)>1: m.add(m.circuit(vs)); desc.append("circuit")
            elif kind=="no_overlap":
                sub=rng.sample(vs,rng.randint(1,len(vs))); du=[rng.randint(0,3) for _ in sub]
                m.add(m.no_overlap(sub,du)); desc.append(f"no_overlap{[v.name for v in sub]},{du}")
            elif kind=="cumulative":
                sub=rng.sample(vs,rng.randint(1,len(vs))); du=[rng.randint(1,3) for _ in sub]; de=[rng.randint(1,3) for _ in sub]; cap=rng.randint(1,4)
                m.add(m.cumulative(sub,du,de,cap)); desc.append(f"cumulative{[v.name for v in sub]},{du},{de},{cap}")
        except Exception as e:
            desc.append("GENERR "+repr(e))
    return m,vs,desc

rng=random.Random(int(sys.argv[1]))
N=int(sys.argv[2])
stats={}; examples={}
def note(k,ex):
    stats[k]=stats.get(k,0)+1
    examples.setdefault(k,[])
    if len(examples[k])<4: examples[k].append(ex)
for it in range(N):
    m,vs,desc=gen(rng)
    cons=list(m._constraints)
    names=[v.name for v in vs]
    doms=[range(v.lb,v.ub+1) for v in vs]
    truth=[dict(zip(names,t)) for t in itertools.product(*doms) if all(holds(c,dict(zip(names,t))) for c in cons)]
    res={}
    for solver in ["auto","dfs","sat"]:
        lim=rng.choice([1,1,3,100])
        signal.alarm(5)
        try:
            r=m.solve(solver=solver,solution_limit=lim); signal.alarm(0)
        except TO: note(f"{solver}:HANG",desc); continue
        except Exception as e:
            signal.alarm(0); note(f"{solver}:EXC:{type(e).__name__}",(desc,str(e))); continue
        res[solver]=r.status
        if r.status==Status.INFEASIBLE:
            if truth: note(f"{solver}:WRONG_INFEASIBLE",(desc,[(v.name,v.lb,v.ub) for v in vs],truth[0]))
            else: note(f"{solver}:ok_inf",None)
        elif r.status==Status.OPTIMAL:
            sols=[r.solution]+list(r.solutions or [])
            bad=[s for s in sols if not (set(s)==set(names) and all(s[n] in d for n,d in zip(names,doms)) and all(holds(c,s) for c in cons))]
            if bad: note(f"{solver}:BAD_SOL",(desc,[(v.name,v.lb,v.ub) for v in vs],bad[0]))
            else: note(f"{solver}:ok_sol",None)
        else: note(f"{solver}:{r.status.name}",desc)
print(stats)
for k,v in sorted(examples.items()):
    if v and v[0] is not None:
        print(k)
        for e in v: print("   ",e)
