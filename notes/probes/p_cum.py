import random, itertools, sys
from solvor.cp import Model
from solvor.types import Status
rng=random.Random(int(sys.argv[1])); bad=0; tot=0; big=0
for it in range(int(sys.argv[2])):
    m=Model(); k=rng.randint(2,5)
    vs=[m.int_var(0,rng.randint(1,3),f"s{i}") for i in range(k)]
    du=[rng.randint(1,4) for _ in vs]; de=[rng.randint(0,3) for _ in vs]; cap=rng.randint(1,5)
    m.add(m.cumulative(vs,du,de,cap))
    doms=[range(v.lb,v.ub+1) for v in vs]
    def ok(st):
        for t in range(0,10):
            if sum(de[i] for i in range(k) if st[i]<=t<st[i]+du[i])>cap: return False
        return True
    truth={t for t in itertools.product(*doms) if ok(t)}
    r=m.solve(solver="sat",solution_limit=10**6)
    got=set() if r.status==Status.INFEASIBLE else {tuple(s[f"s{i}"] for i in range(k)) for s in (r.solutions or [r.solution])}
    tot+=1
    if sum(len(d) for d in doms)>10: big+=1
    if got!=truth: bad+=1
print("bad",bad,"of",tot,"(instances with >10 literals:",big,")")
