import random, sys, itertools, copy
from solvor.dlx import solve_exact_cover
from solvor.types import Status
rng=random.Random(int(sys.argv[1])); N=int(sys.argv[2])
stats={}; examples={}
def note(k,ex):
    stats[k]=stats.get(k,0)+1
    examples.setdefault(k,[])
    if len(examples[k])<4: examples[k].append(ex)
def brute(M,sec):
    nr=len(M); nc=len(M[0]) if M else 0
    prim=[j for j in range(nc) if j not in sec]
    usable=[i for i in range(nr) if any(M[i][j] for j in prim)]
    out=set()
    for k in range(len(usable)+1):
        for S in itertools.combinations(usable,k):
            cnt=[sum(M[i][j] for i in S) for j in range(nc)]
            if all(cnt[j]==1 for j in prim) and all(cnt[j]<=1 for j in sec): out.add(frozenset(S))
    return out
for it in range(N):
    nr=rng.randint(1,7); nc=rng.randint(1,5)
    dens=rng.choice([0.2,0.35,0.5])
    M=[[1 if rng.random()<dens else 0 for _ in range(nc)] for _ in range(nr)]
    if nr and rng.random()<0.3: M.append(list(rng.choice(M)))
    if rng.random()<0.2 and M: M[rng.randrange(len(M))]=[0]*nc
    sec=set(j for j in range(nc) if rng.random()<0.25)
    if rng.random()<0.05: sec=set(range(nc))
    named=rng.random()<0.3
    cols=[f"c{j}" for j in range(nc)] if named else None
    secarg=[(f"c{j}" if named else j) for j in sec] or None
    M0=copy.deepcopy(M)
    truth=brute(M,sec) if M else {frozenset()}
    case=(M,sorted(sec),named)
    try:
        r1=solve_exact_cover(M,columns=cols,secondary=secarg)
        ra=solve_exact_cover(M,columns=cols,secondary=secarg,find_all=True)
        ra2=solve_exact_cover(M,columns=cols,secondary=secarg,find_all=True)
    except Exception as e:
        note("EXC "+type(e).__name__,case+(str(e),)); continue
    if M!=M0: note("MUTATED_INPUT",case)
    if r1.status==Status.INFEASIBLE:
        if truth: note("WRONG_INFEASIBLE",case)
    elif r1.status==Status.OPTIMAL:
        if frozenset(r1.solution) not in truth or len(set(r1.solution))!=len(r1.solution): note("BAD_COVER",case+(r1.solution,))
    else: note("one:"+r1.status.name,case)
    if ra.status==Status.INFEASIBLE:
        if truth: note("ALL_WRONG_INFEASIBLE",case)
    elif ra.status==Status.OPTIMAL:
        got=[frozenset(s) for s in ra.solution]
        if len(set(got))!=len(got): note("ALL_DUP",case)
        if set(got)!=truth: note("ALL_MISMATCH",case+(sorted(map(sorted,got)),sorted(map(sorted,truth))))
        else: note("ok_all",None)
        if ra.solution!=ra2.solution: note("NONDET",case)
    else: note("all:"+ra.status.name,case)
print({k:stats[k] for k in sorted(stats)})
for k,v in sorted(examples.items()):
    if v and v[0] is not None:
        print(k)
        for e in v: print("   ",e)
