import sys, random, importlib
SAT=importlib.import_module("solvor.sat")
import signal
class TO(Exception): pass
def _h(s,f): raise TO()
signal.signal(signal.SIGALRM,_h)
mon=sys.monitoring; TOOL=4
mon.use_tool_id(TOOL,"satmon")
cur={}
def models_of(clauses,n):
    out=[]
    for bits in range(1<<n):
        if all(any(((bits>>(abs(l)-1))&1)==(l>0) for l in c) for c in clauses): out.append(bits)
    return out
def on_return(code, off, retval):
    if not code.co_filename.endswith("solvor/sat.py") or code.co_name!="analyze": return mon.DISABLE
    f=sys._getframe(1)
    outer=f.f_back
    lits=retval[0]
    cur['analyze']=cur.get('analyze',0)+1
    if lits is None: return
    # blocking clauses so far = learned entries not produced by analyze: reconstruct from recorded models
    ms=cur['models']
    for b in cur['blocking']: 
        ms=[m for m in ms if any(((m>>(abs(l)-1))&1)==(l>0) for l in b)]
    bad=[m for m in ms if not any(((m>>(abs(l)-1))&1)==(l>0) for l in lits)]
    if bad: cur.setdefault('unsound',[]).append(list(lits))
mon.register_callback(TOOL,mon.events.PY_RETURN,on_return)
mon.set_events(TOOL,mon.events.PY_RETURN)
rng=random.Random(int(sys.argv[1])); N=int(sys.argv[2])
tot=0; uns=0; an=0; ex=[]
orig=SAT.solve_sat
for it in range(N):
    n=rng.randint(3,10); m=int(n*rng.uniform(2.5,5))
    cl=[[v if rng.random()<.5 else -v for v in rng.sample(range(1,n+1),min(n,rng.choice([2,3,3])))] for _ in range(m)]
    if rng.random()<0.3: cl.append([rng.choice([1,-1])*rng.randint(1,n)])
    nv=max(abs(l) for c in cl for l in c)
    cur.clear(); cur['models']=models_of(cl,nv); cur['blocking']=[]
    lim=rng.choice([1,3,50])
    # blocking clauses: we cannot see them directly here; approximate: after run, recompute using returned solutions in order (sound only if run finishes) -> instead hook model recording via solutions list is not available; so only check limit==1 or treat found models as blocked incrementally by watching 'all_solutions' in outer frame
    def on_ret2(code,off,retval): pass
    try:
        import signal
        signal.alarm(3)
        r=orig(cl,solution_limit=lim,luby_factor=rng.choice([1,2,100]))
        signal.alarm(0)
    except Exception as e:
        signal.alarm(0); continue
    tot+=1; an+=cur.get('analyze',0)
    if cur.get('unsound') and lim==1:
        uns+=1
        if len(ex)<3: ex.append((cl,cur['unsound'][:2]))
print("runs",tot,"analyze calls",an,"runs with unsound learned clause (limit=1 only):",uns); print(ex)
