import random, sys, signal, itertools
from collections import defaultdict, deque
from solvor.flow import max_flow, min_cost_flow, solve_assignment
from solvor.network_simplex import network_simplex
from solvor.hungarian import solve_hungarian
from solvor.types import Status
class TO(Exception): pass
def handler(s,f): raise TO()
signal.signal(signal.SIGALRM, handler)
rng=random.Random(int(sys.argv[1])); N=int(sys.argv[2])
stats={}; examples={}
def note(k,ex):
    stats[k]=stats.get(k,0)+1
    examples.setdefault(k,[])
    if len(examples[k])<3: examples[k].append(ex)

def ref_maxflow(arcs,s,t):
    # arcs: list (u,v,cap). simple EK on arc list with residual
    g=defaultdict(list); E=[]
    for u,v,c in arcs:
        g[u].append(len(E)); E.append([v,c]); g[v].append(len(E)); E.append([u,0])
    total=0
    while True:
        par={s:None}; q=deque([s])
        while q and t not in par:
            u=q.popleft()
            for ei in g[u]:
                v,c=E[ei]
                if c>0 and v not in par: par[v]=ei; q.append(v)
        if t not in par: return total
        f=10**9; v=t
        while par[v] is not None:
            ei=par[v]; f=min(f,E[ei][1]); v=E[ei^1][0]
        v=t
        while par[v] is not None:
            ei=par[v]; E[ei][1]-=f; E[ei^1][1]+=f; v=E[ei^1][0]
        total+=f

def ref_mcf(nodes,arcs,supply):
    """exact min cost flow for node supplies via SSP w/ Bellman-Ford on arc list (handles parallel/antiparallel, neg costs w/o neg cycles). returns None if infeasible else cost"""
    S='__S';T='__T'
    E=[];g=defaultdict(list)
    def add(u,v,c,w):
        g[u].append(len(E)); E.append([v,c,w]); g[v].append(len(E)); E.append([u,0,-w])
    for u,v,c,w in arcs: add(u,v,c,w)
    need=0
    for n_,s_ in supply.items():
        if s_>0: add(S,n_,s_,0); need+=s_
        elif s_<0: add(n_,T,-s_,0)
    allnodes=set(nodes)|{S,T}
    flow=0;cost=0
    while flow<need:
        dist={n_:float('inf') for n_ in allnodes}; dist[S]=0; par={}
        for _ in range(len(allnodes)):
            ch=False
            for u in allnodes:
                if dist[u]==float('inf'): continue
                for ei in g[u]:
                    v,c,w=E[ei]
                    if c>0 and dist[u]+w<dist[v]: dist[v]=dist[u]+w; par[v]=ei; ch=True
            if not ch: break
        if dist[T]==float('inf'): return None
        f=need-flow; v=T
        while v!=S:
            ei=par[v]; f=min(f,E[ei][1]); v=E[ei^1][0]
        v=T
        while v!=S:
            ei=par[v]; E[ei][1]-=f; E[ei^1][1]+=f; cost+=f*E[ei][2]; v=E[ei^1][0]
        flow+=f
    return cost

for it in range(N):
    n=rng.randint(2,6)
    nodes=list(range(n))
    narcs=rng.randint(1,10)
    arcs=[]
    for _ in range(narcs):
        u,v=rng.sample(nodes,2)
        arcs.append((u,v,rng.choice([0,1,1,2,3,4]),rng.choice([0,1,2,3,5])))
    if rng.random()<0.3 and arcs:
        u,v,c,w=rng.choice(arcs); arcs.append((v,u,rng.choice([1,2]),rng.choice([0,1,4])))
    if rng.random()<0.3 and arcs:
        u,v,c,w=rng.choice(arcs); arcs.append((u,v,rng.choice([1,2]),rng.choice([0,1,4])))
    s,t=0,n-1
    graph=defaultdict(list)
    for u,v,c,w in arcs: graph[u].append((v,c,w))
    graph=dict(graph)
    # ---- max flow
    truth=ref_maxflow([(u,v,c) for u,v,c,w in arcs],s,t)
    case=(arcs,s,t)
    signal.alarm(5)
    try:
        r=max_flow(graph,s,t); signal.alarm(0)
        cap=defaultdict(int)
        for u,v,c,w in arcs: cap[(u,v)]+=c
        fl=r.solution
        ok=all(0<=f<=cap[e] for e,f in fl.items())
        net=defaultdict(int)
        for (u,v),f in fl.items(): net[u]-=f; net[v]+=f
        cons=all(net[x]==0 for x in nodes if x not in (s,t))
        if not ok: note("mf:CAP_VIOL",case+(fl,))
        elif not cons: note("mf:CONSERVATION",case+(fl,))
        elif net[t]!=r.objective: note("mf:VALUE_MISMATCH",case+(fl,r.objective))
        elif r.objective!=truth: note("mf:NOT_MAX",case+(r.objective,truth))
        else: note("mf:ok",None)
    except TO: note("mf:HANG",case)
    except Exception as e: signal.alarm(0); note("mf:EXC "+type(e).__name__,case+(str(e),))
    # ---- min cost flow
    demand=rng.randint(0,truth+1)
    sup={x:0 for x in nodes}; sup[s]=demand; sup[t]=-demand
    tc=ref_mcf(nodes,arcs,sup)
    anti=any((v,u) in {(a,b) for a,b,_,_ in arcs} for u,v,_,_ in arcs)
    par=len({(u,v) for u,v,_,_ in arcs})<len(arcs)
    tag=("A" if anti else "")+("P" if par else "")
    case=(arcs,s,t,demand)
    signal.alarm(5)
    try:
        r=min_cost_flow(graph,s,t,demand); signal.alarm(0)
        if r.status==Status.INFEASIBLE:
            if tc is not None: note(f"mcf[{tag}]:WRONG_INFEASIBLE",case)
            else: note("mcf:ok_inf",None)
        else:
            if tc is None: note(f"mcf[{tag}]:FLOW_ON_INFEASIBLE",case)
            elif r.objective!=tc: note(f"mcf[{tag}]:WRONG_COST",case+(r.objective,tc))
            else: note("mcf:ok",None)
    except TO: note(f"mcf[{tag}]:HANG",case)
    except Exception as e: signal.alarm(0); note(f"mcf[{tag}]:EXC "+type(e).__name__,case+(str(e),))
    # ---- network simplex on same (s->t demand) + random balanced supplies
    for variant in range(2):
        if variant==0: supl=[sup[x] for x in nodes]
        else:
            supl=[0]*n
            for _ in range(rng.randint(1,3)):
                a,b_=rng.sample(nodes,2); q=rng.randint(1,2); supl[a]+=q; supl[b_]-=q
        tc2=ref_mcf(nodes,arcs,dict(zip(nodes,supl)))
        case=(n,arcs,supl)
        signal.alarm(5)
        try:
            r=network_simplex(n,[(u,v,c,w) for u,v,c,w in arcs],supl); signal.alarm(0)
            if r.status==Status.INFEASIBLE:
                if tc2 is not None: note(f"ns[{tag}]:WRONG_INFEASIBLE",case)
                else: note("ns:ok_inf",None)
            elif r.status==Status.OPTIMAL:
                if tc2 is None: note(f"ns[{tag}]:FLOW_ON_INFEASIBLE",case)
                elif abs(r.objective-tc2)>1e-9: note(f"ns[{tag}]:WRONG_COST",case+(r.objective,tc2))
                else: note("ns:ok",None)
            else: note("ns:"+r.status.name,case)
        except TO: note(f"ns[{tag}]:HANG",case)
        except Exception as e: signal.alarm(0); note(f"ns[{tag}]:EXC "+type(e).__name__,case+(str(e),))
    # ---- hungarian / assignment
    nr=rng.randint(1,5); nc=rng.randint(1,5)
    M=[[rng.choice([-3,-1,0,1,2,2,5,7,0.5,-2.25]) for _ in range(nc)] for _ in range(nr)]
    for mn in (True,False):
        k=min(nr,nc); best=None
        rows=range(nr); 
        for rs in itertools.combinations(range(nr),k):
            for cs in itertools.permutations(range(nc),k):
                v=sum(M[i][j] for i,j in zip(rs,cs))
                if best is None or (v<best if mn else v>best): best=v
        r=solve_hungarian(M,minimize=mn)
        a=r.solution
        used=[j for j in a if j!=-1]
        if len(used)!=k or len(set(used))!=len(used) or any(not(0<=j<nc) for j in used): note("hung:BAD_MATCHING",(M,mn,a))
        elif abs(sum(M[i][j] for i,j in enumerate(a) if j!=-1)-r.objective)>1e-9: note("hung:OBJ_MISMATCH",(M,mn,a,r.objective))
        elif abs(r.objective-best)>1e-9: note("hung:NOT_OPT",(M,mn,r.objective,best))
        else: note("hung:ok",None)
    Mi=[[rng.choice([0,1,2,2,5,7,3]) for _ in range(nc)] for _ in range(nr)]
    k=min(nr,nc); best=min(sum(Mi[i][j] for i,j in zip(rs,cs)) for rs in itertools.combinations(range(nr),k) for cs in itertools.permutations(range(nc),k))
    signal.alarm(5)
    try:
        r=solve_assignment(Mi); signal.alarm(0)
        a=r.solution; used=[j for j in a if j!=-1]
        if len(used)!=k or len(set(used))!=len(used): note("asg:BAD_MATCHING",(Mi,a))
        elif r.objective!=best: note("asg:NOT_OPT",(Mi,r.objective,best))
        else: note("asg:ok",None)
    except TO: note("asg:HANG",(Mi,))
    except Exception as e: signal.alarm(0); note("asg:EXC "+type(e).__name__,(Mi,str(e)))
print({k:stats[k] for k in sorted(stats)})
for k,v in sorted(examples.items()):
    if v and v[0] is not None:
        print(k)
        for e in v: print("   ",e)
