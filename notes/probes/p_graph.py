import random, sys, itertools, math
from collections import defaultdict
import solvor
from solvor import *
from solvor.types import Status
rng=random.Random(int(sys.argv[1])); N=int(sys.argv[2])
stats={}; examples={}
def note(k,ex):
    stats[k]=stats.get(k,0)+1
    examples.setdefault(k,[])
    if len(examples[k])<3: examples[k].append(ex)
INF=float('inf')
def fw_ref(n,edges):
    d=[[INF]*n for _ in range(n)]
    for i in range(n): d[i][i]=0
    for u,v,w in edges: d[u][v]=min(d[u][v],w)
    for k in range(n):
        for i in range(n):
            for j in range(n):
                if d[i][k]+d[k][j]<d[i][j]: d[i][j]=d[i][k]+d[k][j]
    return d
def path_ok(path,s,t,edges,obj):
    if not path or path[0]!=s or path[-1]!=t: return False
    w=defaultdict(list)
    for u,v,x in edges: w[(u,v)].append(x)
    # exists choice of parallel edges with sum == obj : check min..; use DP over sums set
    sums={0}
    for a,b in zip(path,path[1:]):
        if (a,b) not in w: return False
        sums={s_+x for s_ in sums for x in w[(a,b)]}
    return any(abs(s_-obj)<1e-9 for s_ in sums)
for it in range(N):
    n=rng.randint(1,7)
    m=rng.randint(0,14)
    edges=[(rng.randrange(n),rng.randrange(n),rng.choice([0,1,1,2,3,5,7])) for _ in range(m)]
    D=fw_ref(n,edges)
    adj=defaultdict(list)
    for u,v,w in edges: adj[u].append((v,w))
    s=rng.randrange(n); t=rng.randrange(n)
    case=(n,edges,s,t)
    # dijkstra
    for name,call in [("dijkstra",lambda: dijkstra(s,t,lambda x:adj[x])),
                      ("dijkstra_pred",lambda: dijkstra(s,lambda x:x==t,lambda x:adj[x])),
                      ("astar0",lambda: astar(s,t,lambda x:adj[x],lambda x:0)),
                      ("astar_h",lambda: astar(s,t,lambda x:adj[x],lambda x:D[x][t] if D[x][t]<INF else 0)),
                      ("bf_py",lambda: bellman_ford(s,edges,n,target=t,backend="python")),
                      ("bf_rs",lambda: bellman_ford(s,edges,n,target=t,backend="rust")),
                      ("dij_e_py",lambda: dijkstra_edges(n,edges,s,target=t,backend="python")),
                      ("dij_e_rs",lambda: dijkstra_edges(n,edges,s,target=t,backend="rust")),
                      ]:
        try: r=call()
        except Exception as e: note(f"{name}:EXC {type(e).__name__}",case+(str(e),)); continue
        if D[s][t]==INF:
            if r.status!=Status.INFEASIBLE: note(f"{name}:NOT_INFEASIBLE",case)
        else:
            if r.status!=Status.OPTIMAL: note(f"{name}:status {r.status.name}",case)
            elif abs(r.objective-D[s][t])>1e-9: note(f"{name}:WRONG_DIST",case+(r.objective,D[s][t]))
            elif not path_ok(r.solution,s,t,edges,r.objective): note(f"{name}:BAD_PATH",case+(r.solution,))
            else: note(f"{name}:ok",None)
    # unweighted
    uadj=defaultdict(list)
    for u,v,w in edges: uadj[u].append(v)
    H=fw_ref(n,[(u,v,1) for u,v,w in edges])
    e2=[(u,v) for u,v,w in edges]
    for name,call in [("bfs",lambda: bfs(s,t,lambda x:uadj[x])),("bfs_e_py",lambda: bfs_edges(n,e2,s,target=t,backend="python")),("bfs_e_rs",lambda: bfs_edges(n,e2,s,target=t,backend="rust"))]:
        r=call()
        if H[s][t]==INF:
            if r.status!=Status.INFEASIBLE: note(f"{name}:NOT_INFEASIBLE",case)
        elif r.status!=Status.OPTIMAL or r.objective!=H[s][t] or not path_ok(r.solution,s,t,[(u,v,1) for u,v in e2],r.objective): note(f"{name}:WRONG",case+(r.solution,r.objective))
        else: note(f"{name}:ok",None)
    for name,call in [("dfs",lambda: dfs(s,t,lambda x:uadj[x])),("dfs_e_py",lambda: dfs_edges(n,e2,s,target=t,backend="python")),("dfs_e_rs",lambda: dfs_edges(n,e2,s,target=t,backend="rust"))]:
        r=call()
        if H[s][t]==INF:
            if r.status!=Status.INFEASIBLE: note(f"{name}:NOT_INFEASIBLE",case)
        elif r.solution is None or not path_ok(r.solution,s,t,[(u,v,1) for u,v in e2],len(r.solution)-1) or r.objective!=len(r.solution)-1: note(f"{name}:WRONG",case+(r.solution,r.objective))
        else: note(f"{name}:ok[{r.status.name}]",None)
    # no-target variants py vs rust
    for fn,args in [(bfs_edges,(n,e2,s)),(dfs_edges,(n,e2,s)),(dijkstra_edges,(n,edges,s)),(bellman_ford,(s,edges,n))]:
        a=fn(*args,backend="python"); b=fn(*args,backend="rust")
        if a.status!=b.status: note(f"{fn.__name__}:notarget STATUS_DIFF",case)
        elif a.solution!=b.solution:
            kind="ORDER_ONLY" if isinstance(a.solution,list) and sorted(a.solution)==sorted(b.solution) else "VALUE"
            note(f"{fn.__name__}:notarget DIFF {kind}",case+(a.solution,b.solution))
        else: note(f"{fn.__name__}:notarget same",None)
    # negative weights: bellman ford + floyd
    nedges=[(u,v,rng.choice([-3,-1,0,1,2,4,6])) for u,v,w in edges]
    Dn=fw_ref(n,nedges)
    negc_any=any(Dn[i][i]<0 for i in range(n))
    negc_reach=any(Dn[i][i]<0 and (D[s][i]<INF) for i in range(n))
    for be in ("python","rust"):
        r=bellman_ford(s,nedges,n,backend=be)
        if negc_reach:
            if r.status!=Status.UNBOUNDED: note(f"bf_{be}:MISSED_NEGCYCLE",(n,nedges,s))
        else:
            exp={i:Dn[s][i] for i in range(n) if Dn[s][i]<INF}
            if r.status!=Status.OPTIMAL or r.solution!=exp: note(f"bf_{be}:WRONG_DISTS",(n,nedges,s,r.solution,exp))
            else: note(f"bf_{be}:neg ok",None)
        for directed in (True,False):
            r=floyd_warshall(n,nedges,directed=directed,backend=be)
            if directed: exp=Dn
            else: exp=fw_ref(n,nedges+[(v,u,w) for u,v,w in nedges])
            neg=any(exp[i][i]<0 for i in range(n))
            if neg:
                if r.status!=Status.UNBOUNDED: note(f"fw_{be}_{directed}:MISSED_NEGCYCLE",(n,nedges))
            elif r.status!=Status.OPTIMAL or r.solution!=exp: note(f"fw_{be}_dir={directed}:WRONG",(n,nedges))
            else: note(f"fw_{be}:ok",None)
    # kruskal py vs rust, prim
    uedges=[(u,v,rng.choice([-2,0,1,1,2,3,5])) for u,v,w in edges]
    # reference MST weight by brute force kruskal w/ own UF
    def ref_mst(n,ed):
        p=list(range(n))
        def f(x):
            while p[x]!=x: p[x]=p[p[x]]; x=p[x]
            return x
        tot=0;cnt=0
        for u,v,w in sorted(ed,key=lambda e:e[2]):
            a,b=f(u),f(v)
            if a!=b: p[a]=b; tot+=w; cnt+=1
        return tot,cnt
    tw,cnt=ref_mst(n,uedges)
    for be in ("python","rust"):
        for af in (False,True):
            r=kruskal(n,uedges,allow_forest=af,backend=be)
            if cnt==n-1:
                if r.status!=Status.OPTIMAL or abs(r.objective-tw)>1e-9 or len(r.solution)!=n-1: note(f"kruskal_{be}:WRONG",(n,uedges,r.objective,tw))
                else: note(f"kruskal_{be}:ok",None)
            else:
                if not af and r.status!=Status.INFEASIBLE: note(f"kruskal_{be}:NOT_INFEASIBLE",(n,uedges))
                elif af and (r.status!=Status.FEASIBLE or abs(r.objective-tw)>1e-9 or len(r.solution)!=cnt): note(f"kruskal_{be}:FOREST_WRONG",(n,uedges,r.status.name,r.objective,tw))
                else: note(f"kruskal_{be}:ok_disc",None)
    g=defaultdict(list)
    for u,v,w in uedges: g[u].append((v,w)); g[v].append((u,w))
    for i in range(n): g.setdefault(i,[])
    r=prim(dict(g),start=rng.randrange(n))
    if cnt==n-1:
        if r.status!=Status.OPTIMAL or abs(r.objective-tw)>1e-9: note("prim:WRONG",(n,uedges,r.objective,tw))
        else: note("prim:ok",None)
    elif r.status!=Status.INFEASIBLE: note("prim:NOT_INFEASIBLE",(n,uedges))
    # scc/topo py vs rust + definition
    R=[[H[i][j]<INF for j in range(n)] for i in range(n)]
    classes={frozenset(j for j in range(n) if R[i][j] and R[j][i]) for i in range(n)}
    for be in ("python","rust"):
        r=strongly_connected_components_edges(n,e2,backend=be)
        comps=[frozenset(c) for c in r.solution]
        if set(comps)!=classes or sum(len(c) for c in r.solution)!=n: note(f"scc_{be}:WRONG_PARTITION",(n,e2,r.solution))
        else:
            pos={x:i for i,c in enumerate(comps) for x in c}
            if any(pos[u]<pos[v] for u,v in e2): note(f"scc_{be}:ORDER_NOT_SINKS_FIRST",(n,e2,r.solution))
            else: note(f"scc_{be}:ok",None)
        r=topological_sort_edges(n,e2,backend=be)
        acyclic=all(len(c)==1 for c in classes) and all(u!=v for u,v in e2)
        if acyclic:
            if r.status!=Status.OPTIMAL or sorted(r.solution)!=list(range(n)) or any(r.solution.index(u)>r.solution.index(v) for u,v in e2): note(f"topo_{be}:WRONG",(n,e2,r.solution))
            else: note(f"topo_{be}:ok",None)
        elif r.status!=Status.INFEASIBLE: note(f"topo_{be}:NOT_INFEASIBLE",(n,e2))
    # pagerank py vs rust
    d=rng.choice([0.5,0.85,0.95])
    a=pagerank_edges(n,e2,damping=d,backend="python"); b=pagerank_edges(n,e2,damping=d,backend="rust")
    if a.status!=b.status: note("pagerank:STATUS_DIFF",(n,e2,d,a.status.name,b.status.name))
    else:
        md=max(abs(a.solution[i]-b.solution[i]) for i in range(n))
        note("pagerank:diff>1e-5" if md>1e-5 else "pagerank:close",(n,e2,d,md) if md>1e-5 else None)
print({k:stats[k] for k in sorted(stats)})
for k,v in sorted(examples.items()):
    if v and v[0] is not None:
        print(k)
        for e in v: print("   ",str(e)[:300])
