import random, sys, itertools, math
from collections import defaultdict
from fractions import Fraction as F
from solvor import *
from solvor.types import Status
rng=random.Random(int(sys.argv[1])); N=int(sys.argv[2])
stats={}; examples={}
def note(k,ex):
    stats[k]=stats.get(k,0)+1
    examples.setdefault(k,[])
    if len(examples[k])<3: examples[k].append(ex)
def ncomp(nodes,und):
    nodes=list(nodes); seen=set(); c=0
    for s in nodes:
        if s in seen: continue
        c+=1; st=[s]; seen.add(s)
        while st:
            u=st.pop()
            for v in und[u]:
                if v in nodes and v not in seen: seen.add(v); st.append(v)
    return c
for it in range(N):
    n=rng.randint(1,7)
    labels=rng.choice([list(range(n)),[chr(97+i) for i in range(n)]])
    outside=labels[0].__class__(99) if isinstance(labels[0],int) else 'zz'
    nb={v:[] for v in labels}
    m=rng.randint(0,12)
    sym=rng.random()<0.5
    for _ in range(m):
        u=rng.choice(labels); v=rng.choice(labels)
        nb[u].append(v)
        if sym and rng.random()<0.9: nb[v].append(u)
    use_out=rng.random()<0.3
    if use_out: nb[rng.choice(labels)].append(outside)
    order=labels[:]; rng.shuffle(order)
    case=(order,nb)
    f=lambda x: nb.get(x,[])
    # ---- SCC directed semantics on node set
    reach={u:{u} for u in labels}
    ch=True
    while ch:
        ch=False
        for u in labels:
            for v in list(reach[u]):
                for w in nb.get(v,[]):
                    if w in nb and w not in reach[u]: reach[u].add(w); ch=True
    classes={frozenset(v for v in labels if v in reach[u] and u in reach[v]) for u in labels}
    try:
        r=strongly_connected_components(order,f)
        comps=[frozenset(c) for c in r.solution]
        if set(comps)!=classes or sum(len(c) for c in r.solution)!=n: note(f"scc:WRONG_PARTITION out={use_out}",case+(r.solution,))
        else:
            pos={x:i for i,c in enumerate(comps) for x in c}
            if any(pos[u]<pos[v] for u in labels for v in nb[u] if v in pos): note("scc:ORDER",case)
            else: note("scc:ok",None)
    except Exception as e: note(f"scc:EXC {type(e).__name__} out={use_out}",case)
    try:
        r=topological_sort(order,f)
        acyc=all(len(c)==1 for c in classes) and all(u not in nb[u] for u in labels)
        if acyc:
            if r.status!=Status.OPTIMAL or sorted(r.solution)!=sorted(labels) or any(r.solution.index(u)>r.solution.index(v) for u in labels for v in nb[u] if v in nb): note("topo:WRONG",case)
            else: note("topo:ok",None)
        elif r.status!=Status.INFEASIBLE: note("topo:NOT_INF",case)
    except Exception as e: note(f"topo:EXC {type(e).__name__}",case)
    try:
        r=condense(order,f)
        cn,adjc=r.solution
        ok=set(cn)==classes and set(adjc.keys())==set(cn)
        if ok:
            exp={c:set() for c in cn}
            cm={x:c for c in cn for x in c}
            for u in labels:
                for v in nb[u]:
                    if v in cm and cm[u]!=cm[v]: exp[cm[u]].add(cm[v])
            ok=all(set(adjc[c])==exp[c] and len(adjc[c])==len(set(adjc[c])) for c in cn)
        note("condense:ok" if ok else f"condense:WRONG out={use_out}",None if ok else case)
    except Exception as e: note(f"condense:EXC {type(e).__name__} out={use_out}",case)
    # ---- undirected semantics
    und={v:set() for v in labels}
    for u in labels:
        for v in nb[u]:
            if v in und and v!=u: und[u].add(v); und[v].add(u)
    base=ncomp(labels,und)
    ap_true={v for v in labels if ncomp([x for x in labels if x!=v],{k:{w for w in s if w!=v} for k,s in und.items() if k!=v})>base-(0 if und[v] else 1)}
    # removing isolated vertex reduces count by 1; cut vertex: components(G-v) > components(G) (standard: > base for non-isolated) 
    ap_true={v for v in labels if und[v] and ncomp([x for x in labels if x!=v],{k:{w for w in s if w!=v} for k,s in und.items() if k!=v})>base}
    br_true=set()
    for u in labels:
        for v in und[u]:
            if u<v:
                und2={k:set(s) for k,s in und.items()}; und2[u].discard(v); und2[v].discard(u)
                if ncomp(labels,und2)>base: br_true.add((u,v))
    asym=any((u not in nb[v]) for u in labels for v in nb[u] if v in nb and v!=u)
    try:
        r=articulation_points(order,f)
        note("ap:ok" if r.solution==ap_true else f"ap:WRONG asym={asym}",None if r.solution==ap_true else case+(r.solution,ap_true))
    except Exception as e: note(f"ap:EXC {type(e).__name__}",case)
    try:
        r=bridges(order,f)
        got=set(r.solution)
        good=got==br_true and len(got)==len(r.solution)
        note("br:ok" if good else f"br:WRONG asym={asym}",None if good else case+(r.solution,br_true))
    except Exception as e: note(f"br:EXC {type(e).__name__}",case)
    # kcore
    core={}
    for v in labels:
        k=0
        while True:
            alive=set(labels); ch=True
            while ch:
                ch=False
                for x in list(alive):
                    if len(und[x]&alive)<k+1: alive.discard(x); ch=True
            if v in alive: k+=1
            else: break
        core[v]=k
    r=kcore_decomposition(order,f)
    note("kcore:ok" if r.solution==core else f"kcore:WRONG",None if r.solution==core else case+(r.solution,core))
    kk=rng.randint(0,3); r=kcore(order,f,kk)
    if r.solution!={v for v in labels if core[v]>=kk}: note("kcore(k):WRONG",case)
    # pagerank equation
    d=rng.choice([0.3,0.85,0.95]); tol=1e-6
    r=pagerank(order,f,damping=d,tol=tol)
    sc=r.solution
    if abs(sum(sc.values())-1)>1e-9 or any(v<0 for v in sc.values()): note("pr:NOT_DISTRIBUTION",case+(sc,))
    elif r.status==Status.OPTIMAL:
        outc={u:sum(1 for v in nb[u] if v in nb) for u in labels}
        dang=sum(sc[u] for u in labels if outc[u]==0)
        res=0
        for v in labels:
            rhs=(1-d)/n+d*dang/n+d*sum(sc[u]/outc[u] for u in labels for w in nb[u] if w==v)
            res=max(res,abs(rhs-sc[v]))
        note("pr:ok" if res<=n*tol else "pr:RESIDUAL",None if res<=n*tol else case+(res,))
    else: note("pr:"+r.status.name,None)
    # louvain
    res_=rng.choice([0.5,1.0,2.0])
    try:
        r=louvain(order,f,resolution=res_)
        comms=r.solution
        flat=[x for c in comms for x in c]
        if sorted(flat)!=sorted(labels) or any(not c for c in comms): note("louvain:NOT_PARTITION",case+(comms,))
        else:
            mtot=sum(len(s) for s in und.values())/2
            if mtot==0: q=0.0
            else:
                q=0
                for c in comms:
                    ein=sum(1 for u in c for v in und[u] if v in c)/2
                    dc=sum(len(und[u]) for u in c)
                    q+=ein/mtot-res_*(dc/(2*mtot))**2
            note("louvain:ok" if abs(q-r.objective)<1e-9 else "louvain:MODULARITY_MISMATCH",None if abs(q-r.objective)<1e-9 else case+(comms,r.objective,q))
    except Exception as e: note(f"louvain:EXC {type(e).__name__}",case)
print({k:stats[k] for k in sorted(stats)})
for k,v in sorted(examples.items()):
    if v and v[0] is not None:
        print(k)
        for e in v: print("   ",str(e)[:400])
