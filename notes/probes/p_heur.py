import random, sys, math
from solvor import *
from solvor.types import Status
rng=random.Random(int(sys.argv[1])); N=int(sys.argv[2])
stats={}; examples={}
def note(k,ex):
    stats[k]=stats.get(k,0)+1
    examples.setdefault(k,[])
    if len(examples[k])<3: examples[k].append(ex)
class Obj:
    def __init__(s,f): s.f=f; s.calls=0; s.seen=[]
    def __call__(s,x):
        s.calls+=1; v=s.f(x); s.seen.append((tuple(x) if isinstance(x,(list,tuple)) else x, v)); return v
def rugged(x):
    # plateaus/ties/discontinuities, deterministic
    t=sum((xi*1.0)**2 for xi in x)
    return math.floor(t*3)/3 + (5 if (int(abs(x[0])*7)%3==0) else 0) - 2*math.cos(3*x[0])
def chk(name,mk_call,minimize_kw=True,first_group=True,bounds=None):
    for mn in (True,False):
        f=Obj(rugged if mn else (lambda x: -rugged(x)))
        r=mk_call(f,mn)
        fx=(rugged if mn else (lambda x:-rugged(x)))(r.solution)
        if abs(fx-r.objective)>1e-9*max(1,abs(fx)): note(f"{name}:OBJ_MISMATCH mn={mn}",(r.solution,r.objective,fx))
        if first_group:
            best=min(v for _,v in f.seen) if mn else max(v for _,v in f.seen)
            if (r.objective>best+1e-12) if mn else (r.objective<best-1e-12): note(f"{name}:NOT_BEST_SEEN mn={mn}",(r.objective,best))
            if r.evaluations!=f.calls: note(f"{name}:EVALS {r.evaluations}!={f.calls}",None)
        if bounds and any(not(lo<=xi<=hi) for xi,(lo,hi) in zip(r.solution,bounds)): note(f"{name}:OUT_OF_BOUNDS",r.solution)
        f2=Obj(rugged if mn else (lambda x: -rugged(x))); r2=mk_call(f2,mn)
        if r2.solution!=r.solution or r2.objective!=r.objective: note(f"{name}:NONDETERMINISTIC",None)
        note(f"{name}:runs",None)
    # mirror
    fa=Obj(rugged); ra=mk_call(fa,True)
    fb=Obj(lambda x:-rugged(x)); rb=mk_call(fb,False)
    if ra.solution!=rb.solution or abs(ra.objective+rb.objective)>1e-12: note(f"{name}:MIRROR_BROKEN",(ra.solution,rb.solution,ra.objective,rb.objective))
for it in range(N):
    seed=rng.randint(0,10**6); d=rng.randint(1,3)
    x0=[rng.uniform(-3,3) for _ in range(d)]
    bounds=[(-3,3)]*d
    step=lambda: None
    nrng_seed=rng.randint(0,99)
    def neigh_factory():
        r=random.Random(nrng_seed)
        return lambda x:[xi+r.uniform(-0.5,0.5) for xi in x]
    chk("anneal",lambda f,mn: anneal(x0,f,neigh_factory(),minimize=mn,seed=seed,max_iter=200,temperature=rng_t),) if False else None
    T=rng.choice([0.5,10,1000])
    chk("anneal",lambda f,mn: anneal(x0,f,neigh_factory(),minimize=mn,seed=seed,max_iter=200,temperature=T))
    def tn(x): return [((i,s),[xj+(s*0.3 if j==i else 0) for j,xj in enumerate(x)]) for i in range(len(x)) for s in (-1,1)]
    chk("tabu",lambda f,mn: tabu_search(x0,f,tn,minimize=mn,seed=seed,max_iter=50,cooldown=3))
    def destroy(x,r): 
        y=list(x); y[r.randrange(len(y))]=None; return y
    def repair(x,r): return [r.uniform(-3,3) if xi is None else xi for xi in x]
    acc=rng.choice(["improving","accept_all","simulated_annealing"])
    chk("lns",lambda f,mn: lns(x0,f,destroy,repair,minimize=mn,seed=seed,max_iter=80,accept=acc))
    chk("alns",lambda f,mn: alns(x0,f,[destroy,destroy],[repair],minimize=mn,seed=seed,max_iter=80,accept=acc))
    pop=[[rng.uniform(-3,3) for _ in range(d)] for _ in range(6)]
    cr=random.Random(5)
    def mkcr():
        r=random.Random(nrng_seed)
        return (lambda a,b:[ai if r.random()<0.5 else bi for ai,bi in zip(a,b)]),(lambda a:[ai+r.uniform(-.3,.3) for ai in a])
    def ev(f,mn):
        c,m=mkcr(); return evolve(f,pop,c,m,minimize=mn,seed=seed,max_iter=15,elite_size=rng_e)
    rng_e=rng.choice([0,1,2])
    chk("evolve",ev)
    chk("de",lambda f,mn: differential_evolution(f,bounds,minimize=mn,seed=seed,max_iter=15,population_size=6),bounds=bounds)
    chk("pso",lambda f,mn: particle_swarm(f,bounds,minimize=mn,seed=seed,max_iter=15,n_particles=6),bounds=bounds)
    chk("nm",lambda f,mn: nelder_mead(f,x0,minimize=mn,max_iter=60))
    if it%10==0: chk("bayes",lambda f,mn: bayesian_opt(f,bounds,minimize=mn,seed=seed,max_iter=9,n_initial=4),bounds=bounds)
    chk("powell",lambda f,mn: powell(f,x0,minimize=mn,max_iter=5),first_group=False)
    g=lambda x:[2*xi for xi in x]
    for mn in (True,):
        q=lambda x: sum(xi*xi for xi in x)
        r=bfgs(g,x0,objective_fn=q,max_iter=20); 
        if abs(q(r.solution)-r.objective)>1e-12: note("bfgs:OBJ_MISMATCH",None)
        r=lbfgs(g,x0,objective_fn=q,max_iter=20); 
        if abs(q(r.solution)-r.objective)>1e-12: note("lbfgs:OBJ_MISMATCH",None)
print({k:stats[k] for k in sorted(stats)})
for k,v in sorted(examples.items()):
    if v and v[0] is not None:
        print(k)
        for e in v: print("   ",str(e)[:300])
