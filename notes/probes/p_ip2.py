import random, warnings
from solvor.interior_point import solve_lp_interior
from exact_lp import solve_exact
from solvor.types import Status
rng=random.Random(5)
cnt={}
for it in range(300):
    n=rng.randint(1,4); m=rng.randint(1,5)
    A=[[rng.choice([0,1,1,2,-1,3]) for _ in range(n)] for _ in range(m)]
    b=[rng.choice([1,2,4,6,5]) for _ in range(m)]
    c=[rng.choice([1,-1,2,-2,3]) for _ in range(n)]
    st,x,obj=solve_exact(c,A,b,True)
    for mi,eps in [(100,1e-8),(1000,1e-8),(300,1e-6),(300,1e-4)]:
        try:
            r=solve_lp_interior(c,A,b,max_iter=mi,eps=eps)
            k=(mi,eps,st,r.status.name)
            if r.status==Status.OPTIMAL and st=='optimal': k=k+(abs(r.objective-float(obj))<1e-3*(1+abs(obj)),)
        except Exception as e: k=(mi,eps,st,'EXC')
        cnt[k]=cnt.get(k,0)+1
for k in sorted(cnt,key=str): print(k,cnt[k])
