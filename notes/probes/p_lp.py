import random, sys, signal, warnings
from fractions import Fraction as F
from exact_lp import solve_exact
from solvor.simplex import solve_lp
from solvor.interior_point import solve_lp_interior
from solvor.types import Status
class TO(Exception): pass
def handler(s,f): raise TO()
signal.signal(signal.SIGALRM, handler)
rng=random.Random(int(sys.argv[1])); N=int(sys.argv[2])
stats={}; examples={}
def note(k,ex):
    stats[k]=stats.get(k,0)+1
    examples.setdefault(k,[])
    if len(examples[k])<4: examples[k].append(ex)
for it in range(N):
    n=rng.randint(1,4); m=rng.randint(1,5)
    mode=rng.random()
    A=[[rng.choice([0,0,1,1,2,-1,-2,3]) for _ in range(n)] for _ in range(m)]
    b=[rng.choice([0,0,1,2,4,6,-1,-3,5]) for _ in range(m)]
    if mode<0.3:  # duplicate/parallel rows
        i=rng.randrange(m); A.append([2*v for v in A[i]]); b.append(2*b[i]); 
    if mode>0.8: A[rng.randrange(len(A))]=[0]*n
    c=[rng.choice([0,1,-1,2,-2,3]) for _ in range(n)]
    mn=rng.random()<0.5
    st,x,obj=solve_exact(c,A,b,mn)
    case=(c,A,b,mn)
    signal.alarm(5)
    try:
        r=solve_lp(c,A,b,minimize=mn); signal.alarm(0)
    except TO: note("lp:HANG",case); r=None
    except Exception as e: signal.alarm(0); note("lp:EXC "+type(e).__name__,case); r=None
    if r is not None:
        got={Status.OPTIMAL:'optimal',Status.INFEASIBLE:'infeasible',Status.UNBOUNDED:'unbounded'}.get(r.status,r.status.name)
        if got!=st: note(f"lp:STATUS exp={st} got={got}",case)
        elif st=='optimal':
            xs=r.solution
            feas=all(v>=-1e-7 for v in xs) and all(sum(a*v for a,v in zip(row,xs))<=bi+1e-7 for row,bi in zip(A,b))
            cx=sum(ci*v for ci,v in zip(c,xs))
            if not feas: note("lp:INFEAS_POINT",case+(xs,))
            elif abs(cx-r.objective)>1e-7: note("lp:OBJ_MISMATCH",case+(xs,r.objective))
            elif abs(r.objective-float(obj))>1e-6: note("lp:SUBOPT",case+(r.objective,float(obj)))
            else: note("lp:ok_opt",None)
        else: note("lp:ok_"+st,None)
    signal.alarm(10)
    try:
        with warnings.catch_warnings():
            warnings.simplefilter("ignore")
            r=solve_lp_interior(c,A,b,minimize=mn); signal.alarm(0)
    except TO: note("ip:HANG",case); continue
    except Exception as e: signal.alarm(0); note("ip:EXC "+type(e).__name__,case+(str(e),)); continue
    xs=r.solution
    if r.status==Status.OPTIMAL:
        if st!='optimal': note(f"ip:OPTIMAL_on_{st}",case)
        else:
            feas=all(v>=-1e-6 for v in xs) and all(sum(a*v for a,v in zip(row,xs))<=bi+1e-6 for row,bi in zip(A,b))
            if not feas: note("ip:OPT_INFEAS_POINT",case)
            elif abs(r.objective-float(obj))>1e-4*(1+abs(float(obj))): note("ip:OPT_WRONGOBJ",case+(r.objective,float(obj)))
            else: note("ip:ok_opt",None)
    elif r.status==Status.FEASIBLE:
        feas=all(v>=-1e-9 for v in xs) and all(sum(a*v for a,v in zip(row,xs))<=bi+0.01+1e-9 for row,bi in zip(A,b))
        if not feas: note(f"ip:FEASIBLE_INFEAS_POINT(true={st})",case+(xs,))
        else: note(f"ip:feasible_ok(true={st})",None)
    else: note(f"ip:{r.status.name}(true={st})",None)
print({k:stats[k] for k in sorted(stats)})
for k,v in sorted(examples.items()):
    if v and v[0] is not None:
        print(k)
        for e in v: print("   ",e)
