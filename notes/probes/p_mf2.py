import random, sys
from collections import defaultdict, deque
from solvor.flow import max_flow
sys.path.insert(0,'.')
exec(open('p_flow.py').read().split("for it in range(N):")[0].split("rng=random.Random")[0])
def ref_maxflow(arcs,s,t):
    g=defaultdict(list); E=[]
    for u,v,c in arcs:
        g[u].append(len(E)); E.append([v,c]); g[v].append(len(E)); E.append([u,0])
    total=0
    while True:
        par={s:None}; q=deque([s])
        while q and t not in par:
            u=q.popleft()
            for ei in g[u]:
                v,c=E[ei]
                if c>0 and v not in par: par[v]=ei; q.append(v)
        if t not in par: return total
        f=10**9; v=t
        while par[v] is not None:
            ei=par[v]; f=min(f,E[ei][1]); v=E[ei^1][0]
        v=t
        while par[v] is not None:
            ei=par[v]; E[ei][1]-=f; E[ei^1][1]+=f; v=E[ei^1][0]
        total+=f
rng=random.Random(3); bad=0; tot=0; ex=[]
for it in range(5000):
    n=rng.randint(4,9); nodes=list(range(n))
    arcs=[]
    for _ in range(rng.randint(n,2*n)):
        u,v=sorted(rng.sample(nodes,2)); arcs.append((u,v,rng.choice([1,1,2,3])))
    graph=defaultdict(list)
    for u,v,c in arcs: graph[u].append((v,c,0))
    r=max_flow(dict(graph),0,n-1); t=ref_maxflow(arcs,0,n-1); tot+=1
    if r.objective!=t:
        bad+=1
        if len(ex)<3: ex.append((arcs,r.objective,t))
print(bad,tot); print(ex)
