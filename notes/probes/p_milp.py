import random, sys, signal, itertools
from fractions import Fraction as F
from exact_lp import solve_exact
from solvor.milp import solve_milp
from solvor.types import Status
class TO(Exception): pass
def handler(s,f): raise TO()
signal.signal(signal.SIGALRM, handler)
rng=random.Random(int(sys.argv[1])); N=int(sys.argv[2])
stats={}; examples={}
def note(k,ex):
    stats[k]=stats.get(k,0)+1
    examples.setdefault(k,[])
    if len(examples[k])<4: examples[k].append(ex)

def exact_milp(c,A,b,ints,mn,ub):
    # all vars bounded by ub rows (included in A). enumerate integer vars; LP over the rest
    n=len(c); best=None
    cont=[j for j in range(n) if j not in ints]
    ints=sorted(ints)
    for vals in itertools.product(*[range(0,ub[j]+1) for j in ints]):
        fixed=dict(zip(ints,vals))
        if cont:
            A2=[[row[j] for j in cont] for row in A]
            b2=[bi-sum(row[j]*fixed[j] for j in ints) for row,bi in zip(A,b)]
            st,x,obj=solve_exact([c[j] for j in cont],A2,b2,mn)
            if st=='infeasible': continue
            if st=='unbounded': return 'unbounded',None
            tot=obj+sum(c[j]*fixed[j] for j in ints)
        else:
            if any(sum(row[j]*fixed[j] for j in ints)>bi for row,bi in zip(A,b)): continue
            tot=F(sum(c[j]*fixed[j] for j in ints))
        if best is None or (tot<best if mn else tot>best): best=tot
    if best is None: return 'infeasible',None
    return 'optimal',best

for it in range(N):
    n=rng.randint(1,4); m=rng.randint(1,4)
    A=[[rng.choice([0,1,1,2,-1,-2,3,5]) for _ in range(n)] for _ in range(m)]
    b=[rng.choice([0,1,2,4,6,-1,-3,5,7,9]) for _ in range(m)]
    ub=[rng.choice([1,1,2,3,5]) for _ in range(n)]
    for j in range(n):
        row=[0]*n; row[j]=1; A.append(row); b.append(ub[j])
    c=[rng.choice([0,1,-1,2,-2,3,-5,4]) for _ in range(n)]
    ints=sorted(rng.sample(range(n),rng.randint(1,n)))
    mn=rng.random()<0.5
    kw={}
    if rng.random()<0.4: kw['heuristics']=False
    if rng.random()<0.3: kw['lns_iterations']=rng.choice([1,5]); kw['seed']=rng.randint(0,99)
    if rng.random()<0.3: kw['solution_limit']=rng.choice([2,5])
    r0=rng.random()
    if r0<0.15: kw['warm_start']=[rng.randint(0,u) for u in ub]
    elif r0<0.2: kw['warm_start']=[0]*(n+1)
    st,opt=exact_milp(c,A,b,ints,mn,ub)
    case=(c,A,b,ints,mn,kw)
    signal.alarm(10)
    try: r=solve_milp(c,A,b,ints,minimize=mn,**kw); signal.alarm(0)
    except TO: note("HANG",case); continue
    except Exception as e: signal.alarm(0); note("EXC "+type(e).__name__,case+(str(e),)); continue
    def feas(x):
        return all(v>=-1e-6 for v in x) and all(abs(x[j]-round(x[j]))<=1e-6 for j in ints) and all(sum(a*v for a,v in zip(row,x))<=bi+1e-6 for row,bi in zip(A,b))
    if r.status in (Status.OPTIMAL,Status.FEASIBLE):
        sols=[r.solution]+list(r.solutions or [])
        if st!='optimal': note(f"SOL_on_{st}",case); continue
        if any(not feas(x) for x in sols): note("INFEAS_SOL",case+(sols,)); continue
        cx=sum(ci*v for ci,v in zip(c,r.solution))
        if abs(cx-r.objective)>1e-6: note("OBJ_MISMATCH",case+(r.solution,r.objective)); continue
        if r.status==Status.OPTIMAL:
            if abs(r.objective-float(opt))>1e-5*(1+abs(float(opt))): note("OPTIMAL_SUBOPT",case+(r.objective,float(opt)))
            else: note("ok_opt",None)
        else:
            note("ok_feasible"+("" if abs(r.objective-float(opt))<1e-6 else "_subopt"),None)
    elif r.status==Status.INFEASIBLE:
        if st!='infeasible': note(f"INFEASIBLE_on_{st}",case)
        else: note("ok_inf",None)
    elif r.status==Status.UNBOUNDED:
        note("UNBOUNDED?",case)
    else: note(r.status.name,case)
print({k:stats[k] for k in sorted(stats)})
for k,v in sorted(examples.items()):
    if v and v[0] is not None:
        print(k)
        for e in v: print("   ",e)
