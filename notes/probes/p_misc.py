import random, sys, itertools, math, heapq
from collections import defaultdict
from fractions import Fraction as F
from solvor import *
from solvor.types import Status
rng=random.Random(int(sys.argv[1])); N=int(sys.argv[2])
stats={}; examples={}
def note(k,ex):
    stats[k]=stats.get(k,0)+1
    examples.setdefault(k,[])
    if len(examples[k])<3: examples[k].append(ex)
INF=float('inf')
for it in range(N):
    # ---- astar_grid
    R=rng.randint(1,6); C=rng.randint(1,6)
    grid=[[1 if rng.random()<0.3 else rng.choice([0,0,2]) for _ in range(C)] for _ in range(R)]
    s=(rng.randrange(R),rng.randrange(C)); g=(rng.randrange(R),rng.randrange(C))
    for dirs in (4,8):
        costs=rng.choice([None,{2:3.0},{2:1.5,0:1.0}])
        heur=rng.choice(["auto","octile","euclidean","chebyshev"] if dirs==8 else ["auto","manhattan","euclidean","chebyshev","octile"])
        # oracle dijkstra
        dist={s:0.0}; pq=[(0.0,s)]
        D=[(dx,dy) for dx in (-1,0,1) for dy in (-1,0,1) if (dx,dy)!=(0,0) and (dirs==8 or dx==0 or dy==0)]
        while pq:
            d,u=heapq.heappop(pq)
            if d>dist[u]: continue
            for dx,dy in D:
                v=(u[0]+dx,u[1]+dy)
                if 0<=v[0]<R and 0<=v[1]<C and grid[v[0]][v[1]]!=1:
                    w=(costs or {}).get(grid[v[0]][v[1]],1.0)*(math.sqrt(2) if dx and dy else 1)
                    if d+w<dist.get(v,INF)-1e-15: dist[v]=d+w; heapq.heappush(pq,(d+w,v))
        r=astar_grid(grid,s,g,directions=dirs,heuristic=heur,costs=costs)
        case=(grid,s,g,dirs,heur,costs)
        if g not in dist:
            if r.status!=Status.INFEASIBLE: note("grid:NOT_INFEASIBLE",case)
            else: note("grid:ok_inf",None)
        else:
            if r.status!=Status.OPTIMAL: note("grid:status "+r.status.name,case)
            elif abs(r.objective-dist[g])>1e-9: note(f"grid:WRONG_DIST dirs={dirs} heur={heur} costs={costs}",case+(r.objective,dist[g]))
            else:
                p=r.solution; ok=p[0]==s and p[-1]==g
                tot=0
                for a,b in zip(p,p[1:]):
                    dx,dy=b[0]-a[0],b[1]-a[1]
                    if (dx,dy) not in D or grid[b[0]][b[1]]==1: ok=False
                    tot+=(costs or {}).get(grid[b[0]][b[1]],1.0)*(math.sqrt(2) if dx and dy else 1)
                note("grid:ok" if ok and abs(tot-r.objective)<1e-9 else "grid:BAD_PATH",None if ok else case)
    # ---- dijkstra / astar with max_cost
    n=rng.randint(2,7)
    edges=[(rng.randrange(n),rng.randrange(n),rng.choice([0,1,2,3,5])) for _ in range(rng.randint(1,14))]
    adj=defaultdict(list)
    for u,v,w in edges: adj[u].append((v,w))
    d=[[INF]*n for _ in range(n)]
    for i in range(n): d[i][i]=0
    for u,v,w in edges: d[u][v]=min(d[u][v],w)
    for k in range(n):
        for i in range(n):
            for j in range(n):
                if d[i][k]+d[k][j]<d[i][j]: d[i][j]=d[i][k]+d[k][j]
    s_,t_=rng.randrange(n),rng.randrange(n); mc=rng.choice([0,1,2,4,7])
    for name,r in (("dij",dijkstra(s_,t_,lambda x:adj[x],max_cost=mc)),("ast",astar(s_,t_,lambda x:adj[x],lambda x:0,max_cost=mc))):
        true=d[s_][t_]
        if true<=mc:
            if r.status!=Status.OPTIMAL or r.objective!=true: note(f"{name}:maxcost MISSED",(n,edges,s_,t_,mc,r.status.name,r.objective,true))
            else: note(f"{name}:maxcost ok",None)
        else:
            if r.status==Status.INFEASIBLE: note(f"{name}:maxcost inf",None)
            elif r.status==Status.OPTIMAL and r.objective>=true: note(f"{name}:maxcost beyond(valid,{'exact' if r.objective==true else 'longer'})",None)
            else: note(f"{name}:maxcost BAD",(n,edges,s_,t_,mc,r.status.name,r.objective,true))
    mi=rng.choice([1,2,3])
    r=dijkstra(s_,t_,lambda x:adj[x],max_iter=mi)
    if r.status==Status.OPTIMAL and r.objective!=d[s_][t_]: note("dij:maxiter WRONG",None)
    elif r.status==Status.INFEASIBLE and d[s_][t_]<INF: note("dij:maxiter INFEASIBLE_but_reachable",(n,edges,s_,t_,mi))
    else: note("dij:maxiter "+r.status.name,None)
print({k:stats[k] for k in sorted(stats)})
for k,v in sorted(examples.items()):
    if v and v[0] is not None:
        print(k)
        for e in v: print("   ",str(e)[:400])
