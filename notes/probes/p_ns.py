import random, sys
from collections import defaultdict
import importlib; NS=importlib.import_module("solvor.network_simplex")
from solvor.types import Status
exec(open('p_flow.py').read().split("for it in range(N):")[0].split("rng=random.Random")[0].split("class TO")[0])
src=open('p_flow.py').read()
# pull ref_mcf
start=src.index("def ref_mcf"); end=src.index("for it in range(N):")
exec(src[start:end])
orig=NS._find_join
trace=[]
def check_tree(loc):
    parent,pred,depth,thread,rev=loc['parent'],loc['pred'],loc['depth'],loc['thread'],loc['rev_thread']
    source,target,flow,cap,cost,pi=loc['source'],loc['target'],loc['flow'],loc['cap'],loc['cost'],loc['pi']
    root=loc['root']; tn=loc['total_nodes']
    probs=[]
    # tree
    for i in range(tn):
        if i==root: 
            if parent[i]!=-1: probs.append("root-parent")
            continue
        # reaches root
        x=i;steps=0
        while x!=root and steps<=tn: x=parent[x]; steps+=1
        if x!=root: probs.append("not-a-tree"); break
        if depth[i]!=depth[parent[i]]+1: probs.append("depth")
        a=pred[i]
        if not ((source[a]==i and target[a]==parent[i]) or (target[a]==i and source[a]==parent[i])): probs.append("pred-mismatch")
        else:
            rc=cost[a]-pi[source[a]]+pi[target[a]]
            if abs(rc)>1e-9: probs.append("tree-arc-reduced-cost")
    # thread is a permutation cycle visiting all nodes, preorder: each node's subtree contiguous
    seen=[];x=root
    for _ in range(tn):
        seen.append(x); x=thread[x]
    if sorted(seen)!=list(range(tn)) or x!=root: probs.append("thread-not-cycle")
    else:
        pos={v:i for i,v in enumerate(seen)}
        for i in range(tn):
            if i!=root and not (pos[parent[i]]<pos[i]): probs.append("thread-not-preorder"); break
    for a in range(loc['total_arcs']):
        if not (0<=flow[a]<=cap[a]): probs.append("flow-bounds"); break
    return sorted(set(probs))
state={}
def wrapped(u,v,depth,parent):
    import sys as _s
    loc=_s._getframe(1).f_locals
    p=check_tree(loc)
    state['pivots']=state.get('pivots',0)+1
    if p and 'first_break' not in state: state['first_break']=(state['pivots'],p)
    return orig(u,v,depth,parent)
NS._find_join=wrapped
rng=random.Random(int(sys.argv[1])); N=int(sys.argv[2])
tab=defaultdict(int); ex=[]
for it in range(N):
    n=rng.randint(3,8); nodes=list(range(n)); arcs=[]
    for _ in range(rng.randint(n,2*n+2)):
        u,v=rng.sample(nodes,2); arcs.append((u,v,rng.choice([1,2,3,4]),rng.choice([0,1,2,3,5,8])))
    if rng.random()<0.5:  # dedupe to simple
        seen=set(); a2=[]
        for a in arcs:
            if (a[0],a[1]) in seen or (a[1],a[0]) in seen: continue
            seen.add((a[0],a[1])); a2.append(a)
        arcs=a2
    supl=[0]*n
    for _ in range(rng.randint(1,3)):
        a,b_=rng.sample(nodes,2); q=rng.randint(1,3); supl[a]+=q; supl[b_]-=q
    tc=ref_mcf(nodes,arcs,dict(zip(nodes,supl)))
    state.clear()
    r=NS.network_simplex(n,arcs,supl)
    if r.status==Status.INFEASIBLE: good=(tc is None)
    else: good=(tc is not None and abs(r.objective-tc)<1e-9)
    broke='first_break' in state
    tab[("result_ok" if good else "RESULT_WRONG", "tree_broken" if broke else "tree_ok")]+=1
    if (not good and not broke) and len(ex)<3: ex.append((n,arcs,supl,r.status.name,r.objective,tc))
    if broke and len(ex)<6 and good: pass
print(dict(tab)); print(ex)
print(state.get('first_break'))
