import random, importlib, time, sys
src=open('p_flow.py').read()
from collections import defaultdict
start=src.index("def ref_mcf"); end=src.index("for it in range(N):")
exec(src[start:end])
NS=importlib.import_module("solvor.network_simplex")
from solvor.types import Status
rng=random.Random(7); bad=0; t0=time.time(); mx=0
for it in range(300):
    n=rng.randint(10,30); nodes=list(range(n)); arcs=[]
    for _ in range(rng.randint(2*n,4*n)):
        u,v=rng.sample(nodes,2); arcs.append((u,v,rng.choice([1,2,3,5,8]),rng.choice([0,1,2,3,5,8,13])))
    supl=[0]*n
    for _ in range(rng.randint(2,6)):
        a,b_=rng.sample(nodes,2); q=rng.randint(1,4); supl[a]+=q; supl[b_]-=q
    tc=ref_mcf(nodes,arcs,dict(zip(nodes,supl)))
    r=NS.network_simplex(n,arcs,supl,max_iter=20000)
    mx=max(mx,r.iterations)
    good=(tc is None) if r.status==Status.INFEASIBLE else (tc is not None and abs(r.objective-tc)<1e-9)
    if not good: bad+=1
print("big: bad",bad,"of 300; max pivots",mx,round(time.time()-t0,1),"s")
