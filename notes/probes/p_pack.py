import random, sys, itertools, math, signal
from fractions import Fraction as F
from solvor import *
from solvor.types import Status
class TO(Exception): pass
def handler(s,f): raise TO()
signal.signal(signal.SIGALRM, handler)
rng=random.Random(int(sys.argv[1])); N=int(sys.argv[2])
stats={}; examples={}
def note(k,ex):
    stats[k]=stats.get(k,0)+1
    examples.setdefault(k,[])
    if len(examples[k])<3: examples[k].append(ex)
def best_bins(sizes,cap):
    n=len(sizes); sizes=sorted(sizes,reverse=True)
    best=[n]
    def rec(i,loads):
        if len(loads)>=best[0]: return
        if i==n: best[0]=len(loads); return
        s=sizes[i]; seen=set()
        for b in range(len(loads)):
            if loads[b]+s<=cap and loads[b] not in seen:
                seen.add(loads[b]); loads[b]+=s; rec(i+1,loads); loads[b]-=s
        loads.append(s); rec(i+1,loads); loads.pop()
    rec(0,[]); return best[0]
for it in range(N):
    # knapsack
    n=rng.randint(1,7)
    dec=rng.random()<0.4
    if dec:
        w=[rng.choice([0,0.5,1.25,2.1,0.3,3.7,0.07,1.1,2.75]) for _ in range(n)]; cap=rng.choice([0,0.5,2.2,3.3,5.05,7.1,1.1])
    else:
        w=[rng.choice([0,1,2,3,4,5,7]) for _ in range(n)]; cap=rng.choice([0,1,3,5,8,10,12])
    v=[rng.choice([0,1,2,3,5,8,1.5]) for _ in range(n)]
    for mn in (False,True):
        r=solve_knapsack(v,w,cap,minimize=mn)
        sel=r.solution
        case=(v,w,cap,mn)
        Fw=[F(str(x)) for x in w]; Fv=[F(str(x)) for x in v]; Fc=F(str(cap))
        if len(set(sel))!=len(sel) or any(not(0<=i<n) for i in sel): note("ks:BAD_INDICES",case+(sel,)); continue
        if sum(Fw[i] for i in sel)>Fc: note(f"ks:OVERWEIGHT dec={dec}",case+(sel,)); continue
        if abs(sum(v[i] for i in sel)-r.objective)>1e-9: note("ks:OBJ_MISMATCH",case+(sel,r.objective)); continue
        best=None
        for mask in range(1<<n):
            S=[i for i in range(n) if mask>>i&1]
            if sum(Fw[i] for i in S)<=Fc:
                val=sum(Fv[i] for i in S)
                if best is None or (val<best if mn else val>best): best=val
        if r.status==Status.OPTIMAL:
            if abs(F(str(r.objective))-best)>F(1,10**9): note(f"ks:OPTIMAL_SUBOPT dec={dec} cap0={cap==0}",case+(r.objective,float(best)))
            else: note("ks:ok",None)
        else: note(f"ks:{r.status.name}",None)
    # bin pack
    n=rng.randint(1,8)
    if rng.random()<0.4:
        sizes=[rng.choice([0,0.1,0.2,0.3,0.25,0.5,0.7,0.15]) for _ in range(n)]; cap=rng.choice([1.0,0.7,1.5])
    else:
        sizes=[rng.choice([0,1,2,3,4,5,6]) for _ in range(n)]; cap=rng.choice([6,7,10])
    opt=best_bins([F(str(s)) for s in sizes if s>0],F(str(cap))) if any(s>0 for s in sizes) else 1
    for alg in ["first-fit","best-fit","first-fit-decreasing","best-fit-decreasing"]:
        r=solve_bin_pack(sizes,cap,algorithm=alg)
        a=r.solution; k=int(r.objective)
        case=(sizes,cap,alg)
        if len(a)!=n or sorted(set(a))!=list(range(k)): note("bp:BAD_NUMBERING",case+(a,k)); continue
        loads=[sum(F(str(sizes[i])) for i in range(n) if a[i]==b) for b in range(k)]
        if any(l>F(str(cap)) for l in loads): note("bp:OVERLOAD",case+(a,)); continue
        lb=math.ceil(sum(F(str(s)) for s in sizes)/F(str(cap)))
        if k<lb: note("bp:BELOW_LB",case)
        if k<opt: note("bp:BELOW_OPT?!",case)
        if "decreasing" in alg and k>F(11,9)*opt+F(6,9): note("bp:FFD_BOUND",case+(k,opt))
        if r.status==Status.OPTIMAL and k!=opt: note("bp:OPTIMAL_NOT_MIN",case+(k,opt))
        else: note("bp:ok",None)
    # cutting stock
    W=rng.randint(4,12); m=rng.randint(1,4)
    sizes=sorted(set(rng.randint(1,W) for _ in range(m)))
    dem=[rng.randint(0,5) for _ in sizes]
    # exact optimum by DP over demand vectors
    from functools import lru_cache
    pats=[p for p in itertools.product(*[range(0,W//s+1) for s in sizes]) if sum(a*s for a,s in zip(p,sizes))<=W and any(p)]
    maxpats=[p for p in pats if not any(all(q[i]>=p[i] for i in range(len(p))) and q!=p for q in pats)]
    @lru_cache(None)
    def opt_rolls(d):
        if not any(d): return 0
        return 1+min(opt_rolls(tuple(max(0,x-a) for x,a in zip(d,p))) for p in maxpats if any(a>0 and x>0 for x,a in zip(d,p)))
    topt=opt_rolls(tuple(dem))
    for name,fn in (("cg",solve_cg),("bp_",solve_bp)):
        case=(dem,W,sizes)
        signal.alarm(20)
        try: r=fn(dem,roll_width=W,piece_sizes=sizes); signal.alarm(0)
        except TO: note(f"{name}:HANG",case); continue
        except Exception as e: signal.alarm(0); note(f"{name}:EXC {type(e).__name__}",case+(str(e),)); continue
        if r.status in (Status.OPTIMAL,Status.FEASIBLE):
            plan=r.solution
            if any(sum(a*s for a,s in zip(p,sizes))>W or any(a<0 for a in p) for p in plan) or any(c<0 or c!=int(c) for c in plan.values()): note(f"{name}:BAD_PATTERN",case+(plan,)); continue
            if any(sum(p[i]*c for p,c in plan.items())<dem[i] for i in range(len(dem))): note(f"{name}:DEMAND_MISSED[{r.status.name}]",case+(plan,)); continue
            if abs(sum(plan.values())-r.objective)>1e-9: note(f"{name}:OBJ_MISMATCH",case+(plan,r.objective)); continue
            if r.objective<topt-1e-9: note(f"{name}:BELOW_OPT",case)
            elif r.status==Status.OPTIMAL and r.objective>topt+1e-9: note(f"{name}:OPTIMAL_NOT_MIN",case+(r.objective,topt))
            else: note(f"{name}:ok[{r.status.name}]",None)
        else: note(f"{name}:{r.status.name}",case+(r.error,))
print({k:stats[k] for k in sorted(stats)})
for k,v in sorted(examples.items()):
    if v and v[0] is not None:
        print(k)
        for e in v: print("   ",str(e)[:400])
