import importlib.util, importlib.machinery, sys, shutil, tempfile, os, random
so=sys.argv[1]
d=tempfile.mkdtemp(); dst=os.path.join(d,"_solvor_rust.cpython-312-x86_64-linux-gnu.so"); shutil.copy(so,dst)
loader=importlib.machinery.ExtensionFileLoader("solvor._solvor_rust",dst)
spec=importlib.util.spec_from_file_location("solvor._solvor_rust",dst,loader=loader)
mod=importlib.util.module_from_spec(spec); spec.loader.exec_module(mod); sys.modules["solvor._solvor_rust"]=mod
import solvor; solvor._solvor_rust=mod
from solvor import pagerank_edges
rng=random.Random(1); diff=0; tot=0; md=0
for it in range(4000):
    n=rng.randint(1,9); e=[(rng.randrange(n),rng.randrange(n)) for _ in range(rng.randint(0,14))]
    dmp=rng.choice([0.5,0.85,0.95,0.99]); mi=rng.choice([100,20,60])
    a=pagerank_edges(n,e,damping=dmp,max_iter=mi,backend="python"); b=pagerank_edges(n,e,damping=dmp,max_iter=mi,backend="rust")
    tot+=1
    if a.status!=b.status: diff+=1
    md=max(md,max(abs(a.solution[i]-b.solution[i]) for i in range(n)))
print("status diffs",diff,"of",tot,"max score diff",md)
shutil.rmtree(d)
