import sys, time, random, importlib
SAT=importlib.import_module("solvor.sat")
mon=sys.monitoring; TOOL=4; mon.use_tool_id(TOOL,"m")
cnt={}
def on_start(code,off):
    if not code.co_filename.endswith("solvor/sat.py"): return mon.DISABLE
    if code.co_name in ("reduce_db","analyze","unassign_to"):
        cnt[code.co_name]=cnt.get(code.co_name,0)+1
        if code.co_name=="reduce_db":
            f=sys._getframe(1); cnt['learned_at_reduce']=max(cnt.get('learned_at_reduce',0),len(f.f_locals['learned']))
    else: return mon.DISABLE
mon.register_callback(TOOL,mon.events.PY_START,on_start); mon.set_events(TOOL,mon.events.PY_START)
def php(p,h):
    v=lambda i,j:i*h+j+1
    cl=[[v(i,j) for j in range(h)] for i in range(p)]
    for j in range(h):
        for a in range(p):
            for b in range(a+1,p): cl.append([-v(a,j),-v(b,j)])
    return cl
def sat_ok(sol,clauses): return all(any(sol.get(abs(l))==(l>0) for l in c) for c in clauses)
for name,cl,exp in [("php(7,6)",php(7,6),"UNSAT"),("php(8,7)",php(8,7),"UNSAT")]:
    cnt.clear(); t=time.time(); r=SAT.solve_sat(cl,luby_factor=20); print(name,r.status.name,"exp",exp,round(time.time()-t,1),"s",cnt)
rng=random.Random(5)
for n in (60,90):
    plant=[rng.random()<.5 for _ in range(n+1)]; cl=[]
    while len(cl)<int(4.2*n):
        c=[v if rng.random()<.5 else -v for v in rng.sample(range(1,n+1),3)]
        if any(plant[abs(l)]==(l>0) for l in c): cl.append(c)
    cnt.clear(); t=time.time(); r=SAT.solve_sat(cl,luby_factor=20); print("planted",n,r.status.name,sat_ok(r.solution,cl) if r.solution else None,round(time.time()-t,1),"s",cnt)
    cnt.clear(); t=time.time(); r=SAT.solve_sat(cl,luby_factor=20,solution_limit=30); 
    sols=r.solutions or []
    print("  enum",r.status.name,len(sols),all(sat_ok(s,cl) for s in sols),len({tuple(sorted(s.items())) for s in sols}),round(time.time()-t,1),"s",cnt)
