import importlib, time, random
SAT=importlib.import_module("solvor.sat")
rng=random.Random(3)
n=13
cl=[[v if rng.random()<.5 else -v for v in rng.sample(range(1,n+1),3)] for _ in range(8)]
def cnt(cl,n):
    c=0
    for bits in range(1<<n):
        if all(any(((bits>>(abs(l)-1))&1)==(l>0) for l in c_) for c_ in cl): c+=1
    return c
total=cnt(cl,n); print("models",total)
for lf in (1,5,100):
    t=time.time(); r=SAT.solve_sat(cl,solution_limit=10**6,luby_factor=lf)
    sols=r.solutions or []
    print("luby_factor",lf,r.status.name,len(sols),"distinct",len({tuple(sorted(s.items())) for s in sols}),"valid",all(all(any(s.get(abs(l))==(l>0) for l in c) for c in cl) for s in sols),round(time.time()-t,1),"s")
