import importlib, time, random, sys
SAT=importlib.import_module("solvor.sat")
mon=sys.monitoring; TOOL=4; mon.use_tool_id(TOOL,"m"); ev=[]
def on_start(code,off):
    if not code.co_filename.endswith("solvor/sat.py") or code.co_name!="reduce_db": return mon.DISABLE
    f=sys._getframe(1); ev.append(len(f.f_locals['learned']))
mon.register_callback(TOOL,mon.events.PY_START,on_start); mon.set_events(TOOL,mon.events.PY_START)
rng=random.Random(3)
n=14
cl=[[v if rng.random()<.5 else -v for v in rng.sample(range(1,n+1),3)] for _ in range(10)]
for lf in (1,3):
    ev.clear(); t=time.time(); r=SAT.solve_sat(cl,solution_limit=10**6,luby_factor=lf)
    sols=r.solutions or []
    print("luby_factor",lf,r.status.name,len(sols),"distinct",len({tuple(sorted(s.items())) for s in sols}),round(time.time()-t,1),"s","reduce_db calls",len(ev),"with>=2000:",sum(1 for e in ev if e>=2000),"max learned",max(ev) if ev else 0)
