import random, itertools, sys, time, signal
from solvor.sat import solve_sat
from solvor.types import Status

class TO(Exception): pass
def handler(s,f): raise TO()
signal.signal(signal.SIGALRM, handler)

def brute(clauses, assumptions, n):
    models=[]
    for bits in range(1<<n):
        val=lambda l: ((bits>>(abs(l)-1))&1)==(1 if l>0 else 0)
        if all(any(val(l) for l in c) for c in clauses) and all(val(a) for a in assumptions):
            models.append(bits)
    return models

def sat_ok(sol, clauses, assumptions):
    def val(l):
        v=sol.get(abs(l))
        if v is None: return None
        return v==(l>0)
    for c in clauses:
        if not any(val(l) is True for l in c): return False
    for a in assumptions:
        if val(a) is not True: return False
    return True

rng=random.Random(int(sys.argv[1]) if len(sys.argv)>1 else 0)
stats={}
examples={}
def note(k,ex):
    stats[k]=stats.get(k,0)+1
    examples.setdefault(k,[])
    if len(examples[k])<3: examples[k].append(ex)
N=int(sys.argv[2]) if len(sys.argv)>2 else 3000
for it in range(N):
    n=rng.randint(1,8)
    m=rng.randint(1,int(4.5*n)+2)
    clauses=[]
    for _ in range(m):
        k=rng.choice([1,2,2,3,3,3,4])
        k=min(k,n)
        vs=rng.sample(range(1,n+1),k)
        clauses.append([v if rng.random()<0.5 else -v for v in vs])
    assumptions=[]
    if rng.random()<0.3:
        for v in rng.sample(range(1,n+1),rng.randint(1,min(2,n))):
            assumptions.append(v if rng.random()<0.5 else -v)
    limit=rng.choice([1,1,2,5,50])
    kw={}
    if rng.random()<0.4:
        kw=dict(luby_factor=rng.choice([1,2,100]),max_restarts=rng.choice([0,5,10000]),max_conflicts=rng.choice([1,10,500,100000]))
    nv=max(abs(l) for c in clauses for l in c)
    models=brute(clauses,assumptions,nv)
    signal.alarm(3)
    try:
        r=solve_sat(clauses,assumptions=assumptions,solution_limit=limit,**kw)
        signal.alarm(0)
    except TO:
        note("HANG",(clauses,assumptions,limit,kw)); continue
    except Exception as e:
        signal.alarm(0)
        note("EXC:"+type(e).__name__,(clauses,assumptions,limit,kw,str(e))); continue
    case=(clauses,assumptions,limit,kw)
    if r.status==Status.INFEASIBLE:
        if models: note("WRONG_UNSAT",case)
        else: note("ok_unsat",None)
    elif r.status in (Status.OPTIMAL,Status.MAX_ITER):
        sols=[]
        if r.solution is not None: sols.append(r.solution)
        if r.solutions: sols+=list(r.solutions)
        if r.status==Status.OPTIMAL and not models: note("SAT_ON_UNSAT",case)
        bad=[s for s in sols if not sat_ok(s,clauses,assumptions)]
        if bad: note("BAD_MODEL",case+(bad[0],))
        if r.solutions and len(set(tuple(sorted(s.items())) for s in r.solutions))!=len(r.solutions): note("DUP",case)
        if r.status==Status.MAX_ITER: note("maxiter",None)
        elif not bad: note("ok_sat",None)
        if r.status==Status.OPTIMAL and limit>1 and r.solutions is not None and len(r.solutions)<min(limit,10**9) :
            # fewer than limit: should have enumerated all? count distinct full models restricted
            pass
print(stats)
for k,v in examples.items():
    if v and v[0] is not None:
        print(k)
        for e in v: print("   ",e)
