import random, sys, time, signal, itertools
from solvor.sat import solve_sat
from solvor.types import Status
class TO(Exception): pass
def handler(s,f): raise TO()
signal.signal(signal.SIGALRM, handler)
rng=random.Random(int(sys.argv[1])); N=int(sys.argv[2])
stats={}; examples={}
def note(k,ex):
    stats[k]=stats.get(k,0)+1
    examples.setdefault(k,[])
    if len(examples[k])<3: examples[k].append(ex)
def count_models(clauses,n):
    # bitset model enumeration
    cnt=0; first=None
    for bits in range(1<<n):
        ok=True
        for c in clauses:
            for l in c:
                if ((bits>>(abs(l)-1))&1)==(l>0): break
            else: ok=False; break
        if ok:
            cnt+=1
            if first is None: first=bits
    return cnt
def sat_ok(sol,clauses):
    return all(any(sol.get(abs(l))==(l>0) for l in c) for c in clauses)
def php(p,h):
    v=lambda i,j:i*h+j+1
    cl=[[v(i,j) for j in range(h)] for i in range(p)]
    for j in range(h):
        for a in range(p):
            for b in range(a+1,p): cl.append([-v(a,j),-v(b,j)])
    return cl
t0=time.time()
for it in range(N):
    kind=rng.random()
    if kind<0.6:
        n=rng.randint(10,14); m=int(n*rng.uniform(3.5,5.0))
        cl=[[v if rng.random()<.5 else -v for v in rng.sample(range(1,n+1),3)] for _ in range(m)]
        if rng.random()<0.3: cl.append([rng.choice([1,-1])*rng.randint(1,n)])
        nm=count_models(cl,n)
    elif kind<0.8:
        n=rng.randint(30,60); m=int(n*4.0)
        plant=[rng.random()<.5 for _ in range(n+1)]
        cl=[]
        while len(cl)<m:
            c=[v if rng.random()<.5 else -v for v in rng.sample(range(1,n+1),3)]
            if any(plant[abs(l)]==(l>0) for l in c): cl.append(c)
        nm=-1 # >=1
    else:
        h=rng.randint(3,5); cl=php(h+1,h); rng.shuffle(cl); nm=0; n=(h+1)*h
    kw=dict(luby_factor=rng.choice([1,2,5,100]),max_conflicts=rng.choice([50,2000,100000]),max_restarts=rng.choice([3,50,10000]))
    lim=rng.choice([1,1,1,3,20])
    signal.alarm(60)
    try: r=solve_sat(cl,solution_limit=lim,**kw); signal.alarm(0)
    except TO: note("HANG",(n,len(cl),lim,kw)); continue
    tag=f"n={'big' if n>=30 else 'mid'}"
    if r.status==Status.INFEASIBLE:
        note("WRONG_UNSAT" if nm!=0 else "ok_unsat",(cl,lim,kw) if nm!=0 else None)
    elif r.status==Status.OPTIMAL:
        sols=[r.solution]+list(r.solutions or [])
        if nm==0: note("SAT_ON_UNSAT",(cl,lim,kw))
        elif not all(sat_ok(s,cl) for s in sols): note("BAD_MODEL",(cl,lim,kw))
        elif r.solutions and len({tuple(sorted(s.items())) for s in r.solutions})!=len(r.solutions): note("DUP",(cl,lim,kw))
        else: note("ok_sat",None)
    else:
        sols=([r.solution] if r.solution else [])+list(r.solutions or [])
        if not all(sat_ok(s,cl) for s in sols): note("BAD_MODEL_MAXITER",(cl,lim,kw))
        note("maxiter",None)
print({k:stats[k] for k in sorted(stats)}, round(time.time()-t0,1))
for k,v in sorted(examples.items()):
    if v and v[0] is not None:
        print(k)
        for e in v: print("   ",str(e)[:300])
