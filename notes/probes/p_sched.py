import random, sys, math, signal
from solvor import *
import solvor.vrp as V
from solvor.types import Status
rng=random.Random(int(sys.argv[1])); N=int(sys.argv[2])
stats={}; examples={}
def note(k,ex):
    stats[k]=stats.get(k,0)+1
    examples.setdefault(k,[])
    if len(examples[k])<3: examples[k].append(ex)
for it in range(N):
    nj=rng.randint(1,4)
    jobs=[[(rng.randint(0,3),rng.choice([0,1,2,3,5])) for _ in range(rng.randint(1,4))] for _ in range(nj)]
    rule=rng.choice(["spt","lpt","fifo","mwkr","random"])
    kw=dict(rule=rule,seed=rng.randint(0,9),max_iter=rng.choice([1,5,50]),local_search=rng.random()<0.8)
    r=solve_job_shop(jobs,**kw)
    s=r.solution; case=(jobs,kw)
    ok=set(s)=={(j,o) for j,job in enumerate(jobs) for o in range(len(job))}
    if ok:
        for (j,o),(st,en) in s.items():
            if en-st!=jobs[j][o][1] or st<0: ok=False
            if o>0 and s[(j,o-1)][1]>st: ok=False
        ops=list(s.items())
        for a in range(len(ops)):
            for b in range(a+1,len(ops)):
                (j1,o1),(s1,e1)=ops[a]; (j2,o2),(s2,e2)=ops[b]
                if jobs[j1][o1][0]==jobs[j2][o2][0] and s1<e2 and s2<e1: ok=False
        if r.objective!=max(e for _,e in s.values()): ok=False
    note("js:ok" if ok else "js:BAD",None if ok else case+(s,r.objective))
# VRP with operator-level monitoring
viol={}
def check_state(st,where):
    n=len(st.customers)-1
    probs=[]
    for cid in range(1,n+1):
        c=st.customers[cid]
        on=[v for v,r in enumerate(st.routes) if cid in r]
        cnt=[r.count(cid) for r in st.routes]
        if not on and cid not in st.unassigned: probs.append("LOST")
        if on and cid in st.unassigned: probs.append("BOTH")
        if any(k>1 for k in cnt): probs.append("TWICE_ON_ROUTE")
        if c.required_vehicles==1 and len(on)>1: probs.append("SINGLE_ON_MULTI_ROUTES")
    for v in range(len(st.routes)):
        if st.arrival_times[v]!=st.compute_arrival_times(v): probs.append("STALE_ARRIVALS")
    if 0 in st.unassigned or any(0 in r for r in st.routes): probs.append("DEPOT")
    return sorted(set(probs))
ops=["random_removal","worst_removal","related_removal","route_removal","sync_removal","greedy_insertion","regret_insertion","sync_aware_insertion"]
orig={o:getattr(V,o) for o in ops}
cur={"in_bad":False}
def mk(name):
    def w(state,rng_,*a,**k):
        pre=check_state(state,name)
        out=orig[name](state,rng_,*a,**k)
        post=check_state(out,name)
        new=[p for p in post if p not in pre]
        for p in new: note(f"vrp-op:{name}:{p}",None)
        if not new: note(f"vrp-op:{name}:ok",None)
        return out
    return w
for o in ops: setattr(V,o,mk(o))
for it in range(N//5):
    n=rng.randint(2,8)
    custs=[]
    multi=rng.random()<0.5
    for i in range(1,n+1):
        tw0=rng.choice([0,0,5,10]); 
        custs.append(V.Customer(i,rng.randint(-10,10),rng.randint(-10,10),rng.choice([0,1,2,5]),tw0,tw0+rng.choice([5,20,float('inf')]),rng.choice([0,1,3]),rng.choice([1,1,2,3]) if multi else 1))
    nv=rng.randint(1,4)
    r=solve_vrptw(custs,nv,vehicle_capacity=rng.choice([5,10,float('inf')]),max_iter=rng.choice([20,100]),seed=rng.randint(0,99))
    st=r.solution
    p=check_state(st,"final")
    obj=V.vrp_objective(st)
    if abs(obj-r.objective)>1e-6*max(1,abs(obj)): p.append("OBJ_MISMATCH")
    note("vrp-final:"+(",".join(p) if p else "ok")+f" multi={multi}",None)
print({k:stats[k] for k in sorted(stats)})
for k,v in sorted(examples.items()):
    if v and v[0] is not None:
        print(k)
        for e in v: print("   ",str(e)[:400])
