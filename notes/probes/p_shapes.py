import random, itertools, sys, signal
from collections import defaultdict
from solvor.cp import Model, IntVar, Expr
from solvor.types import Status
exec(open('p_cp.py').read().split("def gen(rng):")[0].split("class TO")[0])
src=open('p_cp.py').read()
exec(src[src.index("def ev("):src.index("def gen(rng):")])
def sig(e):
    if isinstance(e,int): return "c"
    if isinstance(e,IntVar): return "v"
    if isinstance(e,Expr): return sig(e.data)
    op=e[0]
    if op=="mul":
        k=e[2]; return f"mul({sig(e[1])},{'neg' if k<0 else k if k in (0,1) else 'k'})"
    return f"{op}({sig(e[1])},{sig(e[2])})"
def build(shape_fn):
    m=Model(); vs=[m.int_var(lb,ub,n) for n,lb,ub in (("x",-1,2),("y",0,3),("z",1,2))]
    c=shape_fn(*vs); return m,vs,c
x_shapes={
 "x+y==c": lambda x,y,z:(x+y==3),
 "c==x+y": lambda x,y,z:(3==x+y),
 "x+y!=c": lambda x,y,z:(x+y!=3),
 "x-y==c": lambda x,y,z:(x-y==1),
 "x-y!=c": lambda x,y,z:(x-y!=1),
 "x-y==z": lambda x,y,z:(x-y==z),
 "x+y==z": lambda x,y,z:(x+y==z),
 "x+y!=z": lambda x,y,z:(x+y!=z),
 "x+c==y": lambda x,y,z:(x+1==y),
 "x+c!=y+d": lambda x,y,z:(x+1!=y+2),
 "x==y+c": lambda x,y,z:(x==y+1),
 "x+c==d": lambda x,y,z:(x+1==2),
 "c+x!=d": lambda x,y,z:(1+x!=2),
 "2*x==y": lambda x,y,z:(2*x==y),
 "x*2==y+c": lambda x,y,z:(x*2==y+1),
 "2*x==c": lambda x,y,z:(2*x==2),
 "-1*x==y-3"if False else "x*-1==c": lambda x,y,z:(x*-1==1),
 "c-x==y": lambda x,y,z:(2-x==y),
 "c-x==d": lambda x,y,z:(2-x==1),
 "x+y+z==c": lambda x,y,z:(x+y+z==4),
 "x+y+z!=c": lambda x,y,z:(x+y+z!=4),
 "x+y==z+c": lambda x,y,z:(x+y==z+1),
 "(x-y)+c==d": lambda x,y,z:((x-y)+1==2),
 "x-c==y": lambda x,y,z:(x-1==y),
 "x==y": lambda x,y,z:(x==y), "x!=y": lambda x,y,z:(x!=y), "x==c": lambda x,y,z:(x==1), "x!=c": lambda x,y,z:(x!=1),
 "x-(y+c)==d": lambda x,y,z:(x-(y+1)==0),
 "x+x==c": lambda x,y,z:(x+x==2),
 "x+x==y": lambda x,y,z:(x+x==y),
 "0*x==c0": lambda x,y,z:(0*x==0),
}
for name,fn in x_shapes.items():
    row=[]
    for solver in ("dfs","sat"):
        m,vs,c=build(fn); m.add(c)
        names=[v.name for v in vs]; doms=[range(v.lb,v.ub+1) for v in vs]
        truth={t for t in itertools.product(*doms) if holds(c,dict(zip(names,t)))}
        try:
            r=m.solve(solver=solver,solution_limit=10**6)
            if r.status==Status.INFEASIBLE: got=set()
            else:
                sols=list(r.solutions) if r.solutions else [r.solution]
                got={tuple(s.get(n) for n in names) for s in sols}
            verdict="ok" if got==truth else ("EXTRA" if got-truth else "")+("MISSING" if truth-got else "")
        except Exception as e: verdict="EXC:"+type(e).__name__
        row.append(verdict)
    print(f"{name:14s} tuple={str(c[0]):8s} L={sig(c[1]):28s} R={sig(c[2]) if len(c)>2 else '':22s} dfs={row[0]:14s} sat={row[1]}")
