import random, sys, itertools, math
from fractions import Fraction as F
from functools import lru_cache
from collections import defaultdict
from solvor import *
from solvor.types import Status
from exact_lp import solve_exact
rng=random.Random(int(sys.argv[1])); N=int(sys.argv[2])
stats={}; examples={}
def note(k,ex):
    stats[k]=stats.get(k,0)+1
    examples.setdefault(k,[])
    if len(examples[k])<3: examples[k].append(ex)
for it in range(N):
    # 1. DLX limits
    nr=rng.randint(1,7); nc=rng.randint(1,4)
    M=[[1 if rng.random()<0.45 else 0 for _ in range(nc)] for _ in range(nr)]
    usable=[i for i in range(nr) if any(M[i])]
    truth={frozenset(S) for k in range(len(usable)+1) for S in itertools.combinations(usable,k) if all(sum(M[i][j] for i in S)==1 for j in range(nc))}
    ms=rng.choice([1,2,3]); r=solve_exact_cover(M,find_all=True,max_solutions=ms)
    if truth:
        got=[frozenset(s) for s in r.solution]
        exp_n=min(ms,len(truth))
        if len(got)!=exp_n or not set(got)<=truth or len(set(got))!=len(got): note("dlx:maxsol COUNT/VALID",(M,ms,r.solution))
        elif (r.status==Status.FEASIBLE)!=(len(got)>=ms): note(f"dlx:maxsol status {r.status.name} got={len(got)} ms={ms} total={len(truth)}",None)
        else: note("dlx:maxsol ok",None)
    elif r.status!=Status.INFEASIBLE: note("dlx:maxsol NOT_INF",(M,))
    mi=rng.choice([1,2,5]); r=solve_exact_cover(M,find_all=True,max_iter=mi)
    if r.status==Status.MAX_ITER:
        if r.solution is not None and not set(map(frozenset,r.solution))<=truth: note("dlx:maxiter BAD_PARTIAL",(M,mi))
        else: note("dlx:maxiter MAX_ITER",None)
    elif r.status==Status.OPTIMAL:
        if set(map(frozenset,r.solution))!=truth: note("dlx:maxiter OPTIMAL_INCOMPLETE",(M,mi,r.solution))
        else: note("dlx:maxiter complete",None)
    elif r.status==Status.INFEASIBLE and truth: note("dlx:maxiter WRONG_INF",(M,mi))
    # 2. simplex small max_iter
    n=rng.randint(1,4); m=rng.randint(1,5)
    A=[[rng.choice([0,1,1,2,-1,-2,3]) for _ in range(n)] for _ in range(m)]; b=[rng.choice([0,1,2,4,6,-1,-3,5]) for _ in range(m)]
    c=[rng.choice([0,1,-1,2,-2,3]) for _ in range(n)]; mn=rng.random()<.5
    st,x,obj=solve_exact(c,A,b,mn)
    mi=rng.choice([0,1,2,3])
    r=solve_lp(c,A,b,minimize=mn,max_iter=mi)
    got={Status.OPTIMAL:'optimal',Status.INFEASIBLE:'infeasible',Status.UNBOUNDED:'unbounded',Status.MAX_ITER:'maxiter'}[r.status]
    if got!='maxiter' and got!=st: note(f"lp:maxiter={mi} exp={st} got={got}",(c,A,b,mn,mi))
    elif got=='optimal' and abs(r.objective-float(obj))>1e-6: note("lp:maxiter SUBOPT_OPTIMAL",(c,A,b,mn,mi))
    else: note(f"lp:maxiter {got}",None)
    # 3. knapsack decimals exact regime
    n=rng.randint(1,8)
    w=[rng.choice([0,rng.randint(1,9999)/1000,rng.randint(1,99)/100,rng.randint(1,50)/10]) for _ in range(n)]
    cap=rng.choice([rng.randint(1,99999)/1000,rng.randint(1,999)/100,rng.randint(1,99)])
    v=[rng.choice([0,1,2,3,5,8,1.5,0.25]) for _ in range(n)]
    r=solve_knapsack(v,w,cap)
    Fw=[F(str(x)) for x in w]; Fv=[F(str(x)) for x in v]; Fc=F(str(cap))
    sel=r.solution
    if sum(Fw[i] for i in sel)>Fc: note("ks:OVERWEIGHT",(v,w,cap,sel))
    else:
        best=max(sum(Fv[i] for i in range(n) if mask>>i&1) for mask in range(1<<n) if sum(Fw[i] for i in range(n) if mask>>i&1)<=Fc)
        if r.status==Status.OPTIMAL and abs(F(str(r.objective))-best)>F(1,10**9): note("ks:dec OPTIMAL_SUBOPT",(v,w,cap,sel,r.objective,float(best)))
        else: note(f"ks:dec {r.status.name}",None)
    # 4. hungarian bigger via DP
    nn=rng.randint(6,9); Mx=[[rng.choice([-4,-1,0,0,1,1,2,3,7,2.5]) for _ in range(nn)] for _ in range(nn)]
    @lru_cache(None)
    def dp(i,mask):
        if i==nn: return 0
        return min(Mx[i][j]+dp(i+1,mask|1<<j) for j in range(nn) if not mask>>j&1)
    r=solve_hungarian(Mx)
    if abs(r.objective-dp(0,0))>1e-9 or sorted(r.solution)!=list(range(nn)): note("hung:big WRONG",(Mx,))
    else: note("hung:big ok",None)
    dp.cache_clear()
    # 12. MILP unbounded / int-infeasible
    n=rng.randint(1,3); m=rng.randint(1,3)
    A=[[rng.choice([0,1,2,-1,-2,3]) for _ in range(n)] for _ in range(m)]; b=[rng.choice([0,1,2,4,-1,-3,5]) for _ in range(m)]
    c=[rng.choice([0,1,-1,2,-2]) for _ in range(n)]; ints=sorted(rng.sample(range(n),rng.randint(1,n))); mn=rng.random()<.5
    st,x,obj=solve_exact(c,A,b,mn)
    try:
        r=solve_milp(c,A,b,ints,minimize=mn,max_nodes=300)
        if r.status==Status.UNBOUNDED and st!='unbounded': note("milp:UNBOUNDED_but_relaxation_"+st,(c,A,b,ints,mn))
        elif r.status==Status.INFEASIBLE and st=='optimal':
            # check for integer point by bounded enumeration 0..8
            ok=any(all(sum(a*xi for a,xi in zip(row,p))<=bi for row,bi in zip(A,b)) for p in itertools.product(range(0,9),repeat=n)) if len(ints)==n else None
            if ok: note("milp:INFEASIBLE_but_int_point",(c,A,b,ints,mn))
            else: note("milp:inf(?)",None)
        elif r.status in (Status.OPTIMAL,Status.FEASIBLE):
            xs=r.solution
            if not(all(vv>=-1e-6 for vv in xs) and all(abs(xs[j]-round(xs[j]))<1e-6 for j in ints) and all(sum(a*vv for a,vv in zip(row,xs))<=bi+1e-6 for row,bi in zip(A,b))): note("milp:INFEAS_SOL",(c,A,b,ints,mn,xs))
            elif st=='optimal' and ((r.objective<float(obj)-1e-6) if mn else (r.objective>float(obj)+1e-6)): note("milp:BETTER_THAN_LP?!",(c,A,b,ints,mn))
            elif st!='optimal': note(f"milp:SOL_but_relaxation_{st}",(c,A,b,ints,mn,r.status.name,xs))
            else: note("milp:sol ok",None)
        else: note("milp:"+r.status.name+f"(relax={st})",None)
    except Exception as e: note("milp:EXC "+type(e).__name__,(c,A,b,ints,mn))
print({k:stats[k] for k in sorted(stats)})
for k,v in sorted(examples.items()):
    if v and v[0] is not None:
        print(k)
        for e in v: print("   ",str(e)[:300])
