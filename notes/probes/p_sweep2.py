import random, sys, itertools, math
from fractions import Fraction as F
from collections import defaultdict
from solvor import *
from solvor.types import Status
rng=random.Random(int(sys.argv[1])); N=int(sys.argv[2])
stats={}; examples={}
def note(k,ex):
    stats[k]=stats.get(k,0)+1
    examples.setdefault(k,[])
    if len(examples[k])<3: examples[k].append(ex)
for it in range(N):
    # prim with labels, neighbour-only nodes, one-directional listing
    n=rng.randint(1,7); labels=rng.choice([[f"n{i}" for i in range(n)],[(i,i%2) for i in range(n)],list(range(n))])
    ed=[]
    for _ in range(rng.randint(0,12)):
        u,v=rng.choice(labels),rng.choice(labels); ed.append((u,v,rng.choice([-2,0,1,1,2,3,5])))
    g=defaultdict(list)
    for u,v,w in ed: g[u].append((v,w)); g[v].append((u,w))
    if rng.random()<0.5:
        for x in labels: g.setdefault(x,[])
    g=dict(g)
    nodes=set(g)|{v for u in g for v,_ in g[u]}
    if g:
        # reference
        idx={x:i for i,x in enumerate(nodes)}
        p=list(range(len(nodes)))
        def f(x):
            while p[x]!=x: p[x]=p[p[x]]; x=p[x]
            return x
        tw=0;cnt=0
        for u,v,w in sorted([(u,v,w) for u in g for v,w in g[u]],key=lambda e:e[2]):
            a,b=f(idx[u]),f(idx[v])
            if a!=b: p[a]=b; tw+=w; cnt+=1
        start=rng.choice(list(g.keys()))
        r=prim(g,start=start)
        if cnt==len(nodes)-1:
            if r.status!=Status.OPTIMAL or abs(r.objective-tw)>1e-9 or len(r.solution)!=len(nodes)-1: note("prim:WRONG",(g,start,r.status.name,r.objective,tw))
            else: note("prim:ok",None)
        elif r.status!=Status.INFEASIBLE: note("prim:NOT_INF",(g,start))
        else: note("prim:ok_inf",None)
    # louvain larger + fuel-ish (iterations)
    n=rng.randint(8,25); nb={i:[] for i in range(n)}
    for _ in range(rng.randint(n,3*n)):
        u,v=rng.randrange(n),rng.randrange(n); nb[u].append(v)
    res_=rng.choice([0.25,1.0,4.0])
    r=louvain(range(n),lambda x:nb[x],resolution=res_)
    flat=sorted(x for c in r.solution for x in c)
    if flat!=list(range(n)): note("louvain:NOT_PARTITION",None)
    elif r.iterations>200: note("louvain:many_iters",r.iterations)
    else: note("louvain:ok",None)
    # floyd undirected python vs reference
    n=rng.randint(1,6); e=[(rng.randrange(n),rng.randrange(n),rng.choice([0,1,2,3,5])) for _ in range(rng.randint(0,10))]
    INF=float('inf'); d=[[INF]*n for _ in range(n)]
    for i in range(n): d[i][i]=0
    for u,v,w in e: d[u][v]=min(d[u][v],w); d[v][u]=min(d[v][u],w)
    for k in range(n):
        for i in range(n):
            for j in range(n):
                if d[i][k]+d[k][j]<d[i][j]: d[i][j]=d[i][k]+d[k][j]
    for be in ("python","rust"):
        r=floyd_warshall(n,e,directed=False,backend=be)
        note(f"fw_und_{be}:ok" if r.solution==d else f"fw_und_{be}:WRONG",None if r.solution==d else (n,e))
    # cg / bp custom pricing over explicit columns
    m=rng.randint(1,3); cols=[tuple(rng.randint(0,2) for _ in range(m)) for _ in range(rng.randint(2,6))]
    cols=[c for c in set(cols) if any(c)]
    dem=[rng.randint(0,4) for _ in range(m)]
    if cols and all(any(c[i]>0 for c in cols) for i in range(m) if dem[i]>0) and any(dem):
        init=[c for c in cols if True][:max(1,len(cols)//2)]
        # ensure initial covers
        for i in range(m):
            if dem[i]>0 and not any(c[i]>0 for c in init): init.append(next(c for c in cols if c[i]>0))
        def pricing(duals):
            best=None;bv=0
            for c in cols:
                rc=1-sum(d_*ci for d_,ci in zip(duals,c))
                if rc<bv-1e-12: bv=rc;best=c
            return best,bv
        # exact integer optimum via DP
        from functools import lru_cache
        @lru_cache(None)
        def opt(dv):
            if not any(dv): return 0
            return 1+min(opt(tuple(max(0,x-a) for x,a in zip(dv,c))) for c in cols if any(a>0 and x>0 for x,a in zip(dv,c)))
        topt=opt(tuple(dem))
        for name,fn in (("cgc",solve_cg),("bpc",solve_bp)):
            try: r=fn(dem,pricing_fn=pricing,initial_columns=init,max_iter=60)
            except Exception as ex: note(f"{name}:EXC {type(ex).__name__}",(dem,cols,init)); continue
            if r.status in (Status.OPTIMAL,Status.FEASIBLE):
                plan=r.solution
                if any(sum(c[i]*k for c,k in plan.items())<dem[i] for i in range(m)): note(f"{name}:DEMAND_MISSED[{r.status.name}]",(dem,cols,init,plan))
                elif abs(sum(plan.values())-r.objective)>1e-9: note(f"{name}:OBJ_MISMATCH",(dem,cols,init,plan,r.objective))
                elif r.objective<topt-1e-9: note(f"{name}:BELOW_OPT",(dem,cols,init))
                elif r.status==Status.OPTIMAL and r.objective>topt+1e-9: note(f"{name}:OPTIMAL_NOT_MIN",(dem,cols,init,r.objective,topt))
                else: note(f"{name}:ok",None)
            else: note(f"{name}:{r.status.name}",None)
print({k:stats[k] for k in sorted(stats)})
for k,v in sorted(examples.items()):
    if v and v[0] is not None:
        print(k)
        for e in v: print("   ",str(e)[:300])
