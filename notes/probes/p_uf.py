import random
from solvor.utils.data_structures import UnionFind, FenwickTree
rng=random.Random(1); bad=0
for it in range(3000):
    n=rng.randint(1,8); uf=UnionFind(n); part=[{i} for i in range(n)]
    def cls(x): return next(s for s in part if x in s)
    for _ in range(rng.randint(0,25)):
        op=rng.choice("ufcqsg"); a=rng.randrange(n); b=rng.randrange(n)
        if op=="u":
            ca,cb=cls(a),cls(b); exp=ca is not cb
            if exp: part.remove(cb); ca|=cb
            if uf.union(a,b)!=exp: bad+=1
        elif op=="f":
            r=uf.find(a)
            if r not in cls(a): bad+=1
        elif op=="c":
            if uf.connected(a,b)!=(cls(a) is cls(b)): bad+=1
        elif op=="q":
            if uf.component_count!=len(part): bad+=1
        elif op=="s":
            if sorted(uf.component_sizes())!=sorted(len(s) for s in part): bad+=1
        else:
            if sorted(map(sorted,uf.get_components()))!=sorted(map(sorted,part)): bad+=1
    vals=[rng.randint(-5,5) for _ in range(n)]; ft=FenwickTree(list(vals)) if rng.random()<0.7 else FenwickTree(n)
    if len(ft._tree)==n and ft._tree==[0.0]*n and any(vals): vals=[0]*n
    for _ in range(rng.randint(0,20)):
        if rng.random()<0.4:
            i=rng.randrange(n); d=rng.randint(-4,4); ft.update(i,d); vals[i]+=d
        else:
            l=rng.randrange(n); r=rng.randrange(l,n)
            if ft.prefix(r)!=sum(vals[:r+1]) or ft.range_sum(l,r)!=sum(vals[l:r+1]): bad+=1
print("bad",bad)
