#!/venv/bin/python
"""usage: c12_mut.py NAME [extra check args]   -- applies mutant NAME to /tmp/wt-builderH, runs ./check C12, saves diff, reverts"""
import subprocess, sys, os, re, time
WT = "/tmp/wt-builderH"
def sh(cmd, **kw):
    return subprocess.run(cmd, shell=True, capture_output=True, text=True, **kw)
def edit(path, old, new, count=1):
    p = os.path.join(WT, path)
    s = open(p).read()
    assert s.count(old) >= 1, f"pattern not found in {path}: {old!r}"
    if count == 1:
        assert s.count(old) == 1, f"pattern not unique in {path}: {old!r} ({s.count(old)})"
    open(p, "w").write(s.replace(old, new))
def revert(sha):
    r = sh(f"git -C {WT} show {sha} | git -C {WT} apply -R")
    assert r.returncode == 0, r.stderr

M = {}
def mut(name):
    def d(f):
        M[name] = f
        return f
    return d

@mut("revert-fw-adapter-fix")
def _(): revert("1316758")
@mut("revert-bfs-dfs-adapter-fix")
def _(): revert("cc92f79")
@mut("revert-rust-pagerank-fix")
def _(): revert("c3285d4")
@mut("bfs-adapter-unsorted")
def _(): edit("solvor/rust/adapters.py", '''        return Result(None, float("inf"), result["iterations"], 0, Status.INFEASIBLE)

    return Result(sorted(result["visited_order"]), 0, result["iterations"], 0)


@rust_adapter("dfs_edges")''', '''        return Result(None, float("inf"), result["iterations"], 0, Status.INFEASIBLE)

    return Result(list(result["visited_order"]), 0, result["iterations"], 0)


@rust_adapter("dfs_edges")''')
@mut("dfs-adapter-optimal-status")
def _(): edit("solvor/rust/adapters.py", '''result["iterations"], 0, Status.FEASIBLE)
        return Result(None, float("inf"), result["iterations"], 0, Status.INFEASIBLE)

    return Result(sorted''', '''result["iterations"], 0)
        return Result(None, float("inf"), result["iterations"], 0, Status.INFEASIBLE)

    return Result(sorted''')
@mut("rust-kruskal-sorts-descending")
def _(): edit("rust/src/algorithms/kruskal.rs", "sorted_edges.sort_by(|a, b| a.2.partial_cmp(&b.2)", "sorted_edges.sort_by(|a, b| b.2.partial_cmp(&a.2)")
@mut("rust-bf-skips-detection-round")
def _(): edit("rust/src/algorithms/bellman_ford.rs", '''    for &(u, v, w) in edges {
        iterations += 1;
        if distances[u] != f64::INFINITY && distances[u] + w < distances[v] {
            has_negative_cycle = true;
            break;
        }
    }''', '''    for &(u, v, w) in edges.iter().take(0) {
        iterations += 1;
        if distances[u] != f64::INFINITY && distances[u] + w < distances[v] {
            has_negative_cycle = true;
            break;
        }
    }''')
@mut("rust-dijkstra-relaxes-settled-nodes")
def _(): edit("rust/src/algorithms/dijkstra.rs", '''            if visited[neighbor] {
                continue;
            }

            let new_dist''', '''            let new_dist''')
@mut("rust-dijkstra-relaxes-settled-nodes-on-ties")
def _():
    edit("rust/src/algorithms/dijkstra.rs", '''            if visited[neighbor] {
                continue;
            }

            let new_dist''', '''            let new_dist''')
    edit("rust/src/algorithms/dijkstra.rs", "if new_dist < distances[neighbor] {", "if new_dist <= distances[neighbor] {")
@mut("adapter-drops-allow-forest")
def _(): edit("solvor/rust/adapters.py", "        if allow_forest:\n            return Result(mst_edges", "        if allow_forest and False:\n            return Result(mst_edges")
@mut("rust-bf-one-round-short")
def _(): edit("rust/src/algorithms/bellman_ford.rs", "for _ in 0..n_nodes.saturating_sub(1) {", "for _ in 0..n_nodes.saturating_sub(2) {")
@mut("rust-bf-rounds-underflow")
def _(): edit("rust/src/algorithms/bellman_ford.rs", "for _ in 0..n_nodes.saturating_sub(1) {", "for _ in 0..(n_nodes - 2) + 1 {")
@mut("rust-fw-keeps-last-duplicate")
def _(): edit("rust/src/algorithms/floyd_warshall.rs", "if u < n && v < n && w < dist[u][v] {", "if u < n && v < n && (u != v || w < 0.0) {")
@mut("rust-dijkstra-stops-when-target-pushed")
def _(): edit("rust/src/algorithms/dijkstra.rs", '''                heap.push(State {
                    cost: new_dist,
                    node: neighbor,
                });
            }''', '''                heap.push(State {
                    cost: new_dist,
                    node: neighbor,
                });
                if Some(neighbor) == target {
                    break;
                }
            }''')
@mut("rust-dijkstra-max-heap")
def _(): edit("rust/src/algorithms/dijkstra.rs", '''        other
            .cost
            .partial_cmp(&self.cost)''', '''        self
            .cost
            .partial_cmp(&other.cost)''')
@mut("rust-topo-ignores-self-loops")
def _(): edit("rust/src/algorithms/scc.rs", '''        if u < n_nodes && v < n_nodes {
            adj[u].push(v);''', '''        if u < n_nodes && v < n_nodes && u != v {
            adj[u].push(v);''')
@mut("rust-scc-no-on-stack-test")
def _(): edit("rust/src/algorithms/scc.rs", "} else if on_stack[w] {", "} else {")
@mut("rust-pagerank-drops-dangling-mass")
def _(): edit("rust/src/algorithms/pagerank.rs", "let dangling_contrib = damping * dangling_sum / n_nodes as f64;", "let dangling_contrib = 0.0 * damping * dangling_sum / n_nodes as f64;")
@mut("rust-pagerank-dedups-outdegree")
def _(): edit("rust/src/algorithms/pagerank.rs", '''            incoming[v].push(u);
            outgoing_count[u] += 1;''', '''            if !incoming[v].contains(&u) {
                incoming[v].push(u);
                outgoing_count[u] += 1;
            }''')
@mut("rust-pagerank-off-by-one-maxiter")
def _(): edit("rust/src/algorithms/pagerank.rs", "for iteration in 0..max_iter {", "for iteration in 0..max_iter + 1 {")
@mut("rust-bfs-pred-overwritten")
def _(): edit("rust/src/algorithms/bfs.rs", '''            if !visited[neighbor] {
                visited[neighbor] = true;
                predecessors[neighbor] = node as i64;
                queue.push_back(neighbor);''', '''            if !visited[neighbor] || (predecessors[neighbor] >= 0 && neighbor != source && Some(neighbor) != target) {
                predecessors[neighbor] = node as i64;
            }
            if !visited[neighbor] {
                visited[neighbor] = true;
                queue.push_back(neighbor);''')
@mut("rust-dfs-marks-at-push-without-pred")
def _(): edit("rust/src/algorithms/bfs.rs", '''            if !visited[neighbor] {
                predecessors[neighbor] = node as i64;
                stack.push(neighbor);''', '''            if !visited[neighbor] {
                if predecessors[neighbor] < 0 {
                    predecessors[neighbor] = node as i64;
                }
                stack.push(neighbor);''')
@mut("adapter-dijkstra-keeps-inf")
def _(): edit("solvor/rust/adapters.py", '''    # No target - return distances dict
    distances = {i: d for i, d in enumerate(result["distances"]) if d != float("inf")}''', '''    # No target - return distances dict
    distances = {i: d for i, d in enumerate(result["distances"])}''')
@mut("adapter-bf-target-before-negcycle")
def _(): edit("solvor/rust/adapters.py", '''    if result["has_negative_cycle"]:
        return Result(None, float("-inf"), result["iterations"], 0, Status.UNBOUNDED)

    # Reconstruct path if target specified''', '''    if result["has_negative_cycle"] and target is None:
        return Result(None, float("-inf"), result["iterations"], 0, Status.UNBOUNDED)

    # Reconstruct path if target specified''')
@mut("adapter-kruskal-forest-optimal")
def _(): edit("solvor/rust/adapters.py", 'result["iterations"], len(edges), Status.FEASIBLE)', 'result["iterations"], len(edges), Status.OPTIMAL)')
@mut("decorator-drops-kwargs")
def _(): edit("solvor/rust/__init__.py", "                return adapter(*args, **kwargs)", "                return adapter(*args)")
@mut("auto-never-picks-rust")
def _(): edit("solvor/rust/__init__.py", '''    # Auto mode (None or "auto")
    if rust_available():''', '''    # Auto mode (None or "auto")
    if rust_available() and requested == "auto":''')
@mut("rust-kruskal-union-cycle")
def _(): edit("rust/src/algorithms/kruskal.rs", "std::cmp::Ordering::Less => self.parent[root_x] = root_y,", "std::cmp::Ordering::Less => self.parent[root_y] = root_y,")
@mut("rust-kruskal-stops-one-early")
def _(): edit("rust/src/algorithms/kruskal.rs", "if mst_edges.len() == n_nodes - 1 {\n                break;", "if mst_edges.len() + 1 == n_nodes - 1 && n_nodes > 3 {\n                break;")
@mut("python-fw-undirected-asymmetric")
def _(): edit("solvor/floyd_warshall.py", "            dist[v][u] = min(dist[v][u], w)", "            dist[v][u] = w if dist[v][u] == float(\"inf\") else dist[v][u]")
@mut("python-topo-ignores-duplicate-indegree")
def _(): edit("solvor/scc.py", '''            if w in node_set:
                adjacency[v].append(w)
                in_degree[w] += 1''', '''            if w in node_set and w not in adjacency[v]:
                adjacency[v].append(w)
                in_degree[w] += 1
            elif w in node_set:
                adjacency[v].append(w)''')
@mut("rust-fw-k-innermost")
def _(): edit("rust/src/algorithms/floyd_warshall.rs", '''                let via_k = dist[i][k] + dist[k][j];
                if via_k < dist[i][j] {
                    dist[i][j] = via_k;
                    pred[i][j] = pred[k][j];
                }''', '''                let via_k = dist[k][i] + dist[i][j];
                if via_k < dist[k][j] {
                    dist[k][j] = via_k;
                    pred[k][j] = pred[i][j];
                }''')
@mut("rust-scc-lowlink-uses-lowlink-of-stack-node")
def _(): edit("rust/src/algorithms/scc.rs", "lowlinks[v] = lowlinks[v].min(indices[w].unwrap());", "lowlinks[v] = lowlinks[v].max(indices[w].unwrap()).min(lowlinks[v]);")

@mut("rust-fw-negcycle-check-first-node-only")
def _(): edit("rust/src/algorithms/floyd_warshall.rs", """    for i in 0..n {
        if dist[i][i] < 0.0 {
            has_negative_cycle = true;""", """    for i in 0..n.min(1) {
        if dist[i][i] < 0.0 {
            has_negative_cycle = true;""")
@mut("rust-kruskal-single-node-disconnected")
def _(): edit("rust/src/algorithms/kruskal.rs", "let is_connected = mst_edges.len() == n_nodes - 1;", "let is_connected = !mst_edges.is_empty() && mst_edges.len() == n_nodes - 1;")
@mut("rust-topo-indegree-dedup")
def _(): edit("rust/src/algorithms/scc.rs", """    for neighbors in &adj {
        for &v in neighbors {
            in_degree[v] += 1;
        }
    }""", """    for neighbors in &adj {
        let mut seen: Vec<usize> = Vec::new();
        for &v in neighbors {
            if !seen.contains(&v) {
                seen.push(v);
                in_degree[v] += 1;
            }
        }
    }""")
@mut("rust-hang-bfs-requeues")
def _(): edit("rust/src/algorithms/bfs.rs", """            if !visited[neighbor] {
                visited[neighbor] = true;
                predecessors[neighbor] = node as i64;
                queue.push_back(neighbor);""", """            if !visited[neighbor] || neighbor == node {
                visited[neighbor] = true;
                if neighbor != node { predecessors[neighbor] = node as i64; }
                queue.push_back(neighbor);""")

if __name__ == "__main__":
    name = sys.argv[1]
    extra = " ".join(sys.argv[2:])
    sh(f"git -C {WT} checkout -- . && git -C {WT} clean -fdq")
    M[name]()
    diff = sh(f"git -C {WT} diff").stdout
    assert diff.strip(), "empty diff"
    open(f"/verif/selftest/C12/{name}.diff", "w").write(diff)
    t0 = time.time()
    env = dict(os.environ, VERIF_REPO=WT, VERIF_JOBS=os.environ.get("VERIF_JOBS", "6"))
    r = subprocess.run(f"cd /verif && ./check C12 {extra}", shell=True, capture_output=True, text=True, env=env)
    out = r.stdout + r.stderr
    lines = out.strip().splitlines()
    cls = {}
    for ln in lines:
        m = re.match(r"\s+class=(\S+) stratum=(\S+) index=(\d+)", ln)
        if m:
            cls.setdefault(m.group(1), []).append((m.group(2), int(m.group(3))))
    summ = [l for l in lines if l.startswith("C12 tier")]
    print(f"=== {name}: exit={r.returncode} {time.time()-t0:.0f}s")
    print("   ", summ[-1] if summ else "\n".join(lines[-8:]))
    for c, w in cls.items():
        print(f"    class={c}: {len(w)} shown, first {sorted(w, key=lambda x: x[1])[:3]}")
    for l in lines:
        if l.startswith("INCONCLUSIVE"):
            print("    " + l[:260]); break
    # first witness detail
    for ln in lines:
        if ln.startswith("  class="):
            print("    e.g." + ln[:420]); break
    sh(f"git -C {WT} checkout -- . && git -C {WT} clean -fdq")
    sh("rm -f /verif/replays/C12-*")
