"""Deliberate, realistic breaks (one or two lines each) used to validate the checks of C01-C06.
(prop, name, [(file, old, new), ...]) -- old must occur exactly once in the file."""
S = "solvor/sat.py"
MUTANTS = [
    # ---- C01 / C02: SAT
    ("C01", "unassign-cuts-target-level", [(S, "        target = trail_lim[level]\n", "        target = trail_lim[level - 1] if level > 0 else 0\n")]),
    ("C01", "propagate-forgets-new-watch", [(S, "                        add_watch(clause[1], clause_idx)\n                        found = True", "                        found = True")]),
    ("C01", "reduce-db-drops-blocking", [(S, "            lbd_scores.append(0)\n", "            lbd_scores.append(n_vars)\n")]),
    ("C01", "model-omits-level0-false", [(S, "sol = {v: vals[v] == 1 for v in range(1, n_vars + 1) if vals[v] != UNDEF}", "sol = {v: vals[v] == 1 for v in range(1, n_vars + 1) if vals[v] != UNDEF and (levels[v] > 0 or vals[v] == 1)}")]),
    ("C02", "luby-loops", [(S, "        if i < (1 << k) - 1:\n", "        if i >= (1 << (k - 1)):\n")]),
    ("C02", "uip-wrong-sign", [(S, "uip_lit = var if vals[var] == 0 else -var", "uip_lit = -var if vals[var] == 0 else var")]),
    ("C02", "infeasible-at-level-1", [(S, "            if dec_level == 0 or conflict == -2:\n", "            if dec_level <= 1 or conflict == -2:\n")]),
    ("C02", "max-conflicts-ignored", [(S, "        if conflicts >= max_conflicts:\n", "        if conflicts >= max_conflicts and False:\n")]),
    ("C02", "pure-literal-vs-assumption", [(S, "if vals[var] == UNDEF and var not in assumed_vars:", "if vals[var] == UNDEF:")]),
    ("C02", "assumption-vars-not-counted", [(S, "    for lit in assumptions:\n        n_vars = max(n_vars, lit_var(lit))\n", "")]),
    ("C02", "analyze-skips-reason-literal", [(S, "                    for lit in get_clause(reason_idx):\n                        if lit_var(lit) != var:", "                    for lit in get_clause(reason_idx)[:-1]:\n                        if lit_var(lit) != var:")]),
    ("C02", "max-iter-too-early", [(S, "                if restarts >= max_restarts:\n", "                if restarts >= max_restarts - 1:\n")]),
    ("C02", "bt-level-off-by-one", [(S, "bt_level = lvls[1] if len(lvls) > 1 else 0", "bt_level = max(lvls[1] - 1, 0) if len(lvls) > 1 else 0")]),
    # ---- C03: LP
    ("C03", "bland-tiebreak-reversed", [("solvor/simplex.py", "if leave == -1 or basis[i] < basis[leave]:", "if leave == -1 or basis[i] > basis[leave]:")]),
    ("C03", "infeasibility-threshold", [("solvor/simplex.py", "    if matrix[-1][-1] < -eps:\n        return Status.INFEASIBLE", "    if matrix[-1][-1] < -1:\n        return Status.INFEASIBLE")]),
    ("C03", "extract-forgets-max-sign", [("solvor/simplex.py", "    if not minimize:\n        obj = -obj\n\n    return Result(tuple(solution)", "    return Result(tuple(solution)")]),
    ("C03", "artificials-left-basic", [("solvor/simplex.py", "                if j not in basis_set and abs(matrix[i][j]) > eps:\n                    matrix = _pivot", "                if j not in basis_set and abs(matrix[i][j]) > 1e9:\n                    matrix = _pivot")]),
    ("C03", "phase1-maxiter-is-infeasible", [("solvor/simplex.py", "        if status == Status.MAX_ITER:\n            # Phase 1 ran out of iterations: feasibility is undecided, say so\n            return Result(tuple([0.0] * n), float(\"inf\"), iters, iters, Status.MAX_ITER)\n", "")]),
    ("C03", "ratio-test-accepts-zero-pivot", [("solvor/simplex.py", "            if matrix[i][enter] > eps:\n", "            if matrix[i][enter] > -eps:\n")]),
    ("C03", "ipm-or-convergence", [("solvor/interior_point.py", "if primal_inf < eps and dual_inf < eps and mu < eps:", "if primal_inf < eps and (dual_inf < eps or mu < eps):")]),
    ("C03", "ipm-feasible-threshold", [("solvor/interior_point.py", "    if primal_inf < 0.01:\n", "    if primal_inf < 0.5:\n")]),
    ("C03", "ipm-overflow-crash", [("solvor/interior_point.py", "primal_inf = sqrt(sum(r * r for r in residuals))", "primal_inf = sqrt(sum(r ** 2 for r in residuals))")]),
    ("C03", "unbounded-needs-two-rows", [("solvor/simplex.py", "        if leave == -1:\n            return Status.UNBOUNDED", "        if leave == -1 and m > 1:\n            return Status.UNBOUNDED")]),
    # ---- C04: MILP
    ("C04", "prune-too-eagerly", [("solvor/milp.py", "if best_solution is not None and node_bound >= sign * best_obj - eps:", "if best_solution is not None and node_bound >= sign * best_obj - 1.0:")]),
    ("C04", "warm-start-unchecked", [("solvor/milp.py", "if len(ws) == n and _is_feasible(ws, A, b, int_set, eps):", "if len(ws) == n:")]),
    ("C04", "right-child-skips-value", [("solvor/milp.py", "lower_right[frac_var] = ceil(val)", "lower_right[frac_var] = floor(val) + 2")]),
    ("C04", "detect-binary-always", [("solvor/milp.py", "    return len(bounded) == len(int_set) and len(int_set) > 0", "    return len(int_set) > 0")]),
    ("C04", "right-child-dropped", [("solvor/milp.py", "        heappush(\n            tree, (child_bound, counter, Node(child_bound, tuple(lower_right), tuple(upper_right), node.depth + 1))\n        )\n", "        if node.depth < 2:\n            heappush(\n                tree, (child_bound, counter, Node(child_bound, tuple(lower_right), tuple(upper_right), node.depth + 1))\n            )\n")]),
    ("C04", "node-limit-says-infeasible", [("solvor/milp.py", "        status = Status.MAX_ITER if tree else Status.INFEASIBLE\n", "        status = Status.INFEASIBLE\n")]),
    ("C04", "node-limit-says-optimal", [("solvor/milp.py", "    status = Status.OPTIMAL if not tree else Status.FEASIBLE\n", "    status = Status.OPTIMAL\n")]),
    ("C04", "is-feasible-ignores-last-row", [("solvor/milp.py", "    for i, row in enumerate(A):\n        lhs = sum(row[j] * x[j] for j in range(n))\n        if lhs > b[i] + eps:\n            return False\n    return True", "    for i, row in enumerate(A[:-1]):\n        lhs = sum(row[j] * x[j] for j in range(n))\n        if lhs > b[i] + eps:\n            return False\n    return True")]),
    ("C04", "incumbent-objective-from-bound", [("solvor/milp.py", "            sol_obj = result.objective\n", "            sol_obj = node_bound / sign\n")]),
    ("C04", "fixed-var-uses-upper", [("solvor/milp.py", "        if hi - lo < eps:\n            fixed[j] = lo", "        if hi - lo < 1 + eps and hi < float('inf') and lo > 0:\n            fixed[j] = lo")]),
    # ---- C05: CP
    ("C05", "ne-offset-sign", [("solvor/cp.py", "                    domains[var2.name].discard(v1 - offset)", "                    domains[var2.name].discard(v1 + offset)")]),
    ("C05", "hint-outside-domain-applied", [("solvor/cp.py", "                if name in domains and val in domains[name]:\n                    domains[name] = {val}", "                if name in domains:\n                    domains[name] = {val}")]),
    ("C05", "generic-fallback-accepts-leaf", [("solvor/cp.py", "                equal = _eval_expr(left, values) == _eval_expr(right, values)\n                return equal != is_ne", "                return True")]),
    ("C05", "forward-check-floor-division", [("solvor/cp.py", "root = -b // a if b % a == 0 else None", "root = -b // a")]),
    ("C05", "hints-hard-again", [("solvor/cp.py", "            if result.status == Status.INFEASIBLE:\n                return self._solve_with(solver, None, solution_limit, kwargs)\n", "")]),
    ("C05", "eval-rsub-swapped", [("solvor/cp.py", "    if op == \"rsub\":\n        return b - a", "    if op == \"rsub\":\n        return a - b")]),
    # ---- C06: encoder
    ("C06", "exactly-one-without-alo", [("solvor/cp_encoder.py", "        if not lits:\n            return\n        self._clauses.append(lits)\n", "        if not lits:\n            return\n")]),
    ("C06", "sum-le-strict", [("solvor/cp_encoder.py", "                    if val1 + val2 > target:\n                        self._clauses.append([-v1.bool_vars[val1], -v2.bool_vars[val2]])\n            return\n\n        # n > 2: create partial sum for first two, recurse\n        v1, v2 = variables[0], variables[1]\n        rest_min", "                    if val1 + val2 >= target:\n                        self._clauses.append([-v1.bool_vars[val1], -v2.bool_vars[val2]])\n            return\n\n        # n > 2: create partial sum for first two, recurse\n        v1, v2 = variables[0], variables[1]\n        rest_min")]),
    ("C06", "no-overlap-strict", [("solvor/cp_encoder.py", "                i_before_j = s1 + dur1 <= s2", "                i_before_j = s1 + dur1 < s2")]),
    ("C06", "alldiff-needs-three", [("solvor/cp_encoder.py", "            if len(lits) > 1:\n                self._encode_at_most_one(lits)", "            if len(lits) > 2:\n                self._encode_at_most_one(lits)")]),
    ("C06", "circuit-order-vars-free", [("solvor/cp_encoder.py", "        for order_var in t:\n            # Created after _encode_vars ran, so they need their own exactly-one\n            self._encode_exactly_one(list(order_var.bool_vars.values()))\n", "")]),
    ("C06", "cumulative-cutoff-back", [("solvor/cp_encoder.py", "            self._encode_capacity_constraint(active_lits, active_demands, capacity)\n\n    def _encode_capacity_constraint", "            if len(active_lits) <= 10:\n                self._encode_capacity_constraint(active_lits, active_demands, capacity)\n\n    def _encode_capacity_constraint")]),
    ("C06", "sum-ge-partial-lower-bound", [("solvor/cp_encoder.py", "partial_sum = self._create_int_var(max(v1.lb + v2.lb, target - rest_max), v1.ub + v2.ub)", "partial_sum = self._create_int_var(max(v1.lb + v2.lb, target - rest_max + 1), v1.ub + v2.ub)")]),
    ("C06", "sum-eq-two-vars-one-direction", [("solvor/cp_encoder.py", "                if val2 < v2.lb or val2 > v2.ub:\n                    self._clauses.append([-v1.bool_vars[val1]])", "                if val2 < v2.lb or val2 > v2.ub + 1:\n                    self._clauses.append([-v1.bool_vars[val1]])")]),
    ("C06", "sub-rhs-var-read-as-zero", [("solvor/cp_encoder.py", "if isinstance(left, tuple) and left[0] == \"sub\" and isinstance(right, int):\n            x, y = left[1], left[2]\n            if isinstance(x, IntVar) and isinstance(y, IntVar):\n                right_const = right", "if isinstance(left, tuple) and left[0] == \"sub\":\n            x, y = left[1], left[2]\n            if isinstance(x, IntVar) and isinstance(y, IntVar):\n                right_const = right if isinstance(right, int) else 0")]),
    ("C06", "cumulative-heaviest-first-skips", [("solvor/cp_encoder.py", "                    extend(pos + 1, chosen + [i], load + demands[i])", "                    extend(pos + 2, chosen + [i], load + demands[i])")]),
    ("C06", "mul-coef-ignored-in-flatten", [("solvor/cp_encoder.py", "        if not (_is_plain_sum(left) and _is_plain_sum(right)):\n            self._encode_ne_expr_by_enumeration(left, right, is_ne)\n            return\n", "")]),
]

# Breaks that turned out NOT to violate their property (kept for the record, no .diff is generated):
#  C01 binary-implication-wrong-polarity: a binary clause is checked from both of its literals, the wrong value
#      raises a conflict on the very next propagation step and the search repairs itself (no wrong model in 200
#      deep instances); C01 blocking-clause-skips-last-var: only loses models (enumeration completeness is not
#      promised), every returned model stays valid and distinct;
#  C05 alldiff-skips-last-var / eq-var-narrows-one-side: weaker propagation only, the dropped direction is
#      enforced from the other variable, so no wrong assignment and no false INFEASIBLE is possible;
#  C05 decode-takes-last-true: the default of dict.get is never used (every Boolean variable is assigned);
#  C06 eq-var-one-implication: with exactly-one on both variables one implication direction entails the other.
#  C01 pure-literals-always: fixing pure literals during enumeration only loses models (completeness of the
#      enumeration is not promised); every returned model stays valid and distinct.
EQUIVALENT = [
    ("C01", "pure-literals-always", [(S, "    if solution_limit == 1:\n        assumed_vars", "    if solution_limit >= 1:\n        assumed_vars")]),
    ("C01", "blocking-clause-skips-last-var", [(S, "blocking = [(-v if vals[v] == 1 else v) for v in range(1, n_vars + 1) if vals[v] != UNDEF]", "blocking = [(-v if vals[v] == 1 else v) for v in range(1, n_vars) if vals[v] != UNDEF]")]),
    ("C01", "binary-implication-wrong-polarity", [(S, "                if vals[impl_var] == UNDEF:\n                    assign(impl_var, implied > 0, clause_idx)", "                if vals[impl_var] == UNDEF:\n                    assign(impl_var, implied > 0 or len(trail_lim) > 6, clause_idx)")]),
    ("C05", "alldiff-skips-last-var", [("solvor/cp.py", "        for var in variables:\n            if len(domains[var.name]) == 1:\n                val = next(iter(domains[var.name]))\n                for other in variables:", "        for var in variables[:-1]:\n            if len(domains[var.name]) == 1:\n                val = next(iter(domains[var.name]))\n                for other in variables:")]),
    ("C05", "eq-var-narrows-one-side", [("solvor/cp.py", "            domains[var1.name] = common\n            domains[var2.name] = common.copy()", "            domains[var1.name] = common")]),
    ("C05", "decode-takes-last-true", [("solvor/cp_encoder.py", "                    if sat_sol.get(bool_var, False):\n                        cp_sol[name] = val\n                        break", "                    if sat_sol.get(bool_var, True):\n                        cp_sol[name] = val\n                        break")]),
    ("C06", "eq-var-one-implication", [("solvor/cp_encoder.py", "            self._clauses.append([-var1.bool_vars[val], var2.bool_vars[val]])\n            self._clauses.append([var1.bool_vars[val], -var2.bool_vars[val]])\n\n        for val in set(var1.bool_vars.keys()) - common:", "            self._clauses.append([-var1.bool_vars[val], var2.bool_vars[val]])\n\n        for val in set(var1.bool_vars.keys()) - common:")]),
]
