#!/usr/bin/env python3
"""tools/equivcheck.py <worktree-with-SEEDED> <k> <Cxx> [check args...]
False-alarm test: an independently written BEHAVIOUR-PRESERVING change (refactor / rewrite / optimisation that keeps the
property) is applied to a scratch worktree of /repo HEAD, the repository's tests and the author's own property demo are
run on it, and then our check: it has to stay silent (exit 0, no VIOLATION line).
(EQUIV_NAME=<dir name> overrides the destination name.)
Copies SEEDED/{patch_k.diff,demo_k.py,meta_k.json} to /verif/selftest/equivalent/<Cxx>-e<k>/ and writes meta.json.
Never touches /repo's working tree."""
import json, os, shutil, subprocess, sys, tempfile, time

ROOT = os.path.dirname(os.path.dirname(os.path.abspath(__file__)))
src, k, prop = sys.argv[1], sys.argv[2], sys.argv[3]
rest = sys.argv[4:]
dst = os.path.join(ROOT, "selftest", "equivalent", os.environ.get("EQUIV_NAME") or f"{prop}-e{k}")
os.makedirs(dst, exist_ok=True)
for a, b in ((f"patch_{k}.diff", "patch.diff"), (f"demo_{k}.py", "demo.py"), (f"meta_{k}.json", "author_meta.json")):
    p = os.path.join(src, "SEEDED", a)
    if os.path.exists(p):
        shutil.copy(p, os.path.join(dst, b))
wt = tempfile.mkdtemp(prefix="vf-equiv-")
os.rmdir(wt)
subprocess.run(["git", "-C", "/repo", "worktree", "add", "-q", "--detach", wt, "HEAD"], check=True)
meta = {"property": prop, "repo_head": subprocess.run(["git", "-C", "/repo", "rev-parse", "--short", "HEAD"], capture_output=True, text=True).stdout.strip()}
env = dict(os.environ, PYTHONPATH=wt, PYTHONDONTWRITEBYTECODE="1")
try:
    ap = subprocess.run(["git", "-C", wt, "apply", os.path.join(dst, "patch.diff")], capture_output=True, text=True)
    meta["patch_applies"] = ap.returncode == 0
    if ap.returncode != 0:
        meta["apply_error"] = ap.stderr[-300:]
    else:
        st = subprocess.run(["git", "-C", wt, "diff", "--shortstat"], capture_output=True, text=True).stdout.strip()
        meta["diff_stat"] = st
        if os.path.exists(os.path.join(dst, "demo.py")):
            shutil.copy(os.path.join(dst, "demo.py"), os.path.join(wt, "demo.py"))
            try:
                r = subprocess.run(["/venv/bin/python", "demo.py"], cwd=wt, env=env, capture_output=True, text=True, timeout=1800)
                meta["author_demo_with"] = r.returncode
                if r.returncode:
                    meta["author_demo_output"] = (r.stdout + r.stderr)[-500:]
            except subprocess.TimeoutExpired:
                meta["author_demo_with"] = "timeout"
        t = subprocess.run(["/venv/bin/python", "-m", "pytest", "-q", "-p", "no:cacheprovider", "--no-cov", "--timeout=120", "tests/solvors"],
                           cwd=wt, env=env, capture_output=True, text=True, timeout=3600)
        meta["tests_solvors"] = t.stdout.strip().splitlines()[-1] if t.stdout.strip() else "no output"
        meta["tests_pass"] = t.returncode == 0
        t0 = time.time()
        e2 = dict(os.environ, VERIF_REPO=wt, VERIF_EVIDENCE_DIR="/tmp/vf-mut-evidence", VERIF_REPLAY_DIR="/tmp/vf-mut-evidence")
        os.makedirs("/tmp/vf-mut-evidence", exist_ok=True)
        c = subprocess.run(["./check", prop, *rest], cwd=ROOT, env=e2, capture_output=True, text=True)
        lines = c.stdout.splitlines()
        meta["check_cmd"] = "VERIF_REPO=<patched worktree> ./check " + " ".join([prop, *rest])
        meta["check_exit"] = c.returncode
        meta["check_alarms"] = sum(1 for l in lines if l.startswith(f"VIOLATION property={prop}"))
        meta["check_silent"] = c.returncode == 0 and meta["check_alarms"] == 0
        meta["check_wall_s"] = round(time.time() - t0, 1)
        meta["check_first_witnesses"] = [l.strip()[:400] for l in lines if "class=" in l][:4]
        meta["check_notes"] = [l.strip()[:200] for l in lines if l.startswith(("NOTE", "INCONCLUSIVE"))][:6]
        meta["check_summary"] = [l for l in lines if l.startswith(prop + " tier=")][:1]
finally:
    subprocess.run(["git", "-C", "/repo", "worktree", "remove", "--force", wt])
try:
    am = json.load(open(os.path.join(dst, "author_meta.json")))
    meta["rewrites"] = am.get("summary")
    meta["varies"] = am.get("varies")
except Exception:
    pass
json.dump(meta, open(os.path.join(dst, "meta.json"), "w"), indent=1)
print(json.dumps({k: meta.get(k) for k in ("property", "patch_applies", "diff_stat", "author_demo_with", "tests_solvors", "check_exit",
                                            "check_alarms", "check_silent", "check_first_witnesses", "check_notes")}, indent=1))
