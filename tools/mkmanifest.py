#!/usr/bin/env python3
"""Regenerate /verif/MANIFEST.json from the table below and the property modules that exist."""
import json
import os

ROOT = os.path.dirname(os.path.dirname(os.path.abspath(__file__)))

TABLE = {
    "C01": ("SAT model certificate contract + closure-state monitors (sys.monitoring) + brute-force model-set oracle + step budget",
            "exact model set <= 16 variables; certificate check unbounded; learned-clause entailment checked against the oracle's model set"),
    "C02": ("SAT verdict contract vs brute-force / by-construction oracle + budget counters + step budget (bounded progress)",
            "termination restated as return within a calibrated logical step budget; exact verdict oracle <= 16 variables, beyond that instances with status known by construction"),
    "C03": ("LP post-condition contract + exact rational vertex-enumeration oracle (nested inside MILP too)",
            "oracle exact for n<=4, m+n<=9 over Fractions; tolerances DESIGN 2.5"),
    "C04": ("MILP post-condition contract + enumeration x exact-LP oracle + heuristic-incumbent hooks",
            "bounded integer boxes (u<=5), n<=4; verdict set computed from the oracle, every configuration judged against it"),
    "C05": ("CP Model.solve contract + independent constraint evaluator / domain-product oracle + nested SAT monitor + step budget",
            "<=5 named variables, domain product <= 4096; both back-ends and auto"),
    "C06": ("recorded CNF at the encoder boundary + independent all-models DPLL projected on value literals vs domain-product model set",
            "<=5 named variables, <=60 Boolean variables; CNF captured by replacing cp_encoder.solve_sat with a recorder"),
    "C07": ("exact-cover contract + subset-enumeration oracle + cover/uncover inverse monitor (link-structure snapshots)",
            "matrices up to 8x6 (2^rows enumeration)"),
    "C08": ("max-flow certificate contract (capacity, conservation, residual BFS) + Edmonds-Karp oracle",
            "certificate valid at any size; oracle value compared on all generated sizes"),
    "C09": ("min-cost-flow contracts + SSP/Bellman-Ford oracle on explicit arcs + network-simplex basis-tree monitor + step budget",
            "integer data; oracle on explicit arc list; tree invariants read from the live frame at each pivot"),
    "C10": ("assignment contract + permutation / subset-DP oracle over Fractions",
            "<=7x7 permutations, <=11x11 subset DP"),
    "C11": ("shortest-path contracts + Floyd-Warshall oracle over ints/Fractions + path certificate + cross-solver agreement",
            "graphs <= 8 nodes, grids <= 6x6 for exact distances; certificates at any size"),
    "C12": ("differential monitor: python vs freshly built rust kernel (release, and dev profile in thorough) + definitional oracles",
            "extension compiled from rust/ in the working tree on every run"),
    "C13": ("MST contract (cycle property, spanning, weight) + own Kruskal + UnionFind contracts nested in kruskal",
            "cycle-property certificate valid for any size"),
    "C14": ("SCC/toposort/condensation contracts vs reachability-closure definitions",
            "closure oracle on generated sizes; deep paths certificate only"),
    "C15": ("definitional oracles (remove-and-recount, iterated deletion, fixed-point residual, exact modularity)",
            "undirected simple-graph semantics per module docstrings"),
    "C16": ("knapsack / bin-packing contracts + 2^n enumeration / exact branch-and-bound oracles",
            "n<=12 knapsack, n<=9 bin packing for optimality clauses; feasibility clauses any size"),
    "C17": ("cutting-stock plan contract + demand-vector DP oracle + master-LP / pricing hooks",
            "roll<=14, <=4 piece types, demands<=6"),
    "C18": ("schedule / route-state contracts + invariant after every destroy/repair operator application",
            "operators wrapped in solvor.vrp namespace; arrival times recomputed by the oracle"),
    "C19": ("objective recorder + best-seen / faithfulness / mirror / reproducibility relations over seeds and configs",
            "deterministic objectives; schedules = PRNG decision sequences ranged over by seeds"),
    "C20": ("icontract invariants + post-conditions on the real classes + shadow-model histories (random + bounded-exhaustive)",
            "indices in range; exactly representable numbers"),
}

LEVEL_TEXT = ("runtime monitoring: the real functions run on seeded, stratified, hostile workloads while contracts, internal "
              "hooks and an exact reference oracle judge every execution; held on the executions observed (counts in the "
              "evidence file), not a proof")


def main():
    props = [json.loads(l) for l in open(os.path.join(ROOT, "properties.jsonl"))]
    checks, na = [], []
    status_path = os.path.join(ROOT, "tools", "claimed.json")
    claimed = set(json.load(open(status_path))) if os.path.exists(status_path) else set()
    for p in props:
        pid = p["id"]
        modfile = os.path.join(ROOT, "vf", "props", pid.lower() + ".py")
        if os.path.exists(modfile) and pid in claimed:
            tech, note = TABLE[pid]
            checks.append({
                "property_id": pid,
                "quick_cmd": f"./check {pid} --tier quick",
                "thorough_cmd": f"./check {pid} --tier thorough",
                "evidence_file": f"evidence/{pid}.json",
                "replay_cmd_template": f"./check {pid} --replay {{path}}",
                "engine": "vf",
                "level_claimed": {"category": "exploration", "text": LEVEL_TEXT, "design_ref": f"DESIGN.md section 5 ({pid})"},
                "level_note": note + "; trusted base: CPython 3.12, vf/ (runner, oracles), icontract",
                "technique": tech,
            })
        else:
            na.append({"property_id": pid, "reason": "check not finished yet in this round (runtime monitoring applies; see DESIGN.md section 5)"})
    manifest = {
        "version": 1,
        "setup_cmd": "./check --setup",
        "hooks": {
            "guard": "SOLVOR_VERIF",
            "enable": "none needed: all monitors are attached from /verif at run time (wrap-in-place, icontract, sys.monitoring); no in-repository hook exists, the guard name is reserved",
            "baseline_off_cmd": "cd /repo && /venv/bin/python -m pytest -ra -q -p no:cacheprovider --timeout=900 --continue-on-collection-errors",
            "source_commits": [],
            "add_only": True,
        },
        "engines": [{"name": "vf", "path": "vf/", "serves_properties": [c["property_id"] for c in checks],
                     "kind_free_text": "Python runtime-monitoring harness: seeded generators, contracts/hooks on the real code, exact oracles, fuel meter"}],
        "checks": checks,
        "not_applicable": na,
        "notes": "See DESIGN.md. KNOWN_FINDINGS.txt lists repaired defects (fixed:) and open findings (finding:).",
    }
    # kept even when empty: every property is claimed, nothing is declared not applicable
    with open(os.path.join(ROOT, "MANIFEST.json"), "w") as fh:
        json.dump(manifest, fh, indent=1)
    print(f"claimed {len(checks)}, not claimed {len(na)}")


if __name__ == "__main__":
    main()
