#!/usr/bin/env python3
"""Generate /verif/selftest/<Cxx>/<name>.diff from a table of (file, old, new) one-line breaks.
Uses a scratch worktree of /repo; never touches /repo itself."""
import os, subprocess, sys, tempfile, json
ROOT = os.path.dirname(os.path.dirname(os.path.abspath(__file__)))
sys.path.insert(0, os.path.join(ROOT, "selftest"))
from mutants_table import MUTANTS  # noqa

wt = tempfile.mkdtemp(prefix="vf-mk-")
os.rmdir(wt)
subprocess.run(["git", "-C", "/repo", "worktree", "add", "-q", "--detach", wt, "HEAD"], check=True)
try:
    for prop, name, edits in MUTANTS:
        if len(sys.argv) > 1 and prop not in sys.argv[1:]:
            continue
        ok = True
        for f, old, new in edits:
            p = os.path.join(wt, f)
            s = open(p).read()
            if s.count(old) != 1:
                print(f"!! {prop}/{name}: pattern occurs {s.count(old)}x in {f}")
                ok = False
                break
            open(p, "w").write(s.replace(old, new))
        if ok:
            d = subprocess.run(["git", "-C", wt, "diff"], capture_output=True, text=True).stdout
            os.makedirs(os.path.join(ROOT, "selftest", prop), exist_ok=True)
            open(os.path.join(ROOT, "selftest", prop, name + ".diff"), "w").write(d)
            print("ok", prop, name)
        subprocess.run(["git", "-C", wt, "checkout", "-q", "--", "."], check=True)
finally:
    subprocess.run(["git", "-C", "/repo", "worktree", "remove", "--force", wt])
