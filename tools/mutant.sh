#!/bin/sh
# tools/mutant.sh <Cxx> <file.diff | revert:<sha>> [check args...]
# Applies a break to a scratch worktree of /repo (never to /repo), runs the check against it, cleans up.
# exit 0 if the check reported a VIOLATION (mutant caught), 1 if missed, 2 on infrastructure problems.
P="$1"; M="$2"; shift 2
WT="$(mktemp -d /tmp/vf-mut-XXXXXX)"; rmdir "$WT"
git -C /repo worktree add -q --detach "$WT" HEAD || exit 2
cleanup() { git -C /repo worktree remove --force "$WT" >/dev/null 2>&1; rm -rf "$WT"; }
trap cleanup EXIT INT TERM
case "$M" in revert:*) ;; /*) ;; *) M="$(pwd)/$M" ;; esac
case "$M" in
  revert:*) git -C "$WT" revert --no-commit "${M#revert:}" >/dev/null 2>&1 || { echo "cannot revert $M"; exit 2; } ;;
  *) git -C "$WT" apply "$M" 2>/dev/null || { git -C "$WT" apply --3way "$M" >/dev/null 2>&1 && ! git -C "$WT" diff --name-only --diff-filter=U | grep -q . ; } || { echo "cannot apply $M (written against an older /repo HEAD: see repo_head in its meta.json)"; exit 2; } ;;
esac
OUT="$(mktemp /tmp/vf-mut-out-XXXXXX)"
cd "$(dirname "$0")/.." || exit 2
mkdir -p /tmp/vf-mut-evidence
VERIF_REPO="$WT" VERIF_EVIDENCE_DIR=/tmp/vf-mut-evidence VERIF_REPLAY_DIR=/tmp/vf-mut-evidence ./check "$P" "$@" > "$OUT" 2>&1
rc=$?
grep -m3 "class=" "$OUT"
tail -n 3 "$OUT" | grep -v "^VIOLATION" | head -2
n=$(grep -c "^VIOLATION property=$P" "$OUT")
rm -f "$OUT"
if [ "$n" -gt 0 ]; then echo "CAUGHT $P $M ($n witnesses, rc=$rc)"; exit 0; fi
echo "MISSED $P $M (rc=$rc)"; exit 1
