#!/usr/bin/env python3
"""Systematic first-order mutation sweep (self-test of the checks, not a registered check).

  python3 tools/mutsweep.py Cxx [--max N] [--jobs J] [--seed S] [--out FILE] [--check-args "..."]

For the Python files a property is anchored in, every first-order mutant of a small operator set is generated from
the AST (comparison boundaries, +/- swaps, and/or, dropped `not`, negated branch conditions, integer constants +-1,
True/False, deleted simple statements, break/continue).  Each sampled mutant is written into a scratch copy of the
working tree under /tmp (solvor/ + tests/ + pyproject.toml; /repo is never touched), the repository's own
tests/solvors are run against it, and - if they still pass - the property's quick check is run with VERIF_REPO
pointing at the copy.  Result per mutant: killed-by-tests | caught | MISSED | inconclusive.  MISSED survivors are
either equivalent mutants or gaps of the check: they are listed with file:line and the changed source line so that
they can be read one by one (selftest/mutsweep/<Cxx>.json).
"""
import argparse
import ast
import copy
import json
import os
import random
import shutil
import subprocess
import sys
import tempfile
from concurrent.futures import ThreadPoolExecutor

ROOT = os.path.dirname(os.path.dirname(os.path.abspath(__file__)))
REPO = os.environ.get("VERIF_REPO", "/repo")
PY = "/venv/bin/python"

CMP = {ast.Lt: ast.LtE, ast.LtE: ast.Lt, ast.Gt: ast.GtE, ast.GtE: ast.Gt, ast.Eq: ast.NotEq, ast.NotEq: ast.Eq}
BIN = {ast.Add: ast.Sub, ast.Sub: ast.Add}


def is_docstring(node, parent):
    return (isinstance(node, ast.Expr) and isinstance(node.value, ast.Constant) and isinstance(node.value.value, str))


class Collector(ast.NodeVisitor):
    """Enumerates mutation points as (kind, path) where path identifies the node by a pre-order index."""

    def __init__(self):
        self.points = []
        self.idx = 0
        self.in_func = 0

    def generic_visit(self, node):
        my = self.idx
        self.idx += 1
        if isinstance(node, (ast.FunctionDef, ast.AsyncFunctionDef)):
            self.in_func += 1
        if self.in_func:
            ln = getattr(node, "lineno", None)
            if isinstance(node, ast.Compare):
                for k, op in enumerate(node.ops):
                    if type(op) in CMP:
                        self.points.append(("cmp", my, k, ln))
            elif isinstance(node, ast.BinOp) and type(node.op) in BIN:
                self.points.append(("bin", my, 0, ln))
            elif isinstance(node, ast.AugAssign) and type(node.op) in BIN:
                self.points.append(("aug", my, 0, ln))
                self.points.append(("del", my, 0, ln))
            elif isinstance(node, ast.BoolOp):
                self.points.append(("bool", my, 0, ln))
            elif isinstance(node, ast.UnaryOp) and isinstance(node.op, ast.Not):
                self.points.append(("not", my, 0, ln))
            elif isinstance(node, (ast.If, ast.While)):
                self.points.append(("negcond", my, 0, ln))
            elif isinstance(node, ast.Constant) and isinstance(node.value, bool):
                self.points.append(("boolconst", my, 0, ln))
            elif isinstance(node, ast.Constant) and isinstance(node.value, int) and abs(node.value) <= 100:
                self.points.append(("int+1", my, 0, ln))
                if node.value != 0:
                    self.points.append(("int-1", my, 0, ln))
            elif isinstance(node, ast.Assign):
                self.points.append(("del", my, 0, ln))
            elif isinstance(node, ast.Expr) and isinstance(node.value, ast.Call):
                self.points.append(("del", my, 0, ln))
            elif isinstance(node, ast.Break):
                self.points.append(("break->continue", my, 0, ln))
            elif isinstance(node, ast.Continue):
                self.points.append(("continue->break", my, 0, ln))
        super().generic_visit(node)
        if isinstance(node, (ast.FunctionDef, ast.AsyncFunctionDef)):
            self.in_func -= 1


class Applier(ast.NodeTransformer):
    def __init__(self, point):
        self.kind, self.target, self.k, _ = point
        self.idx = 0
        self.done = False

    def generic_visit(self, node):
        my = self.idx
        self.idx += 1
        node = super().generic_visit(node)
        if my != self.target:
            return node
        self.done = True
        kind = self.kind
        if kind == "cmp":
            node.ops[self.k] = CMP[type(node.ops[self.k])]()
        elif kind in ("bin", "aug"):
            node.op = BIN[type(node.op)]()
        elif kind == "bool":
            node.op = ast.Or() if isinstance(node.op, ast.And) else ast.And()
        elif kind == "not":
            return node.operand
        elif kind == "negcond":
            node.test = ast.UnaryOp(op=ast.Not(), operand=node.test)
        elif kind == "boolconst":
            node.value = not node.value
        elif kind == "int+1":
            node.value = node.value + 1
        elif kind == "int-1":
            node.value = node.value - 1
        elif kind == "del":
            return ast.copy_location(ast.Pass(), node)
        elif kind == "break->continue":
            return ast.copy_location(ast.Continue(), node)
        elif kind == "continue->break":
            return ast.copy_location(ast.Break(), node)
        return node


def mutants_of(path):
    src = open(path).read()
    tree = ast.parse(src)
    col = Collector()
    col.visit(tree)
    lines = src.splitlines()
    for pt in col.points:
        t = copy.deepcopy(tree)
        ap = Applier(pt)
        t = ap.visit(t)
        if not ap.done:
            continue
        ast.fix_missing_locations(t)
        try:
            new = ast.unparse(t)
            compile(new, path, "exec")
        except Exception:
            continue
        ln = pt[3]
        yield {"kind": pt[0], "line": ln, "source": lines[ln - 1].strip() if ln and ln <= len(lines) else ""}, new


def run_one(pid, rel, meta, new_src, check_args, jobs_per_check):
    wd = tempfile.mkdtemp(prefix=f"vf-msw-{pid}-", dir="/tmp")
    try:
        shutil.copytree(os.path.join(REPO, "solvor"), os.path.join(wd, "solvor"),
                        ignore=shutil.ignore_patterns("__pycache__", "*.so"))
        shutil.copytree(os.path.join(REPO, "tests"), os.path.join(wd, "tests"), ignore=shutil.ignore_patterns("__pycache__"))
        shutil.copy(os.path.join(REPO, "pyproject.toml"), wd)
        # normalised original for the diff shown in the report
        open(os.path.join(wd, rel), "w").write(new_src)
        env = dict(os.environ, PYTHONDONTWRITEBYTECODE="1", PYTHONHASHSEED="0")
        try:
            t = subprocess.run([PY, "-m", "pytest", "-q", "-x", "-p", "no:cacheprovider", "--no-cov", "--timeout=120",
                                "tests/solvors"], cwd=wd, env=env, capture_output=True, text=True, timeout=900)
            tests_ok = t.returncode == 0
            tail = (t.stdout.strip().splitlines() or [""])[-1]
        except subprocess.TimeoutExpired:
            tests_ok, tail = False, "timeout"
        meta = dict(meta, file=rel, tests="pass" if tests_ok else "fail", tests_tail=tail[-120:])
        if not tests_ok:
            meta["verdict"] = "killed-by-tests"
            return meta
        ev = os.path.join(wd, "ev")
        os.makedirs(ev)
        env2 = dict(os.environ, VERIF_REPO=wd, VERIF_EVIDENCE_DIR=ev, VERIF_REPLAY_DIR=ev, VERIF_JOBS=str(jobs_per_check))
        try:
            c = subprocess.run([os.path.join(ROOT, "check"), pid] + check_args, cwd=ROOT, env=env2, capture_output=True,
                               text=True, timeout=3600)
            out = c.stdout + c.stderr
            nviol = sum(1 for l in out.splitlines() if l.startswith(f"VIOLATION property={pid}"))
            meta["check_rc"] = c.returncode
            meta["witness"] = next((l.strip()[:300] for l in out.splitlines() if "class=" in l), None)
            meta["verdict"] = "caught" if nviol else ("MISSED" if c.returncode == 0 else "inconclusive")
        except subprocess.TimeoutExpired:
            meta["verdict"] = "inconclusive"
            meta["witness"] = "check timeout"
        return meta
    finally:
        shutil.rmtree(wd, ignore_errors=True)


def main():
    ap = argparse.ArgumentParser()
    ap.add_argument("pid")
    ap.add_argument("--max", type=int, default=60)
    ap.add_argument("--jobs", type=int, default=6)
    ap.add_argument("--jobs-per-check", type=int, default=2)
    ap.add_argument("--seed", type=int, default=0)
    ap.add_argument("--files", default=None)
    ap.add_argument("--out", default=None)
    ap.add_argument("--check-args", default="")
    a = ap.parse_args()
    props = {json.loads(l)["id"]: json.loads(l) for l in open(os.path.join(ROOT, "properties.jsonl"))}
    files = a.files.split(",") if a.files else [f for f in props[a.pid]["anchors"]["files"] if f.endswith(".py")]
    files = [f for f in files if os.path.exists(os.path.join(REPO, f))]
    allm = []
    for rel in files:
        for meta, new in mutants_of(os.path.join(REPO, rel)):
            allm.append((rel, meta, new))
    rng = random.Random(a.seed)
    rng.shuffle(allm)
    chosen = allm[: a.max]
    print(f"{a.pid}: {len(allm)} first-order mutants in {files}; running {len(chosen)}", flush=True)
    res = []
    with ThreadPoolExecutor(a.jobs) as ex:
        futs = [ex.submit(run_one, a.pid, rel, meta, new, a.check_args.split(), a.jobs_per_check) for rel, meta, new in chosen]
        for f in futs:
            r = f.result()
            res.append(r)
            print(f"  {r['verdict']:16s} {r['file']}:{r['line']} [{r['kind']}] {r['source'][:90]}", flush=True)
    summary = {}
    for r in res:
        summary[r["verdict"]] = summary.get(r["verdict"], 0) + 1
    out = a.out or os.path.join(ROOT, "selftest", "mutsweep", f"{a.pid}.json")
    os.makedirs(os.path.dirname(out), exist_ok=True)
    json.dump({"property": a.pid, "files": files, "population": len(allm), "sampled": len(chosen), "seed": a.seed,
               "summary": summary, "mutants": res}, open(out, "w"), indent=1)
    print(f"{a.pid}: {summary}")


if __name__ == "__main__":
    main()
