#!/bin/sh
# tools/replaysweep.sh [dir]   (self-test, not a registered check)
# Replays every shrunk witness that the mutant / seeded-change runs left in <dir> (default /tmp/vf-mut-evidence) against
# the unchanged tree.  Shrunk witnesses sit at the edge of the input space; one that does not hold on the unchanged tree is
# either a false alarm of the judge or a genuine defect the generators never reach (this is how the empty-formula defect of
# solve_sat was found).  Prints one line per replay that does not hold.
D=${1:-/tmp/vf-mut-evidence}
cd /verif
ls $D/C[0-9][0-9]-*.json | xargs -P 6 -I{} sh -c '
f={}; p=$(basename $f | cut -c1-3)
out=$(VERIF_EVIDENCE_DIR=/tmp/vf-rp VERIF_REPLAY_DIR=/tmp/vf-rp timeout 300 ./check $p --replay $f 2>&1); rc=$?
if [ $rc -ne 0 ]; then echo "RC=$rc $f $(echo "$out" | grep -E "class=|VIOLATION|inconclusive|Traceback" | head -2 | tr "\n" " " | cut -c1-300)"; fi
'
echo REPLAY-ALL-DONE
