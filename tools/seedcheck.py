#!/usr/bin/env python3
"""tools/seedcheck.py <seed-worktree> <k> <Cxx> [--no-tests] [check args...]
Confirm an independently written seeded break and run our check against it:
  1. copy SEEDED/{patch_k.diff,demo_k.py,meta_k.json} to /verif/seeded/<Cxx>-<k>/
  2. fresh scratch worktree of /repo HEAD: demo must exit 0; apply patch: demo must exit != 0;
     tests/solvors must pass with the patch (unless --no-tests)
  3. run ./check <Cxx> against the patched scratch worktree (VERIF_REPO) and record whether it is caught
Never touches /repo's working tree."""
import json, os, shutil, subprocess, sys, tempfile, time

ROOT = os.path.dirname(os.path.dirname(os.path.abspath(__file__)))
src, k, prop = sys.argv[1], sys.argv[2], sys.argv[3]
rest = sys.argv[4:]
run_tests = "--no-tests" not in rest
rest = [a for a in rest if a != "--no-tests"]
rnd = os.environ.get("SEED_ROUND")
dst = os.path.join(ROOT, "seeded", f"{prop}-{rnd}-{k}" if rnd else f"{prop}-{k}")
os.makedirs(dst, exist_ok=True)
for a, b in ((f"patch_{k}.diff", "patch.diff"), (f"demo_{k}.py", "demo.py"), (f"meta_{k}.json", "seeder_meta.json")):
    p = os.path.join(src, "SEEDED", a)
    if os.path.exists(p):
        shutil.copy(p, os.path.join(dst, b))
wt = tempfile.mkdtemp(prefix="vf-seed-")
os.rmdir(wt)
subprocess.run(["git", "-C", "/repo", "worktree", "add", "-q", "--detach", wt, "HEAD"], check=True)
meta = {"property": prop, "repo_head": subprocess.run(["git", "-C", "/repo", "rev-parse", "--short", "HEAD"], capture_output=True, text=True).stdout.strip()}
env = dict(os.environ, PYTHONPATH=wt, PYTHONDONTWRITEBYTECODE="1")
try:
    shutil.copy(os.path.join(dst, "demo.py"), os.path.join(wt, "demo.py"))
    def demo():
        r = subprocess.run(["/venv/bin/python", "demo.py"], cwd=wt, env=env, capture_output=True, text=True, timeout=1800)
        return r.returncode, (r.stdout + r.stderr)[-600:]
    rc0, out0 = demo()
    meta["demo_without"] = rc0
    ap = subprocess.run(["git", "-C", wt, "apply", os.path.join(dst, "patch.diff")], capture_output=True, text=True)
    meta["patch_applies"] = ap.returncode == 0
    if ap.returncode != 0:
        meta["apply_error"] = ap.stderr[-300:]
    else:
        rc1, out1 = demo()
        meta["demo_with"] = rc1
        meta["demo_with_output"] = out1
        if run_tests:
            t = subprocess.run(["/venv/bin/python", "-m", "pytest", "-q", "-p", "no:cacheprovider", "--no-cov", "tests/solvors"],
                               cwd=wt, env=env, capture_output=True, text=True, timeout=3600)
            meta["tests_solvors"] = t.stdout.strip().splitlines()[-1] if t.stdout.strip() else "no output"
            meta["tests_pass"] = t.returncode == 0
        t0 = time.time()
        e2 = dict(os.environ, VERIF_REPO=wt, VERIF_EVIDENCE_DIR="/tmp/vf-mut-evidence", VERIF_REPLAY_DIR="/tmp/vf-mut-evidence")
        os.makedirs("/tmp/vf-mut-evidence", exist_ok=True)
        c = subprocess.run(["./check", prop, *rest], cwd=ROOT, env=e2, capture_output=True, text=True)
        lines = c.stdout.splitlines()
        meta["check_cmd"] = "VERIF_REPO=<patched worktree> ./check " + " ".join([prop, *rest])
        meta["check_exit"] = c.returncode
        meta["check_caught"] = any(l.startswith(f"VIOLATION property={prop}") for l in lines)
        meta["check_wall_s"] = round(time.time() - t0, 1)
        meta["check_first_witnesses"] = [l.strip()[:300] for l in lines if "class=" in l][:3]
        meta["check_summary"] = [l for l in lines if l.startswith(prop + " tier=")][:1]
finally:
    subprocess.run(["git", "-C", "/repo", "worktree", "remove", "--force", wt])
sm = os.path.join(dst, "seeder_meta.json")
if os.path.exists(sm):
    try:
        j = json.load(open(sm))
        meta["breaks"] = j.get("summary")
        meta["needs"] = j.get("needs")
    except Exception:
        pass
json.dump(meta, open(os.path.join(dst, "meta.json"), "w"), indent=1)
print(json.dumps({k: meta.get(k) for k in ("property", "demo_without", "demo_with", "tests_solvors", "check_caught", "check_wall_s", "check_first_witnesses")}, indent=1))
