#!/bin/sh
# tools/selftest.sh <Cxx> [check args...] : run every selftest/<Cxx>/*.diff through tools/mutant.sh
P="$1"; shift
cd "$(dirname "$0")/.." || exit 2
c=0; m=0
for d in selftest/$P/*.diff; do
  [ -f "$d" ] || continue
  if tools/mutant.sh "$P" "$d" "$@" > /tmp/vf-selftest-$$.out 2>&1; then c=$((c+1)); else m=$((m+1)); fi
  tail -n 1 /tmp/vf-selftest-$$.out
done
rm -f /tmp/vf-selftest-$$.out
echo "SELFTEST $P caught=$c missed=$m"
