"""Shared pieces: per-case observation record, guarded solver calls, canonical hashing."""

import base64
import copy
import hashlib
import os
import pickle
import sys
import traceback

from vf.fuel import FuelExhausted, Meter

DEFAULT_BUDGET = 3_000_000


class Obs:
    """What the monitors saw while one case ran."""

    def __init__(self):
        self.violations = []  # list of (class, detail)
        self.events = {}  # monitor event counters
        self.outcomes = {}  # status histogram etc.
        self.nontrivial = False
        self.modes = {}  # oracle mode counters (exact / certificate_only ...)
        self.inconclusive = []  # reasons
        self.fuel_max = 0
        self.calls = 0
        self.mech = set()  # mechanism events of this execution (for finding attribution)

    def violate(self, cls, detail=""):
        self.violations.append((cls, str(detail)[:2000]))

    def event(self, name, n=1):
        self.events[name] = self.events.get(name, 0) + n

    def outcome(self, name, n=1):
        name = str(name)
        self.outcomes[name] = self.outcomes.get(name, 0) + n

    def mode(self, name, n=1):
        self.modes[name] = self.modes.get(name, 0) + n

    def inconc(self, reason):
        self.inconclusive.append(str(reason)[:500])

    def to_json(self):
        return {
            "violations": self.violations,
            "events": self.events,
            "outcomes": self.outcomes,
            "nontrivial": bool(self.nontrivial),
            "modes": self.modes,
            "inconclusive": self.inconclusive,
            "fuel_max": self.fuel_max,
            "calls": self.calls,
            "mech": sorted(self.mech),
        }


class Crash:
    """Result placeholder when the call raised or ran out of fuel."""

    def __init__(self, kind, exc):
        self.kind = kind  # 'crash' | 'hang'
        self.exc = exc

    def __repr__(self):
        return f"<{self.kind}: {self.exc!r}>"


# ---- "the caller owns what it gets back" ----------------------------------------------------------------------------
# Every Result handed back through call() is given to the harness as a deep copy; the object the library returned is
# kept and, when the next library call starts, its plain containers (lists / dicts / sets reachable from .solution and
# .solutions) are emptied - what a caller does who sorts, pops or clears a returned list in place.  Containers that the
# caller itself passed in are left alone.  A library that hands out containers it still uses (a memoised answer, a
# work buffer, state shared between two Results) then shows a wrong answer at the public boundary of a later call.
USER_RECURSION_LIMIT = int(os.environ.get("VERIF_USER_RECURSION_LIMIT", "1000"))  # 0: leave the worker's limit
_PENDING = []
SCRIBBLE = os.environ.get("VERIF_NO_SCRIBBLE") != "1"
SCRIBBLED = [0]
JUNK = "<caller's own data>"


def _plain_containers(x, out, depth=0):
    if depth > 4 or id(x) in out:
        return
    if isinstance(x, (list, dict, set)):
        out[id(x)] = x
    if isinstance(x, dict):
        for v in list(x.values())[:200]:
            _plain_containers(v, out, depth + 1)
    elif isinstance(x, (list, tuple, set, frozenset)):
        for v in list(x)[:200]:
            _plain_containers(v, out, depth + 1)


def _scribble_pending():
    while _PENDING:
        orig, own = _PENDING.pop()
        found = {}
        _plain_containers(getattr(orig, "solution", None), found)
        _plain_containers(getattr(orig, "solutions", None), found)
        for i, c in found.items():
            if i in own:
                continue
            try:
                # emptied and then used for something else, as a caller would who recycles the list / merges other
                # data into the dict: a library that still holds the container sees foreign content, not just nothing
                c.clear()
                if isinstance(c, list):
                    c.append(JUNK)
                elif isinstance(c, dict):
                    c[JUNK] = JUNK
                else:
                    c.add(JUNK)
                SCRIBBLED[0] += 1
            except Exception:
                pass


def _own_result(res, args, kwargs):
    """Returns what the harness should see (a deep copy) and queues the library's object for scribbling."""
    if not SCRIBBLE or not (hasattr(res, "solution") and hasattr(res, "status") and hasattr(res, "objective")):
        return res
    try:
        seen = copy.deepcopy(res)
    except Exception:
        return res
    own = {}
    _plain_containers(args, own)
    _plain_containers(kwargs, own)
    _PENDING.append((res, own))
    return seen


def call(obs, fn, *args, budget=DEFAULT_BUDGET, what=None, hang_cls="hang", expect=(), **kwargs):
    """Run fn under a fuel budget.  Returns the result, or a Crash (after recording the violation).

    expect: exception types that are an acceptable, documented answer for this input
    (returned as Crash(kind='expected') without a violation).
    """
    name = what or getattr(fn, "__name__", str(fn))
    obs.calls += 1
    m = Meter(budget)
    if _PENDING:
        before = SCRIBBLED[0]
        _scribble_pending()
        if SCRIBBLED[0] > before:
            obs.event("caller.returned-containers-emptied", SCRIBBLED[0] - before)
    # the interpreter's default recursion limit, counted from here (what a user calling the library from a shallow
    # stack gets) - not the worker's raised limit, which exists for the oracles: a change that doubles the frames
    # per search level, or turns a loop into a recursion, shows as RecursionError at sizes the library used to handle
    old_limit = sys.getrecursionlimit()
    if USER_RECURSION_LIMIT:
        depth, f = 0, sys._getframe()
        while f is not None:
            depth += 1
            f = f.f_back
        sys.setrecursionlimit(depth + USER_RECURSION_LIMIT)
    try:
        try:
            with m:
                res = fn(*args, **kwargs)
        finally:
            sys.setrecursionlimit(old_limit)
    except FuelExhausted as e:
        obs.fuel_max = max(obs.fuel_max, m.used)
        obs.violate(hang_cls, f"{name}: no return within {budget} steps (at {e})")
        return Crash("hang", e)
    except expect as e:  # type: ignore[misc]
        obs.fuel_max = max(obs.fuel_max, m.used)
        return Crash("expected", e)
    except RecursionError as e:
        obs.fuel_max = max(obs.fuel_max, m.used)
        obs.violate("crash:RecursionError", f"{name}: {e}")
        return Crash("crash", e)
    except Exception as e:
        obs.fuel_max = max(obs.fuel_max, m.used)
        tb = traceback.format_exc(limit=-4)
        obs.violate(f"crash:{type(e).__name__}", f"{name}: {e!r}\n{tb}")
        return Crash("crash", e)
    obs.fuel_max = max(obs.fuel_max, m.used)
    return _own_result(res, args, kwargs)


def is_crash(x):
    return isinstance(x, Crash)


def case_hash(case):
    try:
        blob = repr(_canon(case)).encode()
    except Exception:
        blob = pickle.dumps(case)
    return hashlib.sha1(blob).hexdigest()[:16]


def _canon(x):
    if isinstance(x, dict):
        return ("d", tuple(sorted(((repr(k), _canon(v)) for k, v in x.items()))))
    if isinstance(x, (list, tuple)):
        return (type(x).__name__[0], tuple(_canon(v) for v in x))
    if isinstance(x, (set, frozenset)):
        return ("s", tuple(sorted(repr(_canon(v)) for v in x)))
    return x


def pack(case):
    return base64.b64encode(pickle.dumps(case)).decode()


def unpack(s):
    return pickle.loads(base64.b64decode(s))


def short(x, n=600):
    r = repr(x)
    return r if len(r) <= n else r[: n - 3] + "..."


def status_name(res):
    st = getattr(res, "status", None)
    return getattr(st, "name", str(st))


def fresh(x):
    """An object equal to x but (where CPython allows) not identical to it: labels that are equal must be treated
    as the same node even when they are different objects (tuples, run-time strings, ints above 256)."""
    if isinstance(x, tuple):
        return tuple([fresh(e) for e in x])
    if isinstance(x, str):
        return "".join(list(x)) if len(x) > 1 else x
    if isinstance(x, bool):
        return x
    if isinstance(x, int):
        return int(str(x))
    if isinstance(x, float):
        return float(repr(x))
    if isinstance(x, frozenset):
        return frozenset(fresh(e) for e in x)
    return x
