"""Logical step meter ("fuel") built on sys.monitoring.

One unit of fuel = one jump instruction or one Python function entry executed inside the
repository under test (code objects whose file lies under <repo>/solvor).  The count is
independent of machine load.  When the budget of the innermost active meter is exceeded,
FuelExhausted is raised *inside* the running solver, which aborts infinite loops.
"""

import os
import sys

mon = sys.monitoring
TOOL = 3


class FuelExhausted(BaseException):
    """BaseException so that 'except Exception' inside the code under test cannot swallow it."""


_state = {"used": 0, "budget": None, "installed": False, "prefix": None, "depth": 0}


def _install():
    if _state["installed"]:
        return
    repo = os.environ.get("VERIF_REPO", "/repo")
    _state["prefix"] = os.path.join(os.path.realpath(repo), "solvor") + os.sep
    mon.use_tool_id(TOOL, "vf-fuel")
    prefix = _state["prefix"]
    st = _state

    def on_jump(code, src, dst):
        if not code.co_filename.startswith(prefix):
            return mon.DISABLE
        st["used"] += 1
        b = st["budget"]
        if b is not None and st["used"] > b:
            st["budget"] = None  # fire once
            raise FuelExhausted(f"{code.co_qualname}@{dst}")

    def on_start(code, off):
        if not code.co_filename.startswith(prefix):
            return mon.DISABLE
        st["used"] += 1
        b = st["budget"]
        if b is not None and st["used"] > b:
            st["budget"] = None
            raise FuelExhausted(f"{code.co_qualname}@start")

    mon.register_callback(TOOL, mon.events.JUMP, on_jump)
    mon.register_callback(TOOL, mon.events.PY_START, on_start)
    _state["installed"] = True


class Meter:
    """with Meter(budget) as m: ...;  m.used afterwards.  Not re-entrant (one per case)."""

    def __init__(self, budget):
        self.budget = budget
        self.used = 0
        self.exhausted = False

    def __enter__(self):
        _install()
        _state["used"] = 0
        _state["budget"] = self.budget
        mon.set_events(TOOL, mon.events.JUMP | mon.events.PY_START)
        return self

    def __exit__(self, et, ev, tb):
        mon.set_events(TOOL, 0)
        self.used = _state["used"]
        _state["budget"] = None
        if et is not None and issubclass(et, FuelExhausted):
            self.exhausted = True
        return False


def used_now():
    return _state["used"]
