"""Seeded CNF generators (strata of C01/C02)."""


def _renumber(clauses, rng, assumptions=()):
    """Map variables 1..n to arbitrary (non-contiguous, shuffled) positive ints in a third of the cases."""
    if rng.random() > 0.34:
        return clauses, list(assumptions)
    vs = sorted({abs(l) for c in clauses for l in c} | {abs(l) for l in assumptions})
    if not vs:
        return clauses, list(assumptions)
    span = len(vs) + rng.randint(0, 4)
    targets = rng.sample(range(1, span + 1), len(vs))
    mp = dict(zip(vs, targets))
    f = lambda l: mp[abs(l)] * (1 if l > 0 else -1)
    return [[f(l) for l in c] for c in clauses], [f(l) for l in assumptions]


def rand_clause(rng, n, k):
    k = min(k, n)
    vs = rng.sample(range(1, n + 1), k)
    return [v if rng.random() < 0.5 else -v for v in vs]


def tiny(rng):
    n = rng.randint(1, 8)
    m = rng.randint(1, 14)
    clauses = []
    for _ in range(m):
        r = rng.random()
        k = 1 if r < 0.2 else 2 if r < 0.55 else 3 if r < 0.85 else 4
        c = rand_clause(rng, n, k)
        if rng.random() < 0.05 and c:
            c.append(c[0])  # duplicate literal
        if rng.random() < 0.04 and c:
            c.append(-c[0])  # tautology
        clauses.append(c)
    if clauses and rng.random() < 0.15:
        clauses.append(list(rng.choice(clauses)))  # duplicate clause
    r = rng.random()
    if r < 0.01:
        return [[] for _ in range(rng.randint(1, 2))]  # only empty clauses: unsatisfiable, no variable at all
    if r < 0.03:
        clauses.insert(rng.randrange(len(clauses) + 1), [])  # an empty clause among others
    return clauses


def threshold(rng, nmin=10, nmax=16):
    n = rng.randint(nmin, nmax)
    ratio = rng.uniform(3.5, 5.0)
    m = int(n * ratio)
    clauses = [rand_clause(rng, n, 3) for _ in range(m)]
    for _ in range(rng.randint(0, 3)):
        clauses.append(rand_clause(rng, n, rng.choice([1, 2, 2])))
    return clauses


def planted(rng, nmin=30, nmax=80, ratio=None):
    n = rng.randint(nmin, nmax)
    model = {v: rng.random() < 0.5 for v in range(1, n + 1)}
    ratio = ratio or rng.uniform(3.0, 4.3)
    clauses = []
    while len(clauses) < int(n * ratio):
        c = rand_clause(rng, n, 3)
        if any(model[abs(l)] == (l > 0) for l in c):
            clauses.append(c)
    return clauses, model


def pigeonhole(p, h):
    """p pigeons into h holes; UNSAT iff p > h."""
    var = lambda i, j: i * h + j + 1
    clauses = [[var(i, j) for j in range(h)] for i in range(p)]
    for j in range(h):
        for i1 in range(p):
            for i2 in range(i1 + 1, p):
                clauses.append([-var(i1, j), -var(i2, j)])
    return clauses


def parity_chain(rng, n, odd=True):
    """x1 xor x2 xor ... constraints on a cycle that are jointly unsatisfiable when `odd`."""
    clauses = []
    # x_i xor x_{i+1} = 1 for i in cycle of length n: satisfiable iff n even
    for i in range(1, n + 1):
        a, b = i, i % n + 1
        clauses.append([a, b])
        clauses.append([-a, -b])
    if not odd:
        return clauses
    if n % 2 == 0:
        # break it: force x1 == x2 as well
        clauses.append([1, -2])
        clauses.append([-1, 2])
    return clauses


def entailed_negation(rng):
    """planted-style satisfiable formula F plus the negation of a clause entailed by F => UNSAT by construction.
    The entailed clause is a resolvent of two clauses of F."""
    clauses, model = planted(rng, 20, 40, ratio=rng.uniform(2.0, 3.5))
    # pick two clauses that clash on exactly one variable
    for _ in range(200):
        c1, c2 = rng.sample(clauses, 2)
        clash = [l for l in c1 if -l in c2]
        if len(clash) == 1:
            res = sorted(set([l for l in c1 if l != clash[0]] + [l for l in c2 if l != -clash[0]]))
            if any(-l in res for l in res) or not res:
                continue
            return clauses + [[-l] for l in res]
    # fallback: direct contradiction
    return clauses + [[1], [-1]]


def with_assumptions(rng, clauses, kmax=3):
    vs = sorted({abs(l) for c in clauses for l in c})
    k = rng.randint(0, kmax)
    if rng.random() < 0.08:
        k = kmax + 2  # more literals than usual: repeats and contradictory pairs become likely
    out = []
    if not vs:
        return out
    for _ in range(k):
        r = rng.random()
        if r < 0.15:
            v = max(vs) + rng.randint(1, 2)  # variable that occurs in no clause
        else:
            v = rng.choice(vs)
        units = [c[0] for c in clauses if len(c) == 1]
        if units and rng.random() < 0.25:
            lit = -rng.choice(units)  # contradict a unit clause
        else:
            lit = v if rng.random() < 0.5 else -v
        if -lit in out and rng.random() < 0.7:
            continue  # (a contradictory pair x, -x is valid input too: the conjunction is then unsatisfiable)
        out.append(lit)
    return out


def tuning(rng):
    return {
        "luby_factor": rng.choice([1, 2, 5, 100]),
        "max_restarts": rng.choice([0, 3, 50, 10_000]),
        "max_conflicts": rng.choice([1, 10, 500, 100_000]),
    }


def renumber(clauses, rng, assumptions=()):
    return _renumber(clauses, rng, assumptions)
