"""Seeded generators of CP model specs (see vf/oracles/cp.py for the spec format)."""

MAX_PRODUCT = 4096


def _vars(rng, nmin=1, nmax=4, wmax=5, arbitrary=True, anonymous=0.0, lo_choices=None):
    n = rng.randint(nmin, nmax)
    out = []
    for i in range(n):
        if arbitrary and rng.random() < 0.5:
            lb = rng.choice(lo_choices or [-3, -2, -1, 0, 1, 2, 5])
        else:
            lb = 0
        ub = lb + rng.randint(0, wmax - 1)
        name = None if rng.random() < anonymous else f"v{i}"
        out.append((name, lb, ub))
    return out


def _shrink_domains(vars_):
    size = 1
    out = []
    for name, lb, ub in vars_:
        w = ub - lb + 1
        if size * w > MAX_PRODUCT:
            w = max(1, MAX_PRODUCT // size)
            ub = lb + w - 1
        size *= w
        out.append((name, lb, ub))
    return out


def V(i):
    return ("var", i)


def C(k):
    return ("const", k)


def _small(rng):
    return rng.choice([-3, -2, -1, 0, 1, 1, 2, 2, 3, 4])


def supported_rel(rng, n):
    """Shapes both back-ends implement natively: x ? c, x ? y, x+c ? y+d, x+c ? d."""
    op = rng.choice(["eq", "ne"])
    i = rng.randrange(n)
    j = rng.randrange(n)
    r = rng.random()
    if r < 0.25:
        return ("rel", op, V(i), C(_small(rng)))
    if r < 0.5 and n > 1:
        while j == i:
            j = rng.randrange(n)
        return ("rel", op, V(i), V(j))
    if r < 0.8 and n > 1:
        while j == i:
            j = rng.randrange(n)
        return ("rel", op, ("add", V(i), C(_small(rng))), ("add", V(j), C(_small(rng))))
    return ("rel", op, ("add", V(i), C(_small(rng))), C(_small(rng)))


def rand_expr(rng, n, depth=0):
    r = rng.random()
    if depth >= 2:
        # leaves: mostly variables, sometimes a constant - `c - x` (the library's reversed difference) has to be
        # able to appear *below* another operator too
        return V(rng.randrange(n)) if rng.random() < 0.8 else C(_small(rng))
    if r < 0.3:
        return V(rng.randrange(n))
    if r < 0.38:
        return C(_small(rng))
    if r < 0.62:
        return ("add", rand_expr(rng, n, depth + 1), rand_expr(rng, n, depth + 1))
    if r < 0.8:
        return ("sub", rand_expr(rng, n, depth + 1), rand_expr(rng, n, depth + 1))
    k = rng.choice([0, 1, -1, 2, 3, -2])
    if r < 0.9:
        return ("mul", rand_expr(rng, n, depth + 1), k)
    return ("rmul", k, rand_expr(rng, n, depth + 1))


def grammar_rel(rng, n):
    op = rng.choice(["eq", "ne"])
    r = rng.random()
    if r < 0.2:
        # sums of 1..k variables on either side
        k1 = rng.randint(1, min(3, n + 1))
        left = V(rng.randrange(n))
        for _ in range(k1 - 1):
            left = ("add", left, V(rng.randrange(n)))
        right = C(rng.randint(-2, 8)) if rng.random() < 0.6 else V(rng.randrange(n))
        return ("rel", op, left, right) if rng.random() < 0.7 else ("rel", op, right, left)
    if r < 0.3:
        return ("rel", op, ("sub", C(rng.randint(0, 6)), V(rng.randrange(n))), rand_expr(rng, n, 1))
    if r < 0.4:
        return ("rel", op, ("sub", V(rng.randrange(n)), V(rng.randrange(n))), rng.choice([C(_small(rng)), V(rng.randrange(n))]))
    if r < 0.5:
        return ("rel", op, ("rmul", rng.choice([2, 3, -1]), V(rng.randrange(n))), ("add", V(rng.randrange(n)), C(_small(rng))))
    if r < 0.58:
        # a reversed difference c - x under a factor, on the right of a subtraction, or inside a sum
        rd = ("sub", C(rng.choice([1, 2, 3, 4, 5, -1, -2])), V(rng.randrange(n)))
        k = rng.choice([2, 3, -1, -2])
        shape = rng.randrange(5)
        if shape == 0:
            a = ("mul", rd, k)
        elif shape == 1:
            a = ("rmul", k, rd)
        elif shape == 2:
            a = ("sub", V(rng.randrange(n)), rd)
        elif shape == 3:
            a = ("add", ("mul", rd, k), V(rng.randrange(n)))
        else:
            a = ("sub", ("rmul", k, V(rng.randrange(n))), ("mul", rd, rng.choice([1, 2, -1])))
        b = rng.choice([C(_small(rng)), V(rng.randrange(n)), rand_expr(rng, n, 1)])
        return ("rel", op, a, b) if rng.random() < 0.6 else ("rel", op, b, a)
    a, b = rand_expr(rng, n), rand_expr(rng, n)
    if a[0] == "const" and b[0] == "const":
        a = V(rng.randrange(n))
    return ("rel", op, a, b)


def _alldiff_idx(rng, n):
    idx = rng.sample(range(n), rng.randint(2, n))
    if rng.random() < 0.05:
        idx.insert(rng.randrange(len(idx) + 1), rng.choice(idx))  # a variable listed twice never differs from itself
    return idx


def sum_con(rng, n, vars_, kmax=5):
    k = rng.randint(1, kmax) if rng.random() > 0.04 else 0  # the empty sum is a sum (= 0)
    idx = [rng.randrange(n) for _ in range(k)]  # repeated variables allowed
    lo = sum(vars_[i][1] for i in idx)
    hi = sum(vars_[i][2] for i in idx)
    target = rng.randint(lo - 1, hi + 1)
    return (rng.choice(["sum_eq", "sum_le", "sum_ge"]), idx, target)


def gen_spec(stratum, rng):
    spec = _gen_spec(stratum, rng)
    # how each variable collection is handed to the constructors (list / tuple / one-shot generator / a list the
    # caller keeps appending to afterwards)
    spec["containers"] = [rng.choice(["list", "list", "list", "tuple", "gen", "mutate"]) for _ in spec["cons"]]
    return spec


def _gen_spec(stratum, rng):
    if stratum == "supported":
        vars_ = _vars(rng, 1, 4, 5)
        n = len(vars_)
        cons = []
        for _ in range(rng.randint(1, 4)):
            r = rng.random()
            if r < 0.55:
                cons.append(supported_rel(rng, n))
            elif r < 0.75 and n >= 2:
                cons.append(("all_different", _alldiff_idx(rng, n)))
            elif r < 0.9:
                cons.append(sum_con(rng, n, vars_, 3))
            else:
                k = rng.randint(1, min(3, n))
                idx = rng.sample(range(n), k)
                cons.append(("no_overlap", idx, [rng.randint(1, 3) for _ in idx]))
        return {"vars": _shrink_domains(vars_), "cons": cons}
    if stratum == "grammar":
        vars_ = _vars(rng, 1, 4, 4)
        n = len(vars_)
        cons = [grammar_rel(rng, n) for _ in range(rng.randint(1, 3))]
        if rng.random() < 0.25 and n >= 2:
            cons.append(("all_different", _alldiff_idx(rng, n)))
        return {"vars": _shrink_domains(vars_), "cons": cons}
    if stratum == "global":
        r = rng.random()
        if r < 0.35:
            n = rng.randint(2, 5)
            wide = rng.random() < 0.5
            vars_ = []
            for i in range(n):
                if wide:
                    lb = rng.choice([-1, 0, 0, 1])
                    ub = rng.choice([n - 1, n - 1, n, n - 2])
                    ub = max(ub, lb)
                else:
                    lb, ub = 0, n - 1
                vars_.append((f"s{i}", lb, ub))
            cons = [("circuit", list(range(n)))]
            if rng.random() < 0.3:
                cons.append(("rel", "ne", V(0), C(rng.randrange(n))))
        elif r < 0.7:
            n = rng.randint(1, 4)
            vars_ = [(f"t{i}", rng.choice([0, 0, 1]), 0) for i in range(n)]
            vars_ = [(nm, lb, lb + rng.randint(0, 4)) for nm, lb, _ in vars_]
            du = [rng.randint(0, 3) for _ in range(n)]
            de = [rng.randint(0, 3) for _ in range(n)]
            cap = rng.randint(1, 5)
            idx = list(range(n))
            if n >= 2 and rng.random() < 0.25:
                idx[rng.randrange(1, n)] = idx[0]  # one start variable drives two tasks
            cons = [("cumulative", idx, du, de, cap)]
            if rng.random() < 0.3:
                cons.append(sum_con(rng, n, vars_, 3))
        else:
            n = rng.randint(1, 4)
            vars_ = [(f"t{i}", 0, rng.randint(0, 5)) for i in range(n)]
            du = [rng.choice([0, 1, 1, 2, 3]) for _ in range(n)]
            cons = [("no_overlap", list(range(n)), du)]
            if rng.random() < 0.3 and n >= 2:
                cons.append(("rel", "ne", V(0), V(1)))
        return {"vars": _shrink_domains(vars_), "cons": cons}
    if stratum == "cumulative-wide":
        # many simultaneously active start literals at one time point (beyond the old cut-off of 10)
        n = rng.randint(3, 4)
        vars_ = [(f"t{i}", 0, rng.randint(2, 3)) for i in range(n)]
        du = [rng.randint(2, 4) for _ in range(n)]
        de = [rng.randint(1, 3) for _ in range(n)]
        cap = rng.randint(2, 5)
        return {"vars": vars_, "cons": [("cumulative", list(range(n)), du, de, cap)]}
    if stratum == "sums":
        vars_ = _vars(rng, 1, 5, 4, lo_choices=[-2, -1, 0, 1, 2])
        n = len(vars_)
        cons = [sum_con(rng, n, vars_, 5) for _ in range(rng.randint(1, 2))]
        return {"vars": _shrink_domains(vars_), "cons": cons}
    if stratum == "anonymous":
        vars_ = _vars(rng, 2, 4, 4, anonymous=0.5)
        if all(v[0] is None for v in vars_):
            vars_[0] = ("v0", vars_[0][1], vars_[0][2])
        n = len(vars_)
        cons = []
        for _ in range(rng.randint(1, 3)):
            r = rng.random()
            if r < 0.5:
                cons.append(supported_rel(rng, n))
            elif r < 0.75:
                cons.append(("all_different", _alldiff_idx(rng, n)))
            else:
                cons.append(grammar_rel(rng, n))
        return {"vars": _shrink_domains(vars_), "cons": cons}
    if stratum == "mixed":
        vars_ = _vars(rng, 2, 4, 4)
        n = len(vars_)
        cons = []
        for _ in range(rng.randint(2, 4)):
            r = rng.random()
            if r < 0.35:
                cons.append(grammar_rel(rng, n))
            elif r < 0.55:
                cons.append(supported_rel(rng, n))
            elif r < 0.7:
                cons.append(("all_different", _alldiff_idx(rng, n)))
            elif r < 0.88:
                cons.append(sum_con(rng, n, vars_, 4))
            else:
                idx = rng.sample(range(n), rng.randint(1, min(3, n)))
                cons.append(("no_overlap", idx, [rng.randint(1, 3) for _ in idx]))
        return {"vars": _shrink_domains(vars_), "cons": cons}
    if stratum == "planted-unique":
        # constraints all consistent with one planted assignment and tight enough that it is (nearly) the only
        # solution: any over-pruning by a propagator / encoder shows up as a false INFEASIBLE
        vars_ = _vars(rng, 2, 4, 4)
        n = len(vars_)
        plant = [rng.randint(lb, ub) for _, lb, ub in vars_]
        cons = []

        def lin(i, coef_choices=(1, 1, 2, 3, -1, -2)):
            k = rng.choice(coef_choices)
            if k == 1:
                return V(i), plant[i]
            return (("rmul", k, V(i)) if rng.random() < 0.5 else ("mul", V(i), k)), k * plant[i]

        tries = 0
        while len(cons) < rng.randint(3, 6) and tries < 40:
            tries += 1
            r = rng.random()
            i, j = rng.randrange(n), rng.randrange(n)
            if r < 0.3:
                # a*x + b*y (+ c) == value at plant
                (e1, v1), (e2, v2) = lin(i), lin(j)
                c = _small(rng)
                left = ("add", ("add", e1, e2), C(c)) if c else ("add", e1, e2)
                cons.append(("rel", "eq", left, C(v1 + v2 + c)))
            elif r < 0.65:
                # a*x + b*y != value that the plant does not take, close to it
                (e1, v1), (e2, v2) = lin(i), lin(j)
                off = rng.choice([-2, -1, 1, 2, 3])
                left = ("add", e1, e2) if rng.random() < 0.7 else ("sub", e1, ("rmul", -1, e2)) if False else ("add", e1, e2)
                cons.append(("rel", "ne", left, C(v1 + v2 + off)))
            elif r < 0.8:
                # x + c != y + d (native shape), true at the plant
                c, d = _small(rng), _small(rng)
                if plant[i] + c != plant[j] + d and i != j:
                    cons.append(("rel", "ne", ("add", V(i), C(c)), ("add", V(j), C(d))))
            elif r < 0.9:
                cons.append(("rel", "eq", ("add", V(i), C(plant[j] - plant[i])), V(j)) if i != j else ("rel", "eq", V(i), C(plant[i])))
            else:
                # forbid a neighbouring value of one variable
                w = plant[i] + rng.choice([-1, 1])
                cons.append(("rel", "ne", V(i), C(w)))
        # pin the remaining freedom with value exclusions so that few solutions survive
        for i, (_, lb, ub) in enumerate(vars_):
            for w in range(lb, ub + 1):
                if w != plant[i] and rng.random() < 0.5:
                    cons.append(("rel", "ne", ("rmul", 2, V(i)), C(2 * w)) if rng.random() < 0.3 else ("rel", "ne", V(i), C(w)))
        rng.shuffle(cons)
        return {"vars": _shrink_domains(vars_), "cons": cons}
    raise ValueError(stratum)
