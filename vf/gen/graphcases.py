"""Graph case construction shared by C14 / C15 (builder D).

A case graph is plain data:
    nodes : list of distinct hashable labels, in the order the node iterable will yield them
    adj   : dict label -> list of neighbours in the order the neighbour function will yield them
            (may contain duplicates, self loops, labels that are not in `nodes`, and keys that are
            not in `nodes`)
    ret   : how the neighbour function hands its answer back: list | tuple | iter | gen
    as    : how the node collection is handed over:          list | tuple | iter | keys
"""

from vf.common import fresh as _fresh

RET_KINDS = ("list", "list", "tuple", "iter", "gen")
AS_KINDS = ("list", "list", "tuple", "iter", "keys")


class Neighbors:
    """The neighbour callback; counts its calls (and the calls on labels outside the node set)."""

    def __init__(self, nodes, adj, ret):
        self.adj = adj
        self.ret = ret
        self.ns = set(nodes)
        self.calls = 0
        self.outside_calls = 0

    def __call__(self, v):
        self.calls += 1
        if v not in self.ns:
            self.outside_calls += 1
        # neighbours are handed back as equal-but-distinct objects (re-built tuples/frozensets, run-time strings,
        # ints above 256): node identity is by equality, never by `is`
        lst = [_fresh(w) for w in self.adj.get(v, ())]
        r = self.ret
        if r == "list":
            return lst
        if r == "tuple":
            return tuple(lst)
        if r == "iter":
            return iter(lst)
        return (w for w in lst)


def node_iterable(nodes, kind):
    if kind == "list":
        return list(nodes)
    if kind == "tuple":
        return tuple(nodes)
    if kind == "iter":
        return iter(list(nodes))  # one-shot
    return dict.fromkeys(nodes).keys()


# ------------------------------------------------------------------ labels


def make_labels(rng, n, kind):
    """n distinct labels of the given kind, plus a function producing fresh labels of a similar
    kind that are guaranteed not to be among them (for 'outside' neighbours)."""
    if kind == "int":
        labels = list(range(n))
        outside = [n + 5 + i for i in range(4)] + [-1]
    elif kind == "int-sparse":
        labels = rng.sample(range(-50, 200), n)
        outside = [1000 + i for i in range(5)]
    elif kind == "str":
        pool = [a + b for a in "abcdefghij" for b in ("", "x", "y", "Z")]
        labels = rng.sample(pool, n) if n <= len(pool) else [f"s{i}" for i in range(n)]
        outside = ["OUT%d" % i for i in range(5)]
    elif kind == "tuple":
        pool = [(i, j) for i in range(8) for j in range(8)]
        labels = rng.sample(pool, n) if n <= len(pool) else [(i, i % 7) for i in range(n)]
        outside = [(99, i) for i in range(5)]
    elif kind == "frozenset":
        # what condense() emits; only partially ordered by '<'
        pool = [frozenset(s) for s in ([1], [2], [3], [1, 2], [2, 3], [4], [5], [4, 5], [1, 2, 3], [6], [7], [6, 7],
                                       [8], [9], [8, 9], [10], [1, 10], [11], [12], [11, 12], [13], [14], [15], [16])]
        labels = rng.sample(pool, n) if n <= len(pool) else [frozenset([100 + i]) for i in range(n)]
        outside = [frozenset([900 + i]) for i in range(5)]
    elif kind in ("mixed", "with-none"):
        pool = [0, 1, 2, 3, "a", "b", "c", "", (0,), (1, 2), ("a", 1), frozenset([1]), frozenset(), 2.5, -7,
                "0", (0, 0), b"x", 10**20, (None,)]
        labels = rng.sample(pool, n) if n <= len(pool) else list(range(n))
        if kind == "with-none":
            labels[rng.randrange(n)] = None  # None is hashable, hence a legal label
        outside = ["OUT", (9, 9, 9), 12345, frozenset([77])]
    else:
        raise ValueError(kind)
    return labels, outside


def totally_ordered(labels):
    """Do all pairs of distinct labels compare with '<' (exactly one direction true)?"""
    try:
        for i, a in enumerate(labels):
            for b in labels[i + 1:]:
                if (a < b) == (b < a):
                    return False
        return True
    except TypeError:
        return False


# ------------------------------------------------------------------ directed shapes (edge lists on 0..n-1)


def gnp(rng, n, p, loops=0.0):
    e = []
    for u in range(n):
        for v in range(n):
            if u == v:
                if rng.random() < loops:
                    e.append((u, v))
            elif rng.random() < p:
                e.append((u, v))
    return e


def dag(rng, n, p):
    order = list(range(n))
    rng.shuffle(order)
    return [(order[i], order[j]) for i in range(n) for j in range(i + 1, n) if rng.random() < p]


def blueprint(rng, sizes, p_intra=0.3, p_inter=0.35):
    """Strongly connected blocks of the given sizes joined along a random DAG over the blocks."""
    n = sum(sizes)
    ids = list(range(n))
    rng.shuffle(ids)
    blocks = []
    pos = 0
    for s in sizes:
        blocks.append(ids[pos:pos + s])
        pos += s
    e = []
    for b in blocks:
        if len(b) > 1:
            cyc = b[:]
            rng.shuffle(cyc)
            style = rng.random()
            if style < 0.5:
                e += [(cyc[i], cyc[(i + 1) % len(cyc)]) for i in range(len(cyc))]
            else:
                # ear decomposition: a small cycle, then ears attached to it (no Hamiltonian cycle needed)
                k = rng.randint(2, len(cyc))
                core = cyc[:k]
                e += [(core[i], core[(i + 1) % k]) for i in range(k)]
                have = list(core)
                rest = cyc[k:]
                while rest:
                    ln = rng.randint(1, len(rest))
                    ear, rest = rest[:ln], rest[ln:]
                    a, z = rng.choice(have), rng.choice(have)
                    chain = [a] + ear + [z]
                    e += [(chain[i], chain[i + 1]) for i in range(len(chain) - 1)]
                    have += ear
            for u in b:
                for v in b:
                    if u != v and rng.random() < p_intra / max(1, len(b) - 1):
                        e.append((u, v))
    order = list(range(len(blocks)))
    rng.shuffle(order)
    for i in range(len(order)):
        for j in range(i + 1, len(order)):
            if rng.random() < p_inter:
                for _ in range(rng.randint(1, 2)):
                    e.append((rng.choice(blocks[order[i]]), rng.choice(blocks[order[j]])))
    return n, e


def random_sizes(rng, total, max_block):
    sizes = []
    left = total
    while left > 0:
        s = rng.randint(1, min(max_block, left))
        sizes.append(s)
        left -= s
    return sizes


# ------------------------------------------------------------------ undirected shapes (edge lists on 0..n-1)


def und_gnp(rng, n, p):
    return [(u, v) for u in range(n) for v in range(u + 1, n) if rng.random() < p]


def und_tree(rng, n):
    return [(rng.randrange(i), i) for i in range(1, n)]


def und_cycle(ids):
    k = len(ids)
    if k < 3:
        return [(ids[i], ids[i + 1]) for i in range(k - 1)]
    return [(ids[i], ids[(i + 1) % k]) for i in range(k)]


def und_clique(ids):
    return [(ids[i], ids[j]) for i in range(len(ids)) for j in range(i + 1, len(ids))]


def und_blocks(rng, n_target):
    """Cliques / cycles / single edges glued at shared cut vertices or joined by bridges (a block tree),
    optionally several components and isolated nodes."""
    e = []
    n = 0
    comps = rng.randint(1, 3)
    for _ in range(comps):
        # first block of the component
        k = rng.randint(1, 4)
        ids = list(range(n, n + k))
        n += k
        e += und_clique(ids) if rng.random() < 0.5 else und_cycle(ids)
        members = list(ids)
        for _ in range(rng.randint(0, 4)):
            if n >= n_target:
                break
            kind = rng.choice(["clique", "cycle", "edge", "path"])
            k = 2 if kind == "edge" else rng.randint(2, 5)
            attach = rng.choice(members)
            if rng.random() < 0.5:
                # glue at a shared vertex
                ids = [attach] + list(range(n, n + k - 1))
                n += k - 1
            else:
                # join by a bridge
                ids = list(range(n, n + k))
                n += k
                e.append((attach, rng.choice(ids)))
            if kind == "clique":
                e += und_clique(ids)
            elif kind == "cycle":
                e += und_cycle(ids)
            else:
                e += [(ids[i], ids[i + 1]) for i in range(len(ids) - 1)]
            members += [x for x in ids if x not in members]
    n += rng.randint(0, 2)  # isolated nodes
    return n, e


def present_undirected(rng, n, edges, mode):
    """Turn undirected edges into neighbour lists: 'sym' both sides, 'asym' each edge on one random side or
    both, 'one-sided' every edge on exactly one side, 'low-to-high' listed at the smaller endpoint only."""
    adj = {v: [] for v in range(n)}
    for u, v in edges:
        if mode == "sym":
            adj[u].append(v)
            adj[v].append(u)
        elif mode == "asym":
            r = rng.random()
            if r < 0.4:
                adj[u].append(v)
            elif r < 0.8:
                adj[v].append(u)
            else:
                adj[u].append(v)
                adj[v].append(u)
        elif mode == "one-sided":
            if rng.random() < 0.5:
                adj[u].append(v)
            else:
                adj[v].append(u)
        elif mode == "low-to-high":
            adj[min(u, v)].append(max(u, v))
        elif mode == "high-to-low":
            adj[max(u, v)].append(min(u, v))
        else:
            raise ValueError(mode)
    return adj


# ------------------------------------------------------------------ assembling a case


def decorate(rng, n, adj_int, label_kind, *, dup=0.0, loops=0.0, outside=0.0, outside_bridge=False,
             shuffle_nodes=True):
    """Relabel an integer graph, add duplicates / self loops / outside neighbours, shuffle orders."""
    labels, outs = make_labels(rng, n, label_kind)
    if label_kind == "int" and rng.random() < 0.5:
        pass  # keep identity labelling (needed for the *_edges variants)
    elif label_kind == "int":
        rng.shuffle(labels)
    adj = {labels[u]: [labels[w] for w in ws] for u, ws in adj_int.items()}
    for v in list(adj):
        lst = adj[v]
        if lst and dup:
            for w in list(lst):
                if rng.random() < dup:
                    lst.append(w)
        if loops and rng.random() < loops:
            lst.append(v)
        if outside and outs and rng.random() < outside:
            lst.append(rng.choice(outs))
        rng.shuffle(lst)
    if outside_bridge and outs and n >= 2:
        # an outside label that is pointed to from inside and points back inside: a path through it
        # must not count as reachability / adjacency inside the node set
        x = rng.choice(outs)
        a, b = rng.choice(labels), rng.choice(labels)
        adj[a].insert(rng.randrange(len(adj[a]) + 1), x)
        adj[x] = [b] + ([rng.choice(labels)] if rng.random() < 0.5 else [])
    nodes = list(labels)
    if shuffle_nodes:
        rng.shuffle(nodes)
    return nodes, adj


def int_adj(n, edges):
    adj = {v: [] for v in range(n)}
    for u, v in edges:
        adj[u].append(v)
    return adj


def shrink_graph(case):
    """Candidates with one node, one neighbour entry or one outside key removed (plain data in, plain data out)."""
    nodes = case["nodes"]
    adj = case["adj"]

    def without(drop):
        drop = set(drop)
        c = dict(case)
        c["nodes"] = [x for x in nodes if x not in drop]
        c["adj"] = {k: [w for w in ws if w not in drop] for k, ws in adj.items() if k not in drop}
        return c

    # coarse to fine: halves, quarters, ... single nodes (a 300-node witness must not need 300 re-runs per step)
    n = len(nodes)
    size = n // 2
    while size >= 1 and n > 1:
        for start in range(0, n, size):
            chunk = nodes[start:start + size]
            if 0 < len(chunk) < n:
                yield without(chunk)
        size //= 2
    for k in list(adj):
        if k not in nodes:
            c = dict(case)
            c["adj"] = {kk: list(ws) for kk, ws in adj.items() if kk != k}
            yield c
    for k, ws in adj.items():
        for i in range(len(ws)):
            c = dict(case)
            c["adj"] = {kk: (list(w2) if kk != k else w2[:i] + w2[i + 1:]) for kk, w2 in adj.items()}
            yield c
    for field, plain in (("ret", "list"), ("as", "list")):
        if case.get(field) != plain:
            c = dict(case)
            c[field] = plain
            yield c
