"""Exact-cover instance builders for C07 (plain data: matrix, column names, secondary names)."""


def _finish(rows, n_cols, names, secondary):
    matrix = [[1 if j in r else 0 for j in range(n_cols)] for r in rows]
    return matrix, names, secondary


def queens(n):
    """n-queens: primary = ranks R0.. and files F0.., secondary = the 2*(2n-1) diagonals."""
    names = [f"R{i}" for i in range(n)] + [f"F{j}" for j in range(n)]
    names += [f"A{k}" for k in range(2 * n - 1)] + [f"B{k}" for k in range(2 * n - 1)]
    sec = names[2 * n:]
    rows = []
    for i in range(n):
        for j in range(n):
            rows.append({i, n + j, 2 * n + i + j, 2 * n + (2 * n - 1) + (i - j + n - 1)})
    return _finish(rows, len(names), names, sec)


def cells_of(h, w, holes):
    return [(r, c) for r in range(h) for c in range(w) if (r, c) not in holes]


def tiling(h, w, holes, shapes, optional=()):
    """Place any of `shapes` (lists of (dr,dc) offsets) on an h x w board without `holes`.
    Cells in `optional` are secondary columns (may stay empty)."""
    cells = cells_of(h, w, set(holes))
    idx = {c: k for k, c in enumerate(cells)}
    names = [f"{r}.{c}" for r, c in cells]
    sec = [f"{r}.{c}" for r, c in cells if (r, c) in set(optional)]
    rows = []
    seen = set()
    for shape in shapes:
        for r in range(h):
            for c in range(w):
                pts = [(r + dr, c + dc) for dr, dc in shape]
                if all(p in idx for p in pts):
                    key = frozenset(pts)
                    if key not in seen:
                        seen.add(key)
                        rows.append({idx[p] for p in pts})
    return _finish(rows, len(cells), names, sec)


DOMINO = [[(0, 0), (0, 1)], [(0, 0), (1, 0)]]
TROMINO_L = [[(0, 0), (0, 1), (1, 0)], [(0, 0), (0, 1), (1, 1)], [(0, 0), (1, 0), (1, 1)], [(0, 1), (1, 0), (1, 1)]]
TROMINO_I = [[(0, 0), (0, 1), (0, 2)], [(0, 0), (1, 0), (2, 0)]]
MONOMINO = [[(0, 0)]]


def latin(n, givens=()):
    """n x n Latin square: columns cell(r,c), row-symbol(r,s), col-symbol(c,s); givens = [(r,c,s)]."""
    names = [f"c{r}{c}" for r in range(n) for c in range(n)]
    names += [f"r{r}s{s}" for r in range(n) for s in range(n)]
    names += [f"k{c}s{s}" for c in range(n) for s in range(n)]
    fixed = {(r, c): s for r, c, s in givens}
    rows = []
    for r in range(n):
        for c in range(n):
            for s in range(n):
                if (r, c) in fixed and fixed[(r, c)] != s:
                    continue
                rows.append({r * n + c, n * n + r * n + s, 2 * n * n + c * n + s})
    return _finish(rows, 3 * n * n, names, [])


def sudoku4(givens=()):
    """4x4 sudoku (2x2 boxes)."""
    n = 4
    names = [f"c{r}{c}" for r in range(n) for c in range(n)]
    names += [f"r{r}s{s}" for r in range(n) for s in range(n)]
    names += [f"k{c}s{s}" for c in range(n) for s in range(n)]
    names += [f"b{b}s{s}" for b in range(n) for s in range(n)]
    fixed = {(r, c): s for r, c, s in givens}
    rows = []
    for r in range(n):
        for c in range(n):
            for s in range(n):
                if (r, c) in fixed and fixed[(r, c)] != s:
                    continue
                b = (r // 2) * 2 + c // 2
                rows.append({r * n + c, 16 + r * n + s, 32 + c * n + s, 48 + b * n + s})
    return _finish(rows, 64, names, [])


def permute(matrix, names, secondary, rng, rows=True, cols=True):
    """Shuffle row order and column order (names travel with their columns)."""
    nr, nc = len(matrix), len(matrix[0])
    rp = list(range(nr))
    cp = list(range(nc))
    if rows:
        rng.shuffle(rp)
    if cols:
        rng.shuffle(cp)
    m2 = [[matrix[i][j] for j in cp] for i in rp]
    n2 = [names[j] for j in cp] if names is not None else None
    return m2, n2, secondary, rp, cp
