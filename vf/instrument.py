"""Attach monitors to the real code from outside (no repository edit).

replace(module_name, attr, factory): the attribute is replaced by factory(original) in its
home module *and* in every solvor.* module namespace (and the solvor package itself) that
holds a reference which `is` the original -- references bound by `from x import f` before
decoration would otherwise bypass the monitor.  Returns the number of bindings replaced.
"""

import importlib
import sys

_originals = {}  # (module_name, attr) -> original
MISSING = []  # hook targets that do not exist in the tree under test (private names may be refactored away)


def mod(name):
    """importlib import (solvor/__init__ re-exports functions named like their modules)."""
    return importlib.import_module(name)


def load_all_solvor():
    import solvor  # noqa: F401

    return [m for n, m in list(sys.modules.items()) if (n == "solvor" or n.startswith("solvor.")) and m is not None]


def _accepts_same_calls(orig, new):
    """True if the wrapper `new` (written against the signature the target had when the hook was written) can take
    every call the target `orig` takes today.  A private helper that gained or lost a parameter is a refactoring, not a
    defect: the hook is then left off (recorded in MISSING) instead of turning the drift into a TypeError inside the
    solver."""
    import inspect

    try:
        so, sn = inspect.signature(orig), inspect.signature(new)
    except (TypeError, ValueError):
        return True
    P = inspect.Parameter
    po = list(so.parameters.values())
    if any(p.kind in (P.VAR_POSITIONAL, P.VAR_KEYWORD) for p in po):
        pn = list(sn.parameters.values())
        return all(any(q.kind is k for q in pn) for k in (P.VAR_POSITIONAL, P.VAR_KEYWORD) if any(p.kind is k for p in po))
    pos = [p for p in po if p.kind in (P.POSITIONAL_ONLY, P.POSITIONAL_OR_KEYWORD)]
    kwo = [p for p in po if p.kind is P.KEYWORD_ONLY]
    req = lambda ps: [p for p in ps if p.default is P.empty]  # noqa: E731
    shapes = [
        ([0] * len(pos), {p.name: 0 for p in kwo}),  # everything, positionally where possible
        ([0] * len([p for p in pos if p.kind is P.POSITIONAL_ONLY]),
         {p.name: 0 for p in pos if p.kind is P.POSITIONAL_OR_KEYWORD} | {p.name: 0 for p in kwo}),  # everything, by name
        ([0] * len(req(pos)), {p.name: 0 for p in req(kwo)}),  # only what is required
    ]
    for args, kwargs in shapes:
        try:
            sn.bind(*args, **kwargs)
        except TypeError:
            return False
    return True


def replace(module_name, attr, factory):
    m = mod(module_name)
    key = (module_name, attr)
    orig = _originals.get(key)
    if orig is None:
        if not hasattr(m, attr):
            # a private helper that is not there (any more): nothing to hook; the boundary judges do not depend on it
            MISSING.append(f"{module_name}.{attr}")
            return 0
        orig = getattr(m, attr)
        _originals[key] = orig
    current = getattr(m, attr)
    new = factory(orig)
    if callable(orig) and callable(new) and not _accepts_same_calls(orig, new):
        MISSING.append(f"{module_name}.{attr} (signature changed: {_sig(orig)})")
        return 0
    try:
        new.__wrapped_original__ = orig
    except Exception:
        pass
    n = 0
    for sm in load_all_solvor():
        d = getattr(sm, "__dict__", None)
        if not d:
            continue
        for k, v in list(d.items()):
            if v is current or v is orig:
                d[k] = new
                n += 1
    return n


def _sig(f):
    import inspect

    try:
        return str(inspect.signature(f))
    except (TypeError, ValueError):
        return "?"


def original(module_name, attr):
    key = (module_name, attr)
    if key in _originals:
        return _originals[key]
    return getattr(mod(module_name), attr)


def replace_method(cls, attr, factory):
    if attr not in cls.__dict__:
        MISSING.append(f"{cls.__name__}.{attr}")
        return None
    orig = cls.__dict__[attr]
    new = factory(orig)
    if callable(orig) and callable(new) and not _accepts_same_calls(orig, new):
        MISSING.append(f"{cls.__name__}.{attr} (signature changed: {_sig(orig)})")
        return None
    setattr(cls, attr, new)
    return orig
