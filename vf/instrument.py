"""Attach monitors to the real code from outside (no repository edit).

replace(module_name, attr, factory): the attribute is replaced by factory(original) in its
home module *and* in every solvor.* module namespace (and the solvor package itself) that
holds a reference which `is` the original -- references bound by `from x import f` before
decoration would otherwise bypass the monitor.  Returns the number of bindings replaced.
"""

import importlib
import sys

_originals = {}  # (module_name, attr) -> original
MISSING = []  # hook targets that do not exist in the tree under test (private names may be refactored away)


def mod(name):
    """importlib import (solvor/__init__ re-exports functions named like their modules)."""
    return importlib.import_module(name)


def load_all_solvor():
    import solvor  # noqa: F401

    return [m for n, m in list(sys.modules.items()) if (n == "solvor" or n.startswith("solvor.")) and m is not None]


def replace(module_name, attr, factory):
    m = mod(module_name)
    key = (module_name, attr)
    orig = _originals.get(key)
    if orig is None:
        if not hasattr(m, attr):
            # a private helper that is not there (any more): nothing to hook; the boundary judges do not depend on it
            MISSING.append(f"{module_name}.{attr}")
            return 0
        orig = getattr(m, attr)
        _originals[key] = orig
    current = getattr(m, attr)
    new = factory(orig)
    try:
        new.__wrapped_original__ = orig
    except Exception:
        pass
    n = 0
    for sm in load_all_solvor():
        d = getattr(sm, "__dict__", None)
        if not d:
            continue
        for k, v in list(d.items()):
            if v is current or v is orig:
                d[k] = new
                n += 1
    return n


def original(module_name, attr):
    key = (module_name, attr)
    if key in _originals:
        return _originals[key]
    return getattr(mod(module_name), attr)


def replace_method(cls, attr, factory):
    if attr not in cls.__dict__:
        MISSING.append(f"{cls.__name__}.{attr}")
        return None
    orig = cls.__dict__[attr]
    new = factory(orig)
    setattr(cls, attr, new)
    return orig
