"""L2 monitors for C17: the master LPs, the node LP of branch and price, the knapsack pricer.

Wrapped from outside with vf.instrument.replace.  The wrappers never raise into the solver
and never alter arguments or results.  Everything they evaluate is counted in COUNT; a broken
internal invariant is appended to LOG as (name, detail) -- the property module turns these
into events / mechanism keys (never into violations: C17 is decided at the API boundary).

CTX is set by the property module before each solver call:
  universe     list of all columns of the instance (all patterns / the explicit column set) or None
  lp_budget    how many exact restricted-master LPs may still be solved for this call
  node_budget  how many exact node LPs may still be solved for this call
"""

INF = float("inf")
LOG = []
COUNT = {}
CTX = {"universe": None, "lp_budget": 0, "node_budget": 0}
_attached = False
_orc = None


def _tick(name, n=1):
    COUNT[name] = COUNT.get(name, 0) + n


def _bad(name, detail):
    _tick("anomaly." + name)
    if len(LOG) < 40:
        LOG.append((name, str(detail)[:500]))


def drain():
    out = list(LOG)
    LOG.clear()
    return out


def take_counts():
    out = dict(COUNT)
    COUNT.clear()
    return out


def _check_master(kind, columns, demands, bounds, res):
    """kind: 'cg' | 'bp'.  bounds: {idx: (lo, hi)}."""
    x, duals, obj = res
    n = len(columns)
    _tick(f"l2.{kind}.master.checked")
    if n == 0:
        return
    if obj == INF:
        _tick(f"l2.{kind}.master.inf-verdict.checked")
        feas = _orc.lp_feasible_under_bounds(columns, demands, bounds)
        if feas:
            _bad(f"{kind}.master.false-infeasible", f"columns={columns} demands={list(demands)} bounds={bounds}: reported inf, LP is feasible")
        elif bounds:
            _tick("bp.master.infeasible-under-bounds")
        else:
            _tick(f"{kind}.master.infeasible-restricted")
        return
    tol = 1e-7
    ok = len(x) == n and all(v >= -tol for v in x)
    if ok:
        for i, d in enumerate(demands):
            if sum(c[i] * v for c, v in zip(columns, x)) < d - tol * (1 + abs(d)):
                ok = False
                break
    if ok:
        for idx, (lo, hi) in bounds.items():
            if x[idx] < lo - tol or x[idx] > hi + tol:
                ok = False
                break
    if not ok:
        _bad(f"{kind}.master.returned-infeasible-point", f"columns={columns} demands={list(demands)} bounds={bounds} x={x} obj={obj}")
    _tick(f"l2.{kind}.master.objective.checked")
    if abs(sum(x) - obj) > tol * (1 + abs(obj)):
        _bad(f"{kind}.master.objective-mismatch", f"sum(x)={sum(x)} obj={obj} columns={columns} bounds={bounds}")
    if any(y < -1e-6 for y in duals):
        _bad(f"{kind}.master.negative-dual", f"duals={duals}")
    if not bounds:
        # primal feasible + dual feasible + equal objectives = certificate of LP optimality
        _tick(f"l2.{kind}.master.dual-certificate.checked")
        dual_ok = all(sum(y * a for y, a in zip(duals, c)) <= 1 + 1e-6 for c in columns)
        by = sum(y * d for y, d in zip(duals, demands))
        if not dual_ok or abs(by - obj) > 1e-6 * (1 + abs(obj)):
            _bad(f"{kind}.master.dual-not-certifying", f"duals={duals} b.y={by} obj={obj} columns={columns}")
    if CTX["lp_budget"] > 0:
        CTX["lp_budget"] -= 1
        _tick(f"l2.{kind}.master.exact-lp.compared")
        st, val, _, _ = _orc.lp_cover(columns, demands, bounds)
        if st != "optimal":
            _bad(f"{kind}.master.value-on-infeasible-lp", f"obj={obj} columns={columns} demands={list(demands)} bounds={bounds}")
        elif abs(obj - float(val)) > 1e-6 * (1 + float(val)):
            _bad(f"{kind}.master.not-optimal", f"obj={obj} exact={float(val)} columns={columns} demands={list(demands)} bounds={bounds}")


def _wrap_cg_master(orig):
    def _solve_master_lp(columns, demands, eps, *a, **k):
        res = orig(columns, demands, eps, *a, **k)
        try:
            _check_master("cg", [tuple(c) for c in columns], list(demands), {}, res)
        except Exception as e:  # a monitor must never disturb the solver
            _tick("l2.monitor-error")
            LOG.append(("monitor-error", repr(e)))
        return res

    return _solve_master_lp


def _wrap_bp_master(orig):
    def _solve_bounded_master_lp(columns, demands, col_bounds, eps, *a, **k):
        res = orig(columns, demands, col_bounds, eps, *a, **k)
        try:
            _check_master("bp", [tuple(c) for c in columns], list(demands), dict(col_bounds), res)
        except Exception as e:
            _tick("l2.monitor-error")
            LOG.append(("monitor-error", repr(e)))
        return res

    return _solve_bounded_master_lp


def _wrap_node(orig):
    def _solve_node_lp(columns, column_set, demands, col_bounds, pricing_fn, is_cutting_stock, max_iter, eps, *a, **k):
        try:
            bounded = {tuple(columns[idx]): tuple(b) for idx, b in col_bounds.items() if idx < len(columns)}
        except Exception:
            bounded = None
        res = orig(columns, column_set, demands, col_bounds, pricing_fn, is_cutting_stock, max_iter, eps, *a, **k)
        try:
            _check_node(res, list(demands), bounded, bool(col_bounds), max_iter)
        except Exception as e:
            _tick("l2.monitor-error")
            LOG.append(("monitor-error", repr(e)))
        return res

    return _solve_node_lp


def _check_node(res, demands, bounded, has_bounds, max_iter):
    lp_obj, iters = res[1], res[2]
    proven = res[3] if len(res) > 3 else None  # None: the tree has no 'proven' flag, every value is used as a bound
    _tick("l2.bp.node.checked")
    if has_bounds:
        _tick("l2.bp.node.branched")
    if proven is False:
        _tick("bp.node.unproven")
        if lp_obj != INF:
            _tick("bp.cg.max-iter" if iters >= max_iter else "bp.cg.stalled")
    if lp_obj == INF and has_bounds:
        _tick("bp.node.infeasible-under-bounds")
    uni = CTX["universe"]
    if uni is None or bounded is None or CTX["node_budget"] <= 0:
        return
    CTX["node_budget"] -= 1
    _tick("l2.bp.node.exact-lp.compared")
    st, val = _orc.node_lp(uni, demands, bounded)
    trusts = proven is not False
    if lp_obj == INF:
        if st == "optimal":
            if trusts:
                _bad("bp.node.pruned-feasible-node", f"bounds={bounded} demands={demands}: node reported infeasible, true node LP={float(val)}")
            else:
                _tick("bp.node.unproven-infeasible-restricted")
        return
    if st != "optimal":
        _bad("bp.node.value-on-infeasible-node", f"bounds={bounded} demands={demands} lp_obj={lp_obj}")
        return
    v = float(val)
    if lp_obj < v - 1e-6 * (1 + v):
        _bad("bp.node.below-true-lp", f"bounds={bounded} demands={demands} lp_obj={lp_obj} true node LP={v}")
    elif lp_obj > v + 1e-6 * (1 + v):
        if trusts:
            _bad("bp.node.bound-invalid", f"bounds={bounded} demands={demands} lp_obj={lp_obj} used as bound, true node LP={v} (proven={proven})")
        else:
            _tick("bp.node.unproven-loose")


def _wrap_pricing(orig):
    def knapsack_pricing(sizes, capacity, values, eps, *a, **k):
        res = orig(sizes, capacity, values, eps, *a, **k)
        try:
            _check_pricing(list(sizes), capacity, list(values), res)
        except Exception as e:
            _tick("l2.monitor-error")
            LOG.append(("monitor-error", repr(e)))
        return res

    return knapsack_pricing


def _check_pricing(sizes, capacity, values, res):
    pat, val = res
    _tick("l2.pricing.checked")
    n = len(sizes)
    if len(pat) != n or any((not isinstance(a, int)) or a < 0 for a in pat):
        _bad("pricing.bad-pattern", f"pattern={pat}")
        return
    if sum(a * s for a, s in zip(pat, sizes)) > capacity:
        _bad("pricing.pattern-too-wide", f"sizes={sizes} capacity={capacity} pattern={pat}")
    if abs(sum(a * v for a, v in zip(pat, values)) - val) > 1e-7 * (1 + abs(val)):
        _bad("pricing.value-mismatch", f"pattern={pat} values={values} value={val}")
    if all(isinstance(s, int) for s in sizes) and capacity == int(capacity) and capacity <= 2000:
        _tick("l2.pricing.exact-max.compared")
        best = _orc.best_pattern_value(sizes, int(capacity), values)
        if val < best - 1e-6 * (1 + abs(best)):
            _bad("pricing.not-maximal", f"sizes={sizes} capacity={capacity} values={values} pattern={pat} value={val} best={best}")


def attach():
    global _attached, _orc
    if _attached:
        return
    _attached = True
    from vf.instrument import replace
    from vf.oracles import cutting

    _orc = cutting
    replace("solvor.utils.pricing", "knapsack_pricing", _wrap_pricing)
    replace("solvor.cg", "_solve_master_lp", _wrap_cg_master)
    replace("solvor.bp", "_solve_bounded_master_lp", _wrap_bp_master)
    replace("solvor.bp", "_solve_node_lp", _wrap_node)
