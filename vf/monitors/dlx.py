"""L2 monitor for solvor.dlx: `_build_links`, `_cover`, `_uncover` wrapped from outside.

Per solve call (between begin() and end()):
  * LIFO discipline: every `_uncover(c)` must match the most recent un-matched `_cover(c)`
  * exact inverse: the complete link structure (left/right/up/down of the root, the secondary
    root, every header and every node, plus every header's size) after `_uncover(c)` equals
    the snapshot taken immediately before the matching `_cover(c)`
  * at exit: number of outstanding covers, and whether the structure equals the one that
    `_build_links` returned (meaningful when the search ran to completion)

Nothing is ever raised into the solver; anomalies are collected and handed to the property
module, which records them as L2 events / mechanism keys (DESIGN.md section 3).
"""

_attached = False

SNAP_VISIT_BUDGET = 6_000_000  # object visits per solve call spent on snapshots; beyond: LIFO only
TRACE_MAX = 120


class _Tracker:
    def __init__(self):
        self.active = False
        self.reset()

    def reset(self):
        self.objs = None
        self.idmap = None
        self.labels = None
        self.initial = None
        self.stack = []  # entries [col, snapshot-or-None]
        self.counts = {}
        self.anomalies = []  # (kind, detail)
        self.trace = []
        self.visits = 0
        self.builds = 0

    # ---- structure ------------------------------------------------------------
    def register(self, root, headers):
        self.builds += 1
        objs, idmap, labels = [], {}, []

        def add(o, label):
            if o is None or id(o) in idmap:
                return False
            idmap[id(o)] = len(objs)
            objs.append(o)
            labels.append(label)
            return True

        add(root, "ROOT")
        for k, h in enumerate(headers):
            add(h, f"H{k}({getattr(h, 'name', '?')!r})")
        # everything reachable through the four links (nodes, the secondary root)
        i = 0
        while i < len(objs):
            o = objs[i]
            i += 1
            for attr in ("left", "right", "up", "down"):
                x = getattr(o, attr, None)
                if x is not None and id(x) not in idmap:
                    if hasattr(x, "size"):
                        add(x, f"H?({getattr(x, 'name', '?')!r})")
                    elif getattr(x, "column", None) is None:
                        add(x, "SROOT")
                    else:
                        add(x, f"N(r{x.row},{getattr(x.column, 'name', '?')!r})")
        self.objs, self.idmap, self.labels = objs, idmap, labels
        self.initial = self.snap(force=True)

    def snap(self, force=False):
        if self.objs is None:
            return None
        n = len(self.objs)
        if not force and self.visits + n > SNAP_VISIT_BUDGET:
            return None
        self.visits += n
        g = self.idmap.get
        out = []
        ap = out.append
        for o in self.objs:
            ap(g(id(o.left), -1))
            ap(g(id(o.right), -1))
            ap(g(id(o.up), -1))
            ap(g(id(o.down), -1))
            ap(getattr(o, "size", None))
        return tuple(out)

    def diff(self, a, b):
        names = ("left", "right", "up", "down", "size")
        out = []
        for k, (x, y) in enumerate(zip(a, b)):
            if x != y:
                o, f = divmod(k, 5)
                if names[f] == "size":
                    out.append(f"{self.labels[o]}.size {x}->{y}")
                else:
                    lx = self.labels[x] if 0 <= x < len(self.labels) else "?"
                    ly = self.labels[y] if 0 <= y < len(self.labels) else "?"
                    out.append(f"{self.labels[o]}.{names[f]} {lx}->{ly}")
                if len(out) >= 6:
                    out.append("...")
                    break
        return "; ".join(out)

    def label(self, o):
        if self.idmap is None:
            return "?"
        k = self.idmap.get(id(o))
        return self.labels[k] if k is not None else f"<unknown {type(o).__name__}>"

    # ---- bookkeeping ----------------------------------------------------------
    def tick(self, name, n=1):
        self.counts[name] = self.counts.get(name, 0) + n

    def bad(self, kind, detail):
        self.tick(kind)
        if len(self.anomalies) < 8:
            tr = " ".join(self.trace[-TRACE_MAX:])
            self.anomalies.append((kind, f"{detail} | trace: {tr}"))

    def note(self, ch, col):
        if len(self.trace) < 4000:
            self.trace.append(ch + self.label(col))


T = _Tracker()


def begin():
    T.reset()
    T.active = True


def end():
    """-> dict(counts=..., anomalies=[(kind, detail)], outstanding=int, restored=bool|None, objects=int)"""
    T.active = False
    restored = None
    if T.objs is not None:
        restored = T.snap(force=True) == T.initial
    out = {"counts": dict(T.counts), "anomalies": list(T.anomalies), "outstanding": len(T.stack),
           "restored": restored, "objects": len(T.objs) if T.objs else 0, "builds": T.builds}
    T.reset()
    return out


def _wrap_build(orig):
    def _build_links(*a, **kw):
        res = orig(*a, **kw)
        if T.active:
            try:
                root, headers = res[0], res[1]
                if root is not None:
                    T.register(root, headers)
            except Exception as e:  # monitor trouble must never reach the solver
                T.bad("l2.monitor-error", repr(e))
        return res

    return _build_links


def _wrap_cover(orig):
    def _cover(col):
        if not T.active or T.objs is None:
            return orig(col)
        try:
            T.tick("l2.cover")
            T.note("c", col)
            s = T.snap()
            T.stack.append([col, s])
        except Exception as e:
            T.bad("l2.monitor-error", repr(e))
        return orig(col)

    return _cover


def _wrap_uncover(orig):
    def _uncover(col):
        if not T.active or T.objs is None:
            return orig(col)
        res = orig(col)
        try:
            T.tick("l2.uncover")
            T.note("u", col)
            if not T.stack:
                T.bad("l2.lifo.broken", f"_uncover({T.label(col)}) with no outstanding _cover")
            elif T.stack[-1][0] is not col:
                T.bad("l2.lifo.broken", f"_uncover({T.label(col)}) but the most recent un-matched _cover is "
                                        f"{T.label(T.stack[-1][0])}")
                for k in range(len(T.stack) - 1, -1, -1):
                    if T.stack[k][0] is col:
                        del T.stack[k]
                        break
            else:
                _, before = T.stack.pop()
                T.tick("l2.lifo.checked")
                if before is None:
                    T.tick("l2.inverse.skipped")
                else:
                    after = T.snap(force=True)
                    T.tick("l2.inverse.checked")
                    if after != before:
                        T.bad("l2.inverse.broken", f"after _uncover({T.label(col)}) the links differ from the snapshot "
                                                   f"before the matching _cover: {T.diff(before, after)}")
        except Exception as e:
            T.bad("l2.monitor-error", repr(e))
        return res

    return _uncover


def attach():
    global _attached
    if _attached:
        return
    _attached = True
    from vf.instrument import replace

    replace("solvor.dlx", "_build_links", _wrap_build)
    replace("solvor.dlx", "_cover", _wrap_cover)
    replace("solvor.dlx", "_uncover", _wrap_uncover)
