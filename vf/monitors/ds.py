"""icontract invariants / post-conditions on the real UnionFind and FenwickTree classes.

Conditions *record and return True* (they never raise into the code under test), so the
contracts can stay attached while the classes are used inside other solvers (kruskal).
`LOG` collects broken conditions, `COUNT` the number of evaluations per condition.

The conditions look at the *representation* (parent pointers, ranks, the implicit tree of partial sums).  A broken
condition is therefore an **anomaly**, not a verdict: C20 is a statement about answers, and the property check turns
an anomaly into an immediate full audit of the public answers against its shadow model (vf/props/c20.py) - only a
wrong answer is a violation.  A representation that differs from the one assumed here (or a renamed field) makes the
conditions raise or misread; both are swallowed and counted, never passed into the code under test.
"""

import icontract

LOG = []  # (condition name, detail)
COUNT = {}
_attached = False


def _tick(name):
    COUNT[name] = COUNT.get(name, 0) + 1


def _bad(name, detail):
    if len(LOG) < 50:
        LOG.append((name, str(detail)[:600]))


def drain():
    out = list(LOG)
    LOG.clear()
    return out


def take_counts():
    out = dict(COUNT)
    COUNT.clear()
    return out


# ---- UnionFind -------------------------------------------------------------------------

def uf_root(uf, x):
    """Root of x by a pure walk (no path compression); None if the chain does not end."""
    p = uf._parent
    n = len(p)
    for _ in range(n + 1):
        if not (0 <= x < n):
            return None
        if p[x] == x:
            return x
        x = p[x]
    return None


def uf_partition(uf):
    groups = {}
    for i in range(len(uf._parent)):
        groups.setdefault(uf_root(uf, i), set()).add(i)
    return frozenset(frozenset(g) for g in groups.values())


def uf_forest(self):
    _tick("uf.inv.forest")
    n = len(self._parent)
    for i in range(n):
        if uf_root(self, i) is None:
            _bad("uf.inv.forest", f"chain from {i} does not reach a root: parent={self._parent}")
            break
    return True


def uf_count(self):
    _tick("uf.inv.count")
    roots = sum(1 for i, p in enumerate(self._parent) if p == i)
    if roots != self._count or len(self._rank) != len(self._parent):
        _bad("uf.inv.count", f"_count={self._count} roots={roots} parent={self._parent}")
    return True


def uf_rank(self):
    """rank[root] bounds the height of its tree (union by rank): size >= 2**rank is the textbook
    invariant; we only require height <= rank which path compression preserves."""
    _tick("uf.inv.rank")
    p = self._parent
    n = len(p)
    height = [0] * n
    for i in range(n):
        d, x = 0, i
        for _ in range(n + 1):
            if p[x] == x:
                break
            x = p[x]
            d += 1
        else:
            return True
        height[x] = max(height[x], d)
    for r in range(n):
        if p[r] == r and height[r] > self._rank[r]:
            _bad("uf.inv.rank", f"root {r}: height {height[r]} > rank {self._rank[r]}")
            break
    return True


def _snap_partition(self):
    return uf_partition(self)


def _snap_root_x(self, x):
    return uf_root(self, x)


def uf_find_post(self, x, result, OLD):
    _tick("uf.post.find")
    if result != OLD.root or uf_partition(self) != OLD.part:
        _bad("uf.post.find", f"find({x})={result}, root before={OLD.root}; partition changed={uf_partition(self) != OLD.part}")
    return True


def uf_union_post(self, x, y, result, OLD):
    _tick("uf.post.union")
    cx = next(c for c in OLD.part if x in c)
    cy = next(c for c in OLD.part if y in c)
    expect_merge = cx is not cy and cx != cy
    expected = (OLD.part - {cx, cy}) | {cx | cy}
    now = uf_partition(self)
    if result != expect_merge or now != expected:
        _bad("uf.post.union", f"union({x},{y})={result}, expected {expect_merge}; partition ok={now == expected}")
    return True


def uf_connected_post(self, x, y, result, OLD):
    _tick("uf.post.connected")
    same = any(x in c and y in c for c in OLD.part)
    if result != same or uf_partition(self) != OLD.part:
        _bad("uf.post.connected", f"connected({x},{y})={result}, expected {same}")
    return True


def uf_sizes_post(self, result, OLD):
    _tick("uf.post.component_sizes")
    if sorted(result) != sorted(len(c) for c in OLD.part) or uf_partition(self) != OLD.part:
        _bad("uf.post.component_sizes", f"{result} vs {sorted(len(c) for c in OLD.part)}")
    return True


def uf_components_post(self, result, OLD):
    _tick("uf.post.get_components")
    got = [frozenset(s) for s in result]
    if len(got) != len(set(got)) or frozenset(got) != OLD.part or uf_partition(self) != OLD.part:
        _bad("uf.post.get_components", f"{result} vs {sorted(map(sorted, OLD.part))}")
    return True


# ---- FenwickTree -----------------------------------------------------------------------

def ft_array(ft):
    """The abstract array represented by the tree (tree[i] = sum of a[(i&(i+1)) .. i])."""
    n = ft._n
    t = ft._tree
    a = [0] * n
    pref = [0] * (n + 1)  # prefix sums of a
    for i in range(n):
        lo = i & (i + 1)
        a[i] = t[i] - (pref[i] - pref[lo])
        pref[i + 1] = pref[i] + a[i]
    return a


def ft_shape(self):
    _tick("ft.inv.shape")
    if len(self._tree) != self._n:
        _bad("ft.inv.shape", f"len(_tree)={len(self._tree)} _n={self._n}")
    return True


def _snap_arr(self):
    return ft_array(self)


def ft_update_post(self, i, delta, OLD):
    _tick("ft.post.update")
    exp = list(OLD.arr)
    exp[i] += delta
    now = ft_array(self)
    if now != exp:
        _bad("ft.post.update", f"update({i},{delta}): array {now} expected {exp}")
    return True


def ft_prefix_post(self, i, result, OLD):
    _tick("ft.post.prefix")
    exp = sum(OLD.arr[: i + 1])
    if result != exp or ft_array(self) != OLD.arr:
        _bad("ft.post.prefix", f"prefix({i})={result} expected {exp}")
    return True


def ft_range_post(self, left, right, result, OLD):
    _tick("ft.post.range_sum")
    exp = sum(OLD.arr[left : right + 1])
    if result != exp or ft_array(self) != OLD.arr:
        _bad("ft.post.range_sum", f"range_sum({left},{right})={result} expected {exp}")
    return True


MAX_N = 128


class ContractBroken(Exception):
    pass


def _safe(fn):
    """The conditions read private fields (_parent, _rank, _count, _tree, _n).  A class that keeps the public
    behaviour but changes its representation must not be disturbed by them: any exception inside a condition or a
    snapshot is counted (`monitor.error.<name>`) and the condition reports nothing."""
    import functools

    @functools.wraps(fn)
    def guarded(*a, **k):
        try:
            obj = k.get("self", a[0] if a else None)
            # the conditions cost O(n) .. O(n * height) per call: only structures of up to MAX_N elements are watched
            # (large instances are judged at the boundary alone)
            size = getattr(obj, "_parent", None)
            if size is None:
                size = getattr(obj, "_tree", ())
            if len(size) > MAX_N:
                return True
            return fn(*a, **k)
        except Exception:
            _tick("monitor.error." + fn.__name__)
            return True

    return guarded


def attach(exact_fenwick=True):
    """Decorate the real classes in place (idempotent). exact_fenwick: contracts compare with ==,
    so they are only attached to FenwickTree when the workload uses exactly representable numbers."""
    global _attached
    if _attached:
        return
    _attached = True
    from vf.instrument import mod

    ds = mod("solvor.utils.data_structures")
    UF, FT = ds.UnionFind, ds.FenwickTree

    def deco(cls, name, snaps, post):
        fn = cls.__dict__.get(name)
        if fn is None or not callable(fn):
            _tick("monitor.unattachable." + name)
            return
        wrapped = icontract.ensure(_safe(post), error=ContractBroken)(fn)
        for sname, sfn in snaps:
            wrapped = icontract.snapshot(_safe(sfn), name=sname)(wrapped)
        setattr(cls, name, wrapped)

    deco(UF, "find", [("root", _snap_root_x), ("part", _snap_partition)], uf_find_post)
    deco(UF, "union", [("part", _snap_partition)], uf_union_post)
    deco(UF, "connected", [("part", _snap_partition)], uf_connected_post)
    deco(UF, "component_sizes", [("part", _snap_partition)], uf_sizes_post)
    deco(UF, "get_components", [("part", _snap_partition)], uf_components_post)
    for inv in (uf_forest, uf_count, uf_rank):
        icontract.invariant(_safe(inv), error=ContractBroken)(UF)
    if exact_fenwick:
        deco(FT, "update", [("arr", _snap_arr)], ft_update_post)
        deco(FT, "prefix", [("arr", _snap_arr)], ft_prefix_post)
        deco(FT, "range_sum", [("arr", _snap_arr)], ft_range_post)
        icontract.invariant(_safe(ft_shape), error=ContractBroken)(FT)
