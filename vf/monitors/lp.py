"""Boundary monitors for solve_lp / solve_lp_interior (also nested inside solve_milp).

The wrappers record calls (deep-copied inputs, result or exception); judge_* evaluate C03's relation
against the exact oracle when the instance is inside the oracle bounds, otherwise only the
certificate part (feasibility of the returned point, objective == c.x)."""

from fractions import Fraction as F

from vf.oracles import lp as olp

CALLS = []
_attached = False
MAX_KEEP = 4000


def attach():
    global _attached
    if _attached:
        return
    _attached = True
    from vf.instrument import replace

    def make(fnname):
        def factory(original):
            def wrapper(c, A, b, **kw):
                try:
                    rec = {"fn": fnname, "c": list(c), "A": [list(r) for r in A], "b": list(b), "kw": dict(kw), "result": None, "exc": None}
                except Exception:
                    return original(c, A, b, **kw)
                try:
                    res = original(c, A, b, **kw)
                    rec["result"] = res
                    return res
                except BaseException as e:
                    rec["exc"] = e
                    raise
                finally:
                    if len(CALLS) < MAX_KEEP:
                        CALLS.append(rec)

            wrapper.__name__ = fnname
            return wrapper

        return factory

    replace("solvor.simplex", "solve_lp", make("solve_lp"))
    replace("solvor.interior_point", "solve_lp_interior", make("solve_lp_interior"))


def drain():
    out = list(CALLS)
    CALLS.clear()
    return out


def _exactable(v):
    """Only well-scaled exact data (integers, dyadic rationals k/64) is inside the property's domain; node LPs built
    by solve_milp can carry float residue such as -1.1e-15 or 0.9999999999999956, for which an exact verdict
    ("infeasible by 1e-15") is not what the property is about: those are judged by the certificate part only."""
    if isinstance(v, bool):
        return False
    if isinstance(v, int):
        return abs(v) <= 10**9
    return isinstance(v, float) and v == v and abs(v) <= 1e9 and (v * 64.0).is_integer()


def _tol(x):
    return 1e-6 * (1 + abs(float(x)))


def certificate(rec, obs, sol, obj, tag, row_tol=None, neg_tol=1e-6):
    """Feasibility of the returned point and objective == c.x (valid at any size)."""
    c, A, b = rec["c"], rec["A"], rec["b"]
    n = len(c)
    if sol is None or len(sol) != n:
        obs.violate(f"{tag}.solution-shape", f"solution {sol!r} for n={n}")
        return False
    ok = True
    for j, v in enumerate(sol):
        if not (v >= -neg_tol):
            obs.violate(f"{tag}.negative-coordinate", f"x[{j}]={v}")
            ok = False
            break
    for i, row in enumerate(A):
        lhs = sum(a * x for a, x in zip(row, sol))
        slack = row_tol if row_tol is not None else _tol(b[i])
        if not (lhs <= b[i] + slack):
            obs.violate(f"{tag}.row-violated", f"row {i}: {row}.x={lhs} > {b[i]} (x={sol})")
            ok = False
            break
    cx = sum(ci * x for ci, x in zip(c, sol))
    if not (abs(cx - obj) <= 1e-6 * (1 + abs(obj)) + (0 if row_tol is None else 1e-9)):
        obs.violate(f"{tag}.objective-not-cx", f"reported {obj}, c.x={cx}")
        ok = False
    return ok


def oracle_for(rec):
    c, A, b = rec["c"], rec["A"], rec["b"]
    m, n = len(b), len(c)
    if not olp.within_bounds(m, n):
        return None
    if not all(_exactable(v) for v in c) or not all(_exactable(v) for v in b) or not all(_exactable(v) for r in A for v in r):
        return None
    minimize = rec["kw"].get("minimize", True)
    Af = [[F(v) for v in r] for r in A]
    return olp.solve_exact([F(v) for v in c], Af, [F(v) for v in b], minimize)


def judge_simplex(rec, obs, prefix=""):
    res = rec["result"]
    if res is None:
        return
    st = res.status.name
    obs.event(prefix + "lp.simplex.judged")
    if st == "MAX_ITER":
        obs.event(prefix + "lp.simplex.max-iter-reported")
        return
    if st not in ("OPTIMAL", "INFEASIBLE", "UNBOUNDED"):
        obs.violate("lp.unexpected-status", st)
        return
    if st == "OPTIMAL":
        certificate(rec, obs, res.solution, res.objective, "lp")
    orc = oracle_for(rec)
    if orc is None:
        obs.mode(prefix + "lp.certificate_only")
        return
    obs.mode(prefix + "lp.exact")
    ost, ox, oobj = orc
    if st.lower() != ost:
        obs.violate(f"lp.status-{st.lower()}-but-{ost}", f"solve_lp says {st}, exact oracle says {ost}"
                    + (f" (optimum {oobj} at {[str(v) for v in ox]})" if ox else "") + f"; kw={rec['kw']}")
        return
    if st == "OPTIMAL":
        if abs(res.objective - float(oobj)) > 1e-5 * (1 + abs(float(oobj))):
            obs.violate("lp.objective-not-optimal", f"reported {res.objective}, true optimum {oobj} ({float(oobj)})")


def judge_interior(rec, obs, prefix=""):
    res = rec["result"]
    if res is None:
        return
    st = res.status.name
    obs.event(prefix + "lp.ipm.judged")
    obs.outcome(prefix + "ipm:" + st)
    if st == "OPTIMAL":
        m, n = len(rec["b"]), len(rec["c"])
        if m == 0 or n == 0:
            return
        # "within its tolerance": the caller's eps is the solver's tolerance (HEAD: ||Ax+s-b|| < eps with s > 0, and
        # n*mu < n*eps for the gap); with the default 1e-8 the simplex tolerances below are the wider ones
        eps_used = float(rec["kw"].get("eps", 1e-8))
        bmax = max((abs(float(v)) for v in rec["b"]), default=0.0)
        certificate(rec, obs, res.solution, res.objective, "ipm",
                    row_tol=None if eps_used <= 1e-6 else eps_used * (1 + bmax), neg_tol=max(1e-6, eps_used))
        orc = oracle_for(rec)
        if orc is None:
            obs.mode(prefix + "ipm.certificate_only")
            return
        obs.mode(prefix + "ipm.exact")
        ost, ox, oobj = orc
        obs.event(prefix + "lp.ipm.optimal-clause-exercised")
        if ost != "optimal":
            obs.violate(f"ipm.optimal-but-{ost}", f"solve_lp_interior says OPTIMAL, oracle says {ost}")
        elif abs(res.objective - float(oobj)) > max(1e-4, 10 * (m + n) * eps_used) * (1 + abs(float(oobj))):
            obs.violate("ipm.objective-not-optimal", f"reported {res.objective}, true optimum {float(oobj)}")
    elif st == "FEASIBLE":
        # documented: primal residual below 0.01
        sol = res.solution
        for j, v in enumerate(sol):
            if not (v >= -1e-9):
                obs.violate("ipm.feasible-negative-coordinate", f"x[{j}]={v}")
                return
        for i, row in enumerate(rec["A"]):
            lhs = sum(a * x for a, x in zip(row, sol))
            if not (lhs <= rec["b"][i] + 0.01 + 1e-9):
                obs.violate("ipm.feasible-residual-above-0.01", f"row {i}: {lhs} > {rec['b'][i]} + 0.01")
                return
        obs.event(prefix + "lp.ipm.feasible-clause-exercised")
    elif st not in ("MAX_ITER", "INFEASIBLE", "UNBOUNDED"):
        obs.violate("ipm.unexpected-status", st)
