"""L2 monitor for solvor.network_simplex: spanning-tree basis invariants at every pivot.

`network_simplex` keeps its basis in local lists.  Its module-level helper `_find_join` is
called exactly once per pivot (after the entering arc is chosen, before the ratio test), so a
wrapper around it can read the caller's locals through `sys._getframe(1).f_locals` and check the
basis *as the pivot starts*.  A second observation point is the construction of the `Result`
(the name `Result` in the module namespace is wrapped): the final basis and the optimality
conditions (no non-basic arc with a profitable reduced cost) are checked there.

Nothing here raises into the solver and nothing is a verdict: anomalies are returned to the
property module, which records them as events / mechanism keys (DESIGN.md section 3).
"""

import sys

EPS = 1e-9
FULL_PIVOTS = 400
SPARSE = 64
_cur = None          # record of the network_simplex call in progress
_attached = False


class Rec:
    def __init__(self):
        self.pivots = 0
        self.counts = {}           # invariant clause -> number of evaluations
        self.first_break = None    # (pivot number, [clauses], mechanism flag)
        self.anomalies = set()
        self.final = None          # dict about the state at return
        self.prev = None           # (entering, first, second) of the previous pivot
        self.monitor_errors = 0


def begin():
    global _cur
    _cur = Rec()
    return _cur


def end():
    global _cur
    r = _cur
    _cur = None
    return r


def _tick(rec, name, k=1):
    rec.counts[name] = rec.counts.get(name, 0) + k


def check_basis(loc, rec):
    """Return the sorted list of broken invariant clauses of the basis held in the locals `loc`."""
    parent, pred, depth = loc["parent"], loc["pred"], loc["depth"]
    thread, rev = loc["thread"], loc["rev_thread"]
    source, target, flow, cap, cost, pi = loc["source"], loc["target"], loc["flow"], loc["cap"], loc["cost"], loc["pi"]
    state = loc["state"]
    root, tn, ta, n, m = loc["root"], loc["total_nodes"], loc["total_arcs"], loc["n"], loc["m"]
    supplies = loc["supplies"]
    bad = set()

    # parent[] is a tree rooted at root
    _tick(rec, "ns.l2.tree-rooted")
    is_tree = parent[root] == -1
    if is_tree:
        for i in range(tn):
            x, steps = i, 0
            while x != root and steps <= tn:
                x = parent[x]
                steps += 1
                if not (0 <= x < tn):
                    break
            if x != root:
                is_tree = False
                break
    if not is_tree:
        bad.add("tree-rooted")

    tree_arc = set()
    if is_tree:
        _tick(rec, "ns.l2.depth")
        _tick(rec, "ns.l2.pred-joins")
        _tick(rec, "ns.l2.tree-arc-reduced-cost-zero")
        if depth[root] != 0:
            bad.add("depth")
        for i in range(tn):
            if i == root:
                continue
            if depth[i] != depth[parent[i]] + 1:
                bad.add("depth")
            a = pred[i]
            if not (0 <= a < ta) or {source[a], target[a]} != {i, parent[i]} or source[a] == target[a]:
                bad.add("pred-joins")
                continue
            tree_arc.add(a)
            if abs(cost[a] - pi[source[a]] + pi[target[a]]) > EPS:
                bad.add("tree-arc-reduced-cost-zero")
        # thread: a cycle through all nodes that is a preorder of the tree (the parent of the next node
        # lies on the path from the root to the current node); rev_thread its inverse
        _tick(rec, "ns.l2.thread-preorder")
        seq, x = [], root
        for _ in range(tn):
            seq.append(x)
            x = thread[x]
            if not (0 <= x < tn):
                break
        if x != root or len(set(seq)) != tn:
            bad.add("thread-preorder")
        else:
            onpath = [root]
            for y in seq[1:]:
                p = parent[y]
                while onpath and onpath[-1] != p:
                    onpath.pop()
                if not onpath:
                    bad.add("thread-preorder")
                    break
                onpath.append(y)
        _tick(rec, "ns.l2.rev-thread-inverse")
        if any(not (0 <= thread[i] < tn) or rev[thread[i]] != i for i in range(tn)):
            bad.add("rev-thread-inverse")

    # primal side: bounds, node balance including the artificial arcs, non-tree arcs at a bound
    _tick(rec, "ns.l2.flow-bounds")
    if any(not (0 <= flow[a] <= cap[a]) for a in range(ta)):
        bad.add("flow-bounds")
    _tick(rec, "ns.l2.node-balance")
    net = [0] * tn
    for a in range(ta):
        net[source[a]] += flow[a]
        net[target[a]] -= flow[a]
    if any(net[i] != supplies[i] for i in range(n)):
        bad.add("node-balance")
    _tick(rec, "ns.l2.state-matches-flow")
    for a in range(ta):
        if (state[a] == 1 and flow[a] != 0) or (state[a] == -1 and flow[a] != cap[a]) or state[a] not in (0, 1, -1):
            bad.add("state-matches-flow")
            break
    if is_tree and "pred-joins" not in bad:
        _tick(rec, "ns.l2.nontree-arc-at-bound")
        for a in range(ta):
            if a not in tree_arc and flow[a] != 0 and flow[a] != cap[a]:
                bad.add("nontree-arc-at-bound")
                break
    return sorted(bad)


def _dual_infeasible_arcs(loc):
    """Non-basic arcs that could still enter (the solver's own entering rule, re-stated)."""
    source, target, cost, pi, state = loc["source"], loc["target"], loc["cost"], loc["pi"], loc["state"]
    out = []
    for a in range(loc["total_arcs"]):
        rc = cost[a] - pi[source[a]] + pi[target[a]]
        if (state[a] == 1 and rc < -EPS) or (state[a] == -1 and rc > EPS):
            out.append(a)
    return out


def _on_pivot(loc):
    rec = _cur
    if rec is None:
        return
    rec.pivots += 1
    # bounded monitoring cost: every pivot up to FULL_PIVOTS, afterwards every SPARSE-th (a call that pivots
    # thousands of times on these instance sizes is on its way to the step budget anyway)
    if rec.pivots > FULL_PIVOTS and rec.pivots % SPARSE:
        rec.prev = (loc.get("entering"), loc.get("first"), loc.get("second"))
        return
    _tick(rec, "ns.l2.pivot-checked")
    bad = check_basis(loc, rec)
    if bad:
        rec.anomalies.update(bad)
        if rec.first_break is None:
            # mechanism: was the previous pivot's leaving arc incident to the end point of its entering arc
            # on the side that was cut off?  (not incident => the re-hung subtree needs re-rooting)
            mech = None
            if rec.prev is not None:
                ent, first, second = rec.prev
                leaving = loc.get("leaving")
                lf = loc.get("leaving_first")
                if leaving is not None and leaving != ent:
                    end_node = first if lf else second
                    mech = "leaving-incident" if end_node in (loc["source"][leaving], loc["target"][leaving]) else "leaving-not-incident"
            rec.first_break = (rec.pivots, bad, mech)
    rec.prev = (loc.get("entering"), loc.get("first"), loc.get("second"))


def _on_result(loc):
    rec = _cur
    if rec is None or "parent" not in loc or "state" not in loc or "iterations" not in loc:
        return
    _tick(rec, "ns.l2.final-checked")
    bad = check_basis(loc, rec)
    enter = _dual_infeasible_arcs(loc)
    rec.final = {
        "basis": bad,
        "can_still_enter": len(enter),
        "iterations": loc["iterations"],
        "hit_max_iter": loc["iterations"] >= loc["max_iter"],
    }
    if bad:
        rec.anomalies.update("final:" + b for b in bad)
    if enter:
        rec.anomalies.add("final:improving-arc-left")


def attach():
    """Wrap _find_join (all bindings) and the module's `Result` name.  Idempotent."""
    global _attached
    if _attached:
        return
    _attached = True
    from vf.instrument import mod, replace

    def factory(orig):
        def find_join(u, v, depth, parent):
            if _cur is not None:
                try:
                    _on_pivot(sys._getframe(1).f_locals)
                except Exception:
                    _cur.monitor_errors += 1
            return orig(u, v, depth, parent)

        return find_join

    replace("solvor.network_simplex", "_find_join", factory)

    nsm = mod("solvor.network_simplex")
    real_result = nsm.Result

    def Result(*a, **k):  # noqa: N802 - stands in for the class name inside network_simplex only
        if _cur is not None:
            try:
                fr = sys._getframe(1)
                if fr.f_code.co_name == "network_simplex":
                    _on_result(fr.f_locals)
            except Exception:
                _cur.monitor_errors += 1
        return real_result(*a, **k)

    nsm.Result = Result
