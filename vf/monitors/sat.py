"""Monitors for solvor.sat.solve_sat.

L1  boundary wrapper (installed over every binding of solve_sat inside solvor.*): records the
    call (deep-copied clauses and options) and the result; `judge_c01` / `judge_c02` evaluate
    the property relations on a record.
L2  closure-state hooks through sys.monitoring PY_START/PY_RETURN on the nested functions of
    solve_sat selected by name (unassign_to, analyze, reduce_db) and on solve_sat itself:
      * backtracking keeps exactly the trail prefix below the target level (level-0 facts survive)
      * every learned clause is entailed by (input clauses + blocking clauses so far)   [<=16 vars]
      * reduce_db keeps the blocking clause of every model recorded so far
      * budget counters (conflicts, restarts) at return
    L2 anomalies are *events* (mechanism evidence), never violations by themselves.
"""

import sys

from vf.oracles import sat as osat

mon = sys.monitoring
TOOL = 4

CALLS = []  # records of finished/aborted calls, drained by the harness
KNOWN_MODEL = [None]  # harness may set a model (dict var->bool) known to satisfy the next formula
_cur = []  # stack of live call records
_attached = False
_codes = {}
ENTAIL_MAX_VARS = 16


def _rec_new(clauses, kw):
    return {
        "clauses": [list(c) for c in clauses],
        "kw": dict(kw),
        "result": None,
        "exc": None,
        "l2": {},  # event name -> count
        "l2_first": {},  # event name -> first witness text
        "counters": None,
        "pre": {},
        "ms": None,
    }


def _l2(rec, name, witness=None):
    rec["l2"][name] = rec["l2"].get(name, 0) + 1
    if witness is not None and name not in rec["l2_first"]:
        rec["l2_first"][name] = str(witness)[:500]


def _modelset(rec):
    if rec["ms"] is None:
        vs = osat.used_vars(rec["clauses"], rec["kw"].get("assumptions") or ())
        if vs and vs[-1] <= ENTAIL_MAX_VARS:
            vs = list(range(1, vs[-1] + 1))  # the solver also assigns (and learns over) unused variables below the maximum
        if len(vs) > ENTAIL_MAX_VARS or any(len(c) == 0 for c in rec["clauses"]):
            rec["ms"] = False
        else:
            ms = osat.ModelSet(vs)
            rec["ms"] = (ms, ms.models(rec["clauses"]))
    return rec["ms"]


def _on_start(code, off):
    if not _cur:
        return
    rec = _cur[-1]
    name = code.co_name
    f = sys._getframe(1)
    try:
        loc = f.f_locals
        if name == "unassign_to":
            level = loc["level"]
            trail = loc["trail"]
            tl = loc["trail_lim"]
            keep = trail[: tl[level]] if len(tl) > level else list(trail)
            rec["pre"][id(f)] = (level, list(keep), len(tl))
        elif name == "reduce_db":
            outer = f.f_back.f_locals if f.f_back is not None else {}
            sols = outer.get("all_solutions")
            nv = outer.get("n_vars")
            if len(outer.get("learned") or ()) >= 2000:
                _l2(rec, "reduce_db-above-threshold")
            if sols is not None and nv:
                rec["pre"][id(f)] = [frozenset((-v if s[v] else v) for v in range(1, nv + 1) if v in s) for s in sols]
    except Exception as e:  # monitor must never disturb the solver
        _l2(rec, "monitor-error", repr(e))


def _on_return(code, off, retval):
    if not _cur:
        return
    rec = _cur[-1]
    name = code.co_name
    f = sys._getframe(1)
    try:
        if name == "unassign_to":
            pre = rec["pre"].pop(id(f), None)
            if pre is None:
                return
            level, keep, ntl = pre
            loc = f.f_locals
            trail, tl, vals = loc["trail"], loc["trail_lim"], loc["vals"]
            _l2(rec, "unassign_to")
            if list(trail) != keep:
                lost0 = [v for v in keep if vals[v] == 2]
                _l2(rec, "backtrack-wrong-prefix", f"level={level} kept={list(trail)} expected={keep} lost={lost0}")
                if lost0:
                    _l2(rec, "level0-or-lower-level-lost", f"level={level} lost={lost0}")
            if len(tl) > level:
                _l2(rec, "backtrack-levels-left", f"level={level} trail_lim={list(tl)}")
        elif name == "analyze":
            _l2(rec, "analyze")
            if not isinstance(retval, tuple) or retval[0] is None:
                return
            learned = list(retval[0])
            km = KNOWN_MODEL[0]
            if km is not None:
                # every model of the input satisfies every sound lemma (valid at any size; only meaningful while
                # no blocking clause has been added, i.e. before the first model is recorded)
                outer0 = f.f_back.f_locals if f.f_back is not None else {}
                if not outer0.get("all_solutions"):
                    _l2(rec, "learned-vs-known-model")
                    if not any(km.get(abs(l)) == (l > 0) for l in learned):
                        _l2(rec, "learned-falsified-by-known-model", f"learned={learned[:12]}... ({len(learned)} lits)")
            ms = _modelset(rec)
            if not ms:
                return
            ms, base = ms
            outer = f.f_back.f_locals if f.f_back is not None else {}
            sols = outer.get("all_solutions") or []
            # models not yet blocked, maintained incrementally (solutions are only ever appended)
            done = rec.get("blocked_n", 0)
            m = rec.get("unblocked", base)
            if done > len(sols):
                done, m = 0, base
            for s in sols[done:]:
                try:
                    m &= ~(1 << ms.index_of(s))
                except KeyError:
                    return
            rec["blocked_n"] = len(sols)
            rec["unblocked"] = m
            try:
                cm = ms.clause_mask(learned)
            except KeyError:
                _l2(rec, "learned-unknown-var", learned)
                return
            _l2(rec, "learned-checked")
            if m & ~cm & ms.full:
                _l2(rec, "learned-not-entailed", f"learned={learned} after {len(sols)} models")
        elif name == "reduce_db":
            pre = rec["pre"].pop(id(f), None)
            _l2(rec, "reduce_db")
            outer = f.f_back.f_locals if f.f_back is not None else {}
            learned = outer.get("learned")
            if learned is not None and len(learned) >= 1:
                pass
            if pre and learned is not None:
                have = set(frozenset(c) for c in learned)
                # a blocking clause may also be subsumed by facts fixed at level 0; only report plain loss
                lost = [b for b in pre if b not in have]
                if lost:
                    _l2(rec, "blocking-dropped", f"{len(lost)} of {len(pre)} blocking clauses missing after reduce_db")
                _l2(rec, "reduce_db-with-blocking")
        elif name == "solve_sat":
            loc = f.f_locals
            if "conflicts" in loc:
                rec["counters"] = {
                    "conflicts": loc.get("conflicts"),
                    "restarts": loc.get("restarts"),
                    "decisions": loc.get("decisions"),
                    "n_vars": loc.get("n_vars"),
                    "learned": len(loc.get("learned") or ()),
                    "models": len(loc.get("all_solutions") or ()),
                }
    except Exception as e:
        _l2(rec, "monitor-error", repr(e))


def attach():
    global _attached
    if _attached:
        return
    _attached = True
    from vf.instrument import mod, replace

    satmod = mod("solvor.sat")
    orig = satmod.solve_sat
    top = orig.__code__
    wanted = {"unassign_to", "analyze", "reduce_db"}
    for c in top.co_consts:
        if hasattr(c, "co_name") and c.co_name in wanted:
            _codes[c.co_name] = c
    _codes["solve_sat"] = top
    mon.use_tool_id(TOOL, "vf-sat")
    mon.register_callback(TOOL, mon.events.PY_START, _on_start)
    mon.register_callback(TOOL, mon.events.PY_RETURN, _on_return)
    for name, c in _codes.items():
        ev = mon.events.PY_RETURN if name in ("analyze", "solve_sat") else (mon.events.PY_START | mon.events.PY_RETURN)
        mon.set_local_events(TOOL, c, ev)

    def factory(original):
        def solve_sat(clauses, **kw):
            try:
                rec = _rec_new(clauses, kw)
            except Exception:
                return original(clauses, **kw)
            _cur.append(rec)
            try:
                res = original(clauses, **kw)
                rec["result"] = res
                return res
            except BaseException as e:
                rec["exc"] = e
                raise
            finally:
                _cur.pop()
                rec["pre"] = {}
                rec["ms_cached"] = rec.pop("ms", None)
                if len(CALLS) < 5000:
                    CALLS.append(rec)

        solve_sat.__name__ = "solve_sat"
        solve_sat.__doc__ = original.__doc__
        return solve_sat

    n = replace("solvor.sat", "solve_sat", factory)
    return n


def hooks_found():
    return sorted(_codes)


def drain():
    out = list(CALLS)
    CALLS.clear()
    return out


# ------------------------------------------------------------------ property relations (L1)

def all_models(res):
    out = []
    if res.solution is not None:
        out.append(res.solution)
    if res.solutions:
        out.extend(res.solutions)
    return out


def judge_c01(rec, obs, prefix=""):
    """C01: every assignment handed back is a model, agrees with the assumptions; solutions distinct."""
    res = rec["result"]
    if res is None:
        return
    st = getattr(res.status, "name", str(res.status))
    if st not in ("OPTIMAL", "MAX_ITER", "FEASIBLE"):
        return
    clauses = rec["clauses"]
    assumptions = list(rec["kw"].get("assumptions") or ())
    models = all_models(res)
    obs.event(prefix + "c01.models-checked", len(models))
    for k, m in enumerate(models):
        if not isinstance(m, dict):
            obs.violate("sat.model-not-a-dict", f"{m!r}")
            continue
        bad = osat.satisfies(clauses, m)
        if bad is not None:
            idx, why = bad
            obs.violate(f"sat.model-{why}-clause", f"model#{k} {m} leaves clause {clauses[idx]} {why}; kw={rec['kw']}")
            break
        for lit in assumptions:
            if m.get(abs(lit)) != (lit > 0):
                obs.violate("sat.model-contradicts-assumption", f"model#{k} {m} vs assumption {lit}")
                break
    if res.solutions:
        seen = set()
        for m in res.solutions:
            key = tuple(sorted(m.items())) if isinstance(m, dict) else repr(m)
            if key in seen:
                obs.violate("sat.duplicate-models", f"model {m} returned twice among {len(res.solutions)}; kw={rec['kw']}")
                break
            seen.add(key)
        obs.event(prefix + "c01.distinctness-checked")


def judge_c02(rec, obs, known=None, prefix=""):
    """C02: verdict vs oracle. known: True/False/None status by construction for big instances."""
    res = rec["result"]
    if res is None:
        return
    st = getattr(res.status, "name", str(res.status))
    clauses = rec["clauses"]
    assumptions = list(rec["kw"].get("assumptions") or ())
    vs = osat.used_vars(clauses, assumptions)
    sat = None
    if any(len(c) == 0 for c in clauses):
        sat = False
    elif len(vs) <= osat.MAX_BRUTE_VARS:
        cached = rec.get("ms_cached")
        ms = cached[0] if cached else osat.ModelSet(vs)
        sat = bool(ms.models(clauses, assumptions))
        obs.mode("exact")
    elif known is not None:
        sat = known
        obs.mode("by-construction")
    else:
        obs.mode("certificate_only")
    if sat is not None:
        obs.event(prefix + "c02.verdict-checked")
        if st == "INFEASIBLE" and sat:
            obs.violate("sat.infeasible-but-satisfiable", f"INFEASIBLE on satisfiable instance; assumptions={assumptions} kw={rec['kw']}")
        if st in ("OPTIMAL", "FEASIBLE") and not sat:
            obs.violate("sat.model-for-unsat", f"{st} with solution {res.solution} on an unsatisfiable instance")
        if st in ("OPTIMAL", "FEASIBLE") and sat and res.solution is None:
            obs.violate("sat.optimal-without-model", "status says solved but no model returned")
    if st in ("OPTIMAL", "FEASIBLE") and isinstance(res.solution, dict) and not any(len(c) == 0 for c in clauses):
        # "answers with a model": what is handed back under OPTIMAL must be one (certificate, any size)
        obs.event(prefix + "c02.claimed-model-checked")
        bad = osat.satisfies(clauses, res.solution)
        if bad is not None:
            obs.violate("sat.claimed-model-is-not-a-model", f"{st} with an assignment that leaves clause {clauses[bad[0]]} {bad[1]}; kw={rec['kw']}")
        elif any(res.solution.get(abs(l)) != (l > 0) for l in assumptions):
            obs.violate("sat.claimed-model-contradicts-assumption", f"{res.solution} vs {assumptions}")
    if st not in ("OPTIMAL", "FEASIBLE", "INFEASIBLE", "MAX_ITER"):
        obs.violate("sat.unexpected-status", st)
    c = rec.get("counters")
    if c and c.get("conflicts") is not None:
        mc = rec["kw"].get("max_conflicts", 100_000)
        mr = rec["kw"].get("max_restarts", 10_000)
        obs.event(prefix + "c02.budget-counters-read")
        if st == "MAX_ITER" and c["conflicts"] < mc and c["restarts"] < mr:
            obs.violate("sat.gave-up-early", f"MAX_ITER with conflicts={c['conflicts']}<{mc} and restarts={c['restarts']}<{mr}")
        nv = c.get("n_vars") or len(vs)
        if c["conflicts"] > 2 * mc + 10 * nv + 100:
            obs.violate("sat.budget-overrun", f"conflicts={c['conflicts']} with max_conflicts={mc}")
        if c["restarts"] > mr + 1:
            obs.violate("sat.budget-overrun", f"restarts={c['restarts']} with max_restarts={mr}")
