"""L2 monitors for C18, attached from outside.

VRP: the eight exported destroy/repair operators are replaced in solvor.vrp's namespace
(and every alias) by wrappers that judge the VRPState before and after each application with
the reference oracle.  An anomaly that is new in the returned state -- or new in the *input*
state, if the operator mutated it -- is charged to the operator (LOG); anomalies already
present before the call are not.  Nested applications (sync_aware_insertion -> regret_insertion,
sync_removal -> random_removal) are judged like any other application.

Job shop: _dispatch / _try_swap / _rebuild_schedule are wrapped; every schedule they hand back
is judged, anomalies are informational (INFO), never violations.

Wrappers never raise into the solver and never alter arguments or results.
"""

from vf.oracles import sched as O

VRP_OPS = ["random_removal", "worst_removal", "related_removal", "route_removal", "sync_removal",
           "greedy_insertion", "regret_insertion", "sync_aware_insertion"]
DESTROY = set(VRP_OPS[:5])

LOG = []  # (class suffix, detail)   -- deciding (C18 speaks about every operator application)
COUNT = {}  # evaluation counters
INFO = {}  # informational anomalies (L2 only)
CAP_LOG = []  # capacity-infeasible insertions (informational unless the property module decides otherwise)
TRACE = []  # last applications: (depth, operator, pre digest, post digest, n new anomalies)
_depth = [0]
_attached = {"vrp": False, "js": False}
_js_jobs = {"jobs": None}


def _tick(d, k, n=1):
    d[k] = d.get(k, 0) + n


def reset():
    LOG.clear()
    COUNT.clear()
    INFO.clear()
    TRACE.clear()
    CAP_LOG.clear()
    _depth[0] = 0


def drain():
    out = (list(LOG), dict(COUNT), dict(INFO), list(TRACE))
    reset()
    return out


def _bad(cls, detail):
    if len(LOG) < 40:
        LOG.append((cls, str(detail)[:900]))


def _vrp_factory(name):
    def factory(orig):
        def wrapper(state, rng, *a, **k):
            try:
                pre = O.snapshot(state)
                pre_an = O.anomalies(pre)
            except Exception as e:  # not a VRPState-like object: cannot judge, stay out of the way
                _tick(INFO, "l2.vrp.unjudgeable-input")
                pre = None
            _depth[0] += 1
            try:
                out = orig(state, rng, *a, **k)
            finally:
                _depth[0] -= 1
            if pre is None:
                return out
            try:
                _judge(name, pre, pre_an, state, out, a, k)
            except Exception as e:  # a monitor bug must not look like a solver crash
                _tick(INFO, "l2.vrp.monitor-error")
                _bad("monitor-error", f"{name}: {e!r}")
            return out

        wrapper.__name__ = name
        wrapper.__qualname__ = name
        return wrapper

    return factory


def _judge(name, pre, pre_an, state_in, out, a, k):
    _tick(COUNT, "vrp.op.applications")
    _tick(COUNT, "vrp.op." + name)
    if _depth[0] > 0:
        _tick(COUNT, "vrp.op.nested")
    if pre_an:
        _tick(COUNT, "vrp.op.pre-anomalous")  # e.g. regret_insertion inside sync_aware_insertion
    try:
        post = O.snapshot(out)
    except Exception as e:
        _bad("shape", f"{name}{a} returned {type(out).__name__}: {e!r}")
        return
    post_an = O.anomalies(post)
    new = {key: d for key, d in post_an.items() if key not in pre_an}
    if len(TRACE) >= 8:
        del TRACE[0]
    TRACE.append((_depth[0], name, pre.digest(), post.digest(), len(new)))
    for key, d in new.items():
        _bad(O.KEY_CLASS[key[0]], f"after {name}{_args(a, k)} on {pre.digest()} [arrivals {pre.arr}]: {d}; "
                                  f"returned {post.digest()}")
    # the input object: operators promise a modified *copy*; a state they were handed is still held by the search
    if out is not state_in:
        again = O.snapshot(state_in)
        if not again.same_plan(pre):
            _tick(INFO, "l2.vrp.input-mutated")
            in_an = O.anomalies(again)
            for key, d in in_an.items():
                if key not in pre_an:
                    _bad(O.KEY_CLASS[key[0]], f"{name}{_args(a, k)} mutated its input state {pre.digest()} -> "
                                              f"{again.digest()}: {d}")
    else:
        _tick(INFO, "l2.vrp.returned-input-object")
    # informational: what kind of move was it
    if name in DESTROY:
        if any(post.routes[v] != pre.routes[v] for v in range(min(len(post.routes), len(pre.routes)))):
            _tick(COUNT, "vrp.op.destroy.removed-something")
        multi_hit = [c for c in post.unassigned - pre.unassigned if 1 <= c <= pre.n and pre.cust[c][6] > 1
                     and sum(1 for r in pre.routes if c in r) > 1]
        if multi_hit:
            _tick(COUNT, "vrp.op.destroy.removed-multi-route-customer")
    else:
        if len(post.unassigned) < len(pre.unassigned):
            _tick(COUNT, "vrp.op.repair.inserted-something")
        if any(1 <= c <= pre.n and pre.cust[c][6] > 1 and sum(1 for r in post.routes if c in r) > 1
               for c in pre.unassigned - post.unassigned):
            _tick(COUNT, "vrp.op.repair.inserted-multi-on-several-routes")
        if any(1 <= c <= pre.n and pre.cust[c][6] > 1 for c in pre.unassigned & post.unassigned):
            _tick(COUNT, "vrp.op.repair.multi-left-unassigned")
        over = O.overloaded_gain(pre, post)
        if over:
            _tick(INFO, "l2.vrp.capacity-insertion", len(over))
            if len(CAP_LOG) < 10:
                CAP_LOG.append(f"after {name}{_args(a, k)} on {pre.digest()}: routes that gained a visit are over "
                               f"capacity (route, load, capacity) {over}; returned {post.digest()}")


def _args(a, k):
    s = ", ".join([repr(x) for x in a] + [f"{kk}={vv!r}" for kk, vv in k.items()])
    return f"({s})" if s else "()"


def attach_vrp():
    if _attached["vrp"]:
        return
    _attached["vrp"] = True
    from vf.instrument import replace

    for name in VRP_OPS:
        replace("solvor.vrp", name, _vrp_factory(name))


# ------------------------------------------------------------------------------ job shop

def _js_judge(tag, jobs, schedule):
    _tick(COUNT, f"js.l2.{tag}.checked")
    try:
        bad = O.check_schedule([list(j) for j in jobs], schedule)
    except Exception as e:
        _tick(INFO, "l2.js.monitor-error")
        return
    for cls, _d in bad:
        _tick(INFO, f"l2.js.{tag}.{cls}")


def attach_js():
    if _attached["js"]:
        return
    _attached["js"] = True
    from vf.instrument import replace

    def f_dispatch(orig):
        def _dispatch(jobs, n_machines, rule, rng):
            out = orig(jobs, n_machines, rule, rng)
            _js_judge("dispatch", jobs, out)
            return out

        return _dispatch

    def f_rebuild(orig):
        def _rebuild_schedule(jobs, old_schedule, target_machine, machine_order):
            out = orig(jobs, old_schedule, target_machine, machine_order)
            _js_judge("rebuild", jobs, out)
            return out

        return _rebuild_schedule

    def f_swap(orig):
        def _try_swap(jobs, schedule, j1, op1, j2, op2):
            out = orig(jobs, schedule, j1, op1, j2, op2)
            _tick(COUNT, "js.l2.swap.tried")
            if out is None:
                _tick(COUNT, "js.l2.swap.rejected")
            return out

        return _try_swap

    replace("solvor.job_shop", "_dispatch", f_dispatch)
    replace("solvor.job_shop", "_rebuild_schedule", f_rebuild)
    replace("solvor.job_shop", "_try_swap", f_swap)
