"""Exact reference optima for the rectangular assignment problem (C10).  No code shared with solvOR.

A *matching* of an r x c matrix assigns min(r, c) rows to distinct columns (all rows if r <= c, else
all columns are used).  The optimum is the minimum (or maximum) of the sum of the chosen entries.

All arithmetic is exact: entries are converted with Fraction(x) (exact for ints and floats) and
scaled to integers by the common denominator.

opt_perm : enumeration of all injective maps (guard: <= PERM_MAX maps)
opt_dp   : subset dynamic programme over the columns used so far (guard: <= DP_MAX states)
opt_ssp  : successive shortest augmenting paths with Bellman-Ford (no potentials), any size <= SSP_MAX
"""

from fractions import Fraction
from itertools import permutations
from math import comb, lcm, perm

PERM_MAX = 6000
DP_MAX = 40_000
SSP_MAX = 40


def to_int_matrix(matrix):
    """(integer matrix, scale) with matrix[i][j] == ints[i][j] / scale exactly."""
    fr = [[Fraction(x) for x in row] for row in matrix]
    scale = 1
    for row in fr:
        for x in row:
            scale = lcm(scale, x.denominator)
    return [[int(x * scale) for x in row] for row in fr], scale


def _orient(ints, minimize):
    """rows <= cols and minimisation; returns the transformed integer matrix."""
    r, c = len(ints), len(ints[0])
    if r > c:
        ints = [[ints[i][j] for i in range(r)] for j in range(c)]
    if not minimize:
        ints = [[-x for x in row] for row in ints]
    return ints


def opt_perm(matrix, minimize=True):
    ints, scale = to_int_matrix(matrix)
    a = _orient(ints, minimize)
    r, c = len(a), len(a[0])
    if perm(c, r) > PERM_MAX:
        return None
    best = None
    for p in permutations(range(c), r):
        s = 0
        for i in range(r):
            s += a[i][p[i]]
        if best is None or s < best:
            best = s
    return Fraction(best if minimize else -best, scale)


def opt_dp(matrix, minimize=True):
    ints, scale = to_int_matrix(matrix)
    a = _orient(ints, minimize)
    r, c = len(a), len(a[0])
    if sum(comb(c, k) for k in range(r + 1)) > DP_MAX:
        return None
    layer = {0: 0}
    for i in range(r):
        nxt = {}
        row = a[i]
        for mask, val in layer.items():
            for j in range(c):
                if not mask >> j & 1:
                    m2 = mask | 1 << j
                    v = val + row[j]
                    old = nxt.get(m2)
                    if old is None or v < old:
                        nxt[m2] = v
        layer = nxt
    best = min(layer.values())
    return Fraction(best if minimize else -best, scale)


def opt_ssp(matrix, minimize=True):
    ints, scale = to_int_matrix(matrix)
    a = _orient(ints, minimize)
    r, c = len(a), len(a[0])
    if max(r, c) > SSP_MAX:
        return None
    row_of = [-1] * c  # column -> matched row
    col_of = [-1] * r
    total = 0
    for _ in range(r):
        # Bellman-Ford over the residual graph: free rows are sources (dist 0);
        # row i -> column j costs a[i][j] (if not matched to each other); column j -> its row costs -a[row][j]
        INF = None
        dr = [0 if col_of[i] == -1 else INF for i in range(r)]
        dc = [INF] * c
        pc = [-1] * c  # predecessor row of a column
        for _round in range(2 * (r + c) + 2):
            changed = False
            for i in range(r):
                if dr[i] is INF:
                    continue
                for j in range(c):
                    if col_of[i] == j:
                        continue
                    v = dr[i] + a[i][j]
                    if dc[j] is INF or v < dc[j]:
                        dc[j] = v
                        pc[j] = i
                        changed = True
            for j in range(c):
                i = row_of[j]
                if i != -1 and dc[j] is not INF:
                    v = dc[j] - a[i][j]
                    if dr[i] is INF or v < dr[i]:
                        dr[i] = v
                        changed = True
            if not changed:
                break
        else:
            raise AssertionError("negative cycle in residual graph (oracle bug)")
        end = min((j for j in range(c) if row_of[j] == -1 and dc[j] is not INF), key=lambda j: (dc[j], j))
        total += dc[end]
        j = end
        while True:
            i = pc[j]
            prev = col_of[i]
            row_of[j] = i
            col_of[i] = j
            if prev == -1:
                break
            j = prev
    check = sum(a[i][col_of[i]] for i in range(r))
    assert check == total and len(set(col_of)) == r
    return Fraction(total if minimize else -total, scale)


def optimum(matrix, minimize=True):
    """(value, how) using every oracle whose guard admits the instance; they must agree."""
    vals = {}
    for name, fn in (("perm", opt_perm), ("dp", opt_dp), ("ssp", opt_ssp)):
        v = fn(matrix, minimize)
        if v is not None:
            vals[name] = v
    if not vals:
        return None, "guard"
    if len(set(vals.values())) != 1:
        raise AssertionError(f"assignment oracles disagree: {vals}")
    return next(iter(vals.values())), "+".join(vals)
