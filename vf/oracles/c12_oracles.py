"""Definitional graph oracles for C12 (Rust/Python back-end equivalence).

Nothing here is shared with solvOR or with the other oracle modules.  Numbers are ints or
Fractions (floats given by a case are converted exactly), "no path" is None.  All routines are the
textbook *definitions* (walks of at most k edges, closure by iteration, subsets of edges) rather
than the algorithms the library uses, and they carry explicit size guards (callers must respect
APSP_MAX_N / SSSP_MAX_N / MST_BRUTE_MAX_M).
"""

from fractions import Fraction
from itertools import combinations

APSP_MAX_N = 14
SSSP_MAX_N = 90
MST_BRUTE_MAX_M = 11
PAGERANK_EXACT_MAX_N = 10


def exact(w):
    """int stays int, float becomes the Fraction it denotes."""
    if isinstance(w, bool):
        return int(w)
    if isinstance(w, int):
        return w
    return Fraction(w)


def min_arcs(n, edges, directed=True):
    """lightest arc per ordered pair (undirected: both orientations)."""
    best = {}
    for u, v, w in edges:
        w = exact(w)
        for a, b in (((u, v),) if directed else ((u, v), (v, u))):
            if (a, b) not in best or w < best[(a, b)]:
                best[(a, b)] = w
    return best


def sssp(n, edges, s, directed=True):
    """Shortest walk weights from s by definition.

    d_k[v] = least weight of a walk s->v with at most k arcs (Jacobi rounds, each round reads only
    the previous one).  Returns (dist list with None = unreachable, neg) where neg says that a
    negative cycle is reachable from s (d_n improves on d_{n-1} somewhere); dist is then meaningless.
    """
    arcs = list(min_arcs(n, edges, directed).items())
    d = [None] * n
    d[s] = 0
    for rnd in range(n):
        nd = list(d)
        changed = False
        for (u, v), w in arcs:
            if d[u] is None:
                continue
            c = d[u] + w
            if nd[v] is None or c < nd[v]:
                nd[v] = c
                changed = True
        if not changed:
            return d, False
        if rnd == n - 1:
            return nd, True  # a walk with n arcs beat every walk with <= n-1 arcs
        d = nd
    return d, False


def apsp(n, edges, directed=True):
    """(matrix, neg): all-pairs shortest walk weights; neg = a negative cycle exists anywhere."""
    rows = []
    neg = False
    for s in range(n):
        d, ng = sssp(n, edges, s, directed)
        neg = neg or ng
        rows.append(d)
    return rows, neg


def reachable(n, pairs, s):
    """closure of {s} under the arcs, by iteration to a fixed point."""
    seen = {s}
    grew = True
    while grew:
        grew = False
        for e in pairs:
            if e[0] in seen and e[1] not in seen:
                seen.add(e[1])
                grew = True
    return seen


def hops(n, pairs, s):
    """least number of arcs from s (None = unreachable), by layers."""
    d, _ = sssp(n, [(e[0], e[1], 1) for e in pairs], s)
    return d


def reach_matrix(n, pairs):
    return [reachable(n, pairs, s) for s in range(n)]


def scc_classes(n, pairs):
    """set of frozensets: classes of mutual reachability."""
    r = reach_matrix(n, pairs)
    return {frozenset(j for j in range(n) if j in r[i] and i in r[j]) for i in range(n)}


def is_acyclic(n, pairs):
    """no closed walk with at least one arc."""
    r = None
    for e in pairs:
        if e[0] == e[1]:
            return False
    r = reach_matrix(n, pairs)
    for e in pairs:
        if e[0] in r[e[1]]:
            return False
    return True


# ------------------------------------------------------------------ walks as certificates

def check_walk(path, s, t, arc_w):
    """None if path is a walk s->t over arcs of arc_w (dict pair->weight or set of pairs), else why not."""
    if not isinstance(path, (list, tuple)) or len(path) == 0:
        return "no path"
    if path[0] != s:
        return f"starts at {path[0]}, not at {s}"
    if path[-1] != t:
        return f"ends at {path[-1]}, not at {t}"
    for a, b in zip(path, path[1:]):
        if (a, b) not in arc_w:
            return f"uses non-arc {(a, b)}"
    return None


def walk_weight(path, arc_w):
    return sum((arc_w[(a, b)] for a, b in zip(path, path[1:])), 0)


# ------------------------------------------------------------------ spanning forests

class _DS:
    def __init__(self, n):
        self.p = list(range(n))

    def find(self, x):
        while self.p[x] != x:
            x = self.p[x]
        return x

    def join(self, a, b):
        ra, rb = self.find(a), self.find(b)
        if ra == rb:
            return False
        self.p[ra] = rb
        return True


def components_undirected(n, edges):
    ds = _DS(n)
    c = n
    for e in edges:
        if ds.join(e[0], e[1]):
            c -= 1
    return c


def msf_weight(n, edges):
    """(weight of a minimum spanning forest, number of forest edges) with the oracle's own greedy."""
    ds = _DS(n)
    tot = 0
    cnt = 0
    for u, v, w in sorted(((e[0], e[1], exact(e[2])) for e in edges), key=lambda e: e[2]):
        if ds.join(u, v):
            tot += w
            cnt += 1
    return tot, cnt


def msf_weight_brute(n, edges):
    """the same by definition: minimum over all acyclic edge subsets of full rank (m <= MST_BRUTE_MAX_M)."""
    k = n - components_undirected(n, edges)
    best = None
    ex = [(e[0], e[1], exact(e[2])) for e in edges]
    for sub in combinations(range(len(ex)), k):
        ds = _DS(n)
        ok = True
        tot = 0
        for i in sub:
            u, v, w = ex[i]
            if not ds.join(u, v):
                ok = False
                break
            tot += w
        if ok and (best is None or tot < best):
            best = tot
    return (best if best is not None else 0), k


def check_forest(n, edges, sol):
    """None if sol is a list of distinct input edges forming a forest, else why not."""
    pool = {}
    for u, v, w in edges:
        key = (u, v, exact(w))
        pool[key] = pool.get(key, 0) + 1
    ds = _DS(n)
    for e in sol:
        if len(e) != 3:
            return f"malformed edge {e!r}"
        key = (e[0], e[1], exact(e[2]))
        if pool.get(key, 0) <= 0:
            return f"edge {e!r} is not (or no longer) an input edge"
        pool[key] -= 1
        if not ds.join(e[0], e[1]):
            return f"edge {e!r} closes a cycle"
    return None


# ------------------------------------------------------------------ PageRank

def pagerank_operator(n, pairs, d):
    """returns T(x) for the documented model on the directed multigraph (x list of numbers)."""
    out = [0] * n
    inc = [[] for _ in range(n)]
    for e in pairs:
        out[e[0]] += 1
        inc[e[1]].append(e[0])

    def T(x):
        dang = sum((x[u] for u in range(n) if out[u] == 0), 0)
        base = (1 - d) / n + d * dang / n
        return [base + d * sum((x[u] / out[u] for u in inc[v]), 0) for v in range(n)]

    return T


def pagerank_exact(n, pairs, d):
    """stationary vector as Fractions: solve (I - d*M) p = (1-d)/n * 1 exactly (n <= PAGERANK_EXACT_MAX_N)."""
    d = Fraction(d)
    out = [0] * n
    for e in pairs:
        out[e[0]] += 1
    A = [[Fraction(0)] * (n + 1) for _ in range(n)]
    for v in range(n):
        A[v][v] += 1
        A[v][n] = (1 - d) / n
    for e in pairs:
        u, v = e[0], e[1]
        A[v][u] -= d / out[u]
    for u in range(n):
        if out[u] == 0:
            for v in range(n):
                A[v][u] -= d / n
    for c in range(n):
        piv = next(r for r in range(c, n) if A[r][c] != 0)
        A[c], A[piv] = A[piv], A[c]
        pv = A[c][c]
        A[c] = [x / pv for x in A[c]]
        for r in range(n):
            if r != c and A[r][c] != 0:
                f = A[r][c]
                A[r] = [x - f * y for x, y in zip(A[r], A[c])]
    return [A[v][n] for v in range(n)]


def pagerank_iterates(n, pairs, d, tol, max_iter):
    """The documented iteration from the uniform vector, in floats with exact-ish sums.

    Returns (k, x_k, steps, converged): steps[i] = inf-norm of iterate i+1 minus iterate i; stops at the
    first step < tol or after max_iter rounds.
    """
    from math import fsum

    out = [0] * n
    inc = [[] for _ in range(n)]
    for e in pairs:
        out[e[0]] += 1
        inc[e[1]].append(e[0])
    x = [1.0 / n] * n
    steps = []
    for k in range(1, max_iter + 1):
        dang = fsum(x[u] for u in range(n) if out[u] == 0)
        y = [(1.0 - d) / n + d * fsum(x[u] / out[u] for u in inc[v]) + d * dang / n for v in range(n)]
        st = max(abs(a - b) for a, b in zip(x, y))
        steps.append(st)
        x = y
        if st < tol:
            return k, x, steps, True
    return max_iter, x, steps, False
