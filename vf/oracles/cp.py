"""CP reference semantics, independent of solvOR.

A *spec* is plain data:
  {"vars": [(name_or_None, lb, ub), ...],
   "cons": [constraint, ...]}
constraints:
  ("rel", "eq"|"ne", expr, expr)
  ("all_different", [i, ...])
  ("sum_eq"|"sum_le"|"sum_ge", [i, ...], target)
  ("circuit", [i, ...])
  ("no_overlap", [i, ...], [dur, ...])
  ("cumulative", [i, ...], [dur, ...], [demand, ...], capacity)
expressions:
  ("var", i) | ("const", k) | ("add", a, b) | ("sub", a, b) | ("mul", a, k) | ("rmul", k, a)
  with a, b expressions (a const operand is a plain Python int when the model is built)

`build(spec, Model)` constructs the real model through the public constructors / operators.
`holds(con, values)` evaluates a constraint under a full assignment (list indexed by variable).
"""

from itertools import product


# ------------------------------------------------------------------ evaluation

def ev(e, vals):
    t = e[0]
    if t == "var":
        return vals[e[1]]
    if t == "const":
        return e[1]
    if t == "add":
        return ev(e[1], vals) + ev(e[2], vals)
    if t == "sub":
        return ev(e[1], vals) - ev(e[2], vals)
    if t == "mul":
        return ev(e[1], vals) * e[2]
    if t == "rmul":
        return e[1] * ev(e[2], vals)
    raise ValueError(e)


def expr_vars(e, out=None):
    out = set() if out is None else out
    t = e[0]
    if t == "var":
        out.add(e[1])
    elif t in ("add", "sub"):
        expr_vars(e[1], out)
        expr_vars(e[2], out)
    elif t == "mul":
        expr_vars(e[1], out)
    elif t == "rmul":
        expr_vars(e[2], out)
    return out


def con_vars(con):
    k = con[0]
    if k == "rel":
        return sorted(expr_vars(con[2]) | expr_vars(con[3]))
    return sorted(set(con[1]))


def is_single_cycle(succ):
    n = len(succ)
    if any(not (0 <= s < n) for s in succ):
        return False
    if len(set(succ)) != n:
        return False
    seen = 0
    cur = 0
    for _ in range(n):
        cur = succ[cur]
        seen += 1
        if cur == 0:
            break
    return seen == n and cur == 0


def holds(con, vals, lenient_zero_duration=True):
    k = con[0]
    if k == "rel":
        a, b = ev(con[2], vals), ev(con[3], vals)
        return (a == b) if con[1] == "eq" else (a != b)
    if k == "all_different":
        vs = [vals[i] for i in con[1]]
        return len(set(vs)) == len(vs)
    if k == "sum_eq":
        return sum(vals[i] for i in con[1]) == con[2]
    if k == "sum_le":
        return sum(vals[i] for i in con[1]) <= con[2]
    if k == "sum_ge":
        return sum(vals[i] for i in con[1]) >= con[2]
    if k == "circuit":
        return is_single_cycle([vals[i] for i in con[1]])
    if k == "no_overlap":
        st = [vals[i] for i in con[1]]
        du = con[2]
        for i in range(len(st)):
            for j in range(i + 1, len(st)):
                if lenient_zero_duration and (du[i] == 0 or du[j] == 0):
                    continue  # whether an empty interval can overlap is a convention the property does not fix
                if not (st[i] + du[i] <= st[j] or st[j] + du[j] <= st[i]):
                    return False
        return True
    if k == "cumulative":
        st = [vals[i] for i in con[1]]
        du, de, cap = con[2], con[3], con[4]
        if not st:
            return True
        for t in range(min(st), max(s + d for s, d in zip(st, du)) + 1):
            load = sum(de[i] for i in range(len(st)) if st[i] <= t < st[i] + du[i])
            if load > cap:
                return False
        return True
    raise ValueError(con)


def domain_product_size(spec):
    size = 1
    for _, lb, ub in spec["vars"]:
        size *= max(0, ub - lb + 1)
    return size


def has_zero_duration_no_overlap(spec):
    return any(c[0] == "no_overlap" and any(d == 0 for d in c[2]) for c in spec["cons"])


def solution_set(spec, lenient=True):
    """Set of tuples over the NAMED variables (in spec order) that extend to a full assignment satisfying all
    constraints (anonymous variables are existentially quantified).  lenient=False uses the strict reading of
    no_overlap for zero-duration tasks (end_i <= start_j or end_j <= start_i for every pair)."""
    vars_ = spec["vars"]
    named = [i for i, v in enumerate(vars_) if v[0] is not None]
    out = set()
    doms = [range(lb, ub + 1) for _, lb, ub in vars_]
    cons = spec["cons"]
    for vals in product(*doms):
        if all(holds(c, vals, lenient_zero_duration=lenient) for c in cons):
            out.add(tuple(vals[i] for i in named))
    return out


def excludes_something(con, spec):
    """True if the constraint rules out at least one tuple of its own variables' domains."""
    vs = con_vars(con)
    vars_ = spec["vars"]
    doms = [range(vars_[i][1], vars_[i][2] + 1) for i in vs]
    full = [0] * len(vars_)
    for combo in product(*doms):
        for i, v in zip(vs, combo):
            full[i] = v
        if not holds(con, full, lenient_zero_duration=False):
            return True
    return False


# ------------------------------------------------------------------ building the real model

class Unbuildable(Exception):
    pass


def build_con(m, xs, con, container="list", keep=None):
    """Construct one constraint object through the public constructors / operators (not yet added to the model).
    container: how a variable collection is handed over - "list", "tuple", "gen" (one-shot generator) or "mutate"
    (a list the caller keeps and appends to after the constraint has been added; `keep` collects those lists)."""

    def coll(idx, allow_gen=True):
        L = [xs[i] for i in idx]
        if container == "tuple":
            return tuple(L)
        if container == "gen" and allow_gen:
            return (v for v in L)
        if container == "mutate" and keep is not None:
            keep.append((L, xs[idx[0]] if idx else None))
        return L

    def bx(e):
        t = e[0]
        if t == "var":
            return xs[e[1]]
        if t == "const":
            return e[1]
        if t == "add":
            return bx(e[1]) + bx(e[2])
        if t == "sub":
            return bx(e[1]) - bx(e[2])
        if t == "mul":
            return bx(e[1]) * e[2]
        if t == "rmul":
            return e[1] * bx(e[2])
        raise ValueError(e)

    k = con[0]
    try:
        if k == "rel":
            a, b = bx(con[2]), bx(con[3])
            c = (a == b) if con[1] == "eq" else (a != b)
            if not isinstance(c, tuple):
                raise Unbuildable(f"comparison produced {c!r}")
        elif k == "all_different":
            c = m.all_different(coll(con[1]))
        elif k in ("sum_eq", "sum_le", "sum_ge"):
            c = getattr(m, k)(coll(con[1]), con[2])
        elif k == "circuit":
            c = m.circuit(coll(con[1]))
        elif k == "no_overlap":
            c = m.no_overlap(coll(con[1], allow_gen=False), list(con[2]))  # (the constructor needs len())
        elif k == "cumulative":
            c = m.cumulative(coll(con[1], allow_gen=False), list(con[2]), list(con[3]), con[4])
        else:
            raise ValueError(con)
    except TypeError as e:
        raise Unbuildable(str(e))
    return c


def build(spec, Model):
    """-> (model, [IntVar...], [built constraint objects...]).  Raises Unbuildable when an operator
    combination is rejected by the library with TypeError (a loud, documented refusal)."""
    m = Model()
    xs = []
    for name, lb, ub in spec["vars"]:
        xs.append(m.int_var(lb, ub, name) if name is not None else m.int_var(lb, ub))
    built = []
    kinds = spec.get("containers") or []
    for k, con in enumerate(spec["cons"]):
        keep = []
        c = build_con(m, xs, con, kinds[k] if k < len(kinds) else "list", keep)
        m.add(c)
        built.append(c)
        # the caller goes on using its own list after the constraint has been added: a constraint is a snapshot of
        # its arguments at construction time
        for L, extra in keep:
            if extra is not None:
                L.append(extra)
    return m, xs, built


def extend(spec, m, xs, new_vars, new_cons):
    """Add variables and constraints to an already built (and possibly already solved) model; returns the new spec."""
    spec2 = {"vars": list(spec["vars"]) + list(new_vars), "cons": list(spec["cons"]) + list(new_cons)}
    for name, lb, ub in new_vars:
        xs.append(m.int_var(lb, ub, name) if name is not None else m.int_var(lb, ub))
    for con in new_cons:
        m.add(build_con(m, xs, con))
    return spec2


# ------------------------------------------------------------------ CNF: all models projected on some variables

def cnf_projected_models(clauses, proj, limit_nodes=400_000, witnesses=None):
    """All assignments to the variables in `proj` (list of positive ints) that extend to a model of the CNF.
    Independent DPLL: unit propagation over occurrence lists, branch on projection variables first, then plain
    satisfiability of the rest.  Returns (set of frozenset(true projection vars), complete_flag).
    witnesses: optional dict, filled with projection -> [full model found preferring True, one preferring False]
    (full models as dict var -> bool over every variable of the CNF and of proj)."""
    clauses = [tuple(dict.fromkeys(c)) for c in clauses]
    if any(len(c) == 0 for c in clauses):
        return set(), True
    occ = {}  # literal -> indices of clauses containing it
    for idx, c in enumerate(clauses):
        for lit in c:
            occ.setdefault(lit, []).append(idx)
    allvars = sorted({abs(l) for c in clauses for l in c} | set(proj))
    nodes = [0]

    class Limit(Exception):
        pass

    def assign_and_propagate(assign, lits):
        """assign: dict var->bool (mutated). lits: literals to make true. Returns False on conflict."""
        queue = list(lits)
        while queue:
            lit = queue.pop()
            v = abs(lit)
            val = lit > 0
            cur = assign.get(v)
            if cur is not None:
                if cur != val:
                    return False
                continue
            assign[v] = val
            for idx in occ.get(-lit, ()):  # clauses in which a literal just became false
                sat = False
                free = None
                nfree = 0
                for l2 in clauses[idx]:
                    a = assign.get(abs(l2))
                    if a is None:
                        nfree += 1
                        free = l2
                    elif a == (l2 > 0):
                        sat = True
                        break
                if sat:
                    continue
                if nfree == 0:
                    return False
                if nfree == 1:
                    queue.append(free)
        return True

    base = {}
    units = [c[0] for c in clauses if len(c) == 1]
    if not assign_and_propagate(base, units):
        return set(), True

    def satisfiable(assign, pref=(True, False)):
        """A full model extending `assign` (dict), or None."""
        nodes[0] += 1
        if nodes[0] > limit_nodes:
            raise Limit
        for v in allvars:
            if v not in assign:
                for val in pref:
                    a2 = dict(assign)
                    if assign_and_propagate(a2, [v if val else -v]):
                        full = satisfiable(a2, pref)
                        if full is not None:
                            return full
                return None
        return assign

    out = set()

    def rec(assign, k):
        nodes[0] += 1
        if nodes[0] > limit_nodes:
            raise Limit
        while k < len(proj) and proj[k] in assign:
            k += 1
        if k == len(proj):
            full = satisfiable(assign)
            if full is not None:
                key = frozenset(v for v in proj if assign[v])
                out.add(key)
                if witnesses is not None:
                    other = satisfiable(assign, (False, True))
                    witnesses[key] = [full] if other is None or other == full else [full, other]
            return
        for val in (True, False):
            a2 = dict(assign)
            if assign_and_propagate(a2, [proj[k] if val else -proj[k]]):
                rec(a2, k + 1)

    try:
        rec(base, 0)
    except Limit:
        return out, False
    return out, True
