"""Exact reference oracles for C17 (cutting stock / covering by columns).

* all_patterns / maximal_patterns: every cutting pattern of a roll.
* min_cover: true minimum number of columns (with repetition) covering a demand vector, by DP
  over demand vectors.
* lp_cover: exact (Fraction) optimum of   min sum x  s.t.  A x >= b,  lo <= x <= hi   by a
  two-phase Bland simplex, with the duals of the demand rows.
* node_lp: the same LP over a *large* column set (all patterns) by exact column generation:
  restricted exact LP + exact pricing scan, so the result is the true LP value of a
  branch-and-price node.
* best_pattern_value: max value of a pattern (unbounded integer knapsack over int sizes).

No code shared with solvOR; ints and Fractions only (float duals enter best_pattern_value only).
"""

from fractions import Fraction as F
from itertools import product

MAX_PATTERNS = 4000
MAX_STATES = 60000


def all_patterns(sizes, width):
    """Every non-zero pattern p with sum p_i*size_i <= width (sizes positive ints)."""
    ranges = [range(0, width // s + 1) for s in sizes]
    count = 1
    for r in ranges:
        count *= len(r)
        if count > 400000:
            return None
    out = [p for p in product(*ranges) if any(p) and sum(a * s for a, s in zip(p, sizes)) <= width]
    return out if len(out) <= MAX_PATTERNS else None


def maximal_patterns(pats):
    ps = set(pats)
    out = []
    for p in pats:
        dominated = False
        for i in range(len(p)):
            q = p[:i] + (p[i] + 1,) + p[i + 1:]
            if q in ps:
                dominated = True
                break
        if not dominated:
            out.append(p)
    return out


def min_cover(columns, demands):
    """Minimum number of columns (repetition allowed) whose sum is >= demands componentwise.
    None if impossible, "guard" above the size guard."""
    m = len(demands)
    cols = [tuple(c) for c in columns if any(c[i] > 0 and demands[i] > 0 for i in range(m))]
    states = 1
    for d in demands:
        states *= d + 1
    if states > MAX_STATES:
        return "guard"
    for i, d in enumerate(demands):
        if d > 0 and not any(c[i] > 0 for c in cols):
            return None
    # clip columns at the demand (a column never helps beyond the demand) and drop dominated ones
    clipped = {tuple(min(c[i], demands[i]) for i in range(m)) for c in cols}
    clipped = [c for c in clipped if not any(o != c and all(o[i] >= c[i] for i in range(m)) for o in clipped)]
    memo = {tuple([0] * m): 0}

    import sys

    sys.setrecursionlimit(max(sys.getrecursionlimit(), 10000))

    def rec(d):
        r = memo.get(d)
        if r is not None:
            return r
        best = None
        for c in clipped:
            if not any(c[i] > 0 and d[i] > 0 for i in range(m)):
                continue
            nd = tuple(x - a if x > a else 0 for x, a in zip(d, c))
            v = 1 + rec(nd)
            if best is None or v < best:
                best = v
        memo[d] = best
        return best

    return rec(tuple(demands))


# ------------------------------------------------------------------ exact LP

def _simplex(tab, basis, ncols_enter, nrows):
    """Bland simplex on a Fraction tableau (last row = reduced costs, last column = rhs). Minimises."""
    while True:
        enter = -1
        z = tab[-1]
        for j in range(ncols_enter):
            if z[j] < 0:
                enter = j
                break
        if enter < 0:
            return "optimal"
        leave = -1
        best = None
        for i in range(nrows):
            a = tab[i][enter]
            if a > 0:
                r = tab[i][-1] / a
                if best is None or r < best or (r == best and basis[i] < basis[leave]):
                    best = r
                    leave = i
        if leave < 0:
            return "unbounded"
        piv = tab[leave][enter]
        row = [x / piv for x in tab[leave]]
        tab[leave] = row
        for i in range(nrows + 1):
            if i != leave:
                f = tab[i][enter]
                if f != 0:
                    ri = tab[i]
                    tab[i] = [x - f * y for x, y in zip(ri, row)]
        basis[leave] = enter


def lp_cover(columns, demands, bounds=None):
    """min sum x  s.t.  sum_j columns[j][i]*x_j >= demands[i],  lo_j <= x_j <= hi_j (bounds: {j: (lo, hi)},
    hi may be float('inf')), x >= 0.  Returns (status, obj, x, y): status 'optimal' | 'infeasible';
    y = duals of the demand rows (y >= 0, and for every column without an active bound 1 - y.a_j >= 0)."""
    bounds = bounds or {}
    n = len(columns)
    m = len(demands)
    rows = []  # (coeffs over x, sense, rhs)   sense: +1 '>=', -1 '<='
    for i in range(m):
        rows.append(([F(c[i]) for c in columns], 1, F(demands[i])))
    for j, (lo, hi) in sorted(bounds.items()):
        if lo is not None and lo > 0:
            e = [F(0)] * n
            e[j] = F(1)
            rows.append((e, 1, F(lo)))
        if hi is not None and hi != float("inf"):
            e = [F(0)] * n
            e[j] = F(1)
            rows.append((e, -1, F(hi)))
    R = len(rows)
    if any(s == -1 and rhs < 0 for _, s, rhs in rows):
        return "infeasible", None, None, None
    # columns: x (n) | slack/surplus (R) | artificial (R) | rhs
    width = n + 2 * R + 1
    tab = []
    basis = []
    for r, (coef, sense, rhs) in enumerate(rows):
        line = list(coef) + [F(0)] * (2 * R) + [rhs]
        line[n + r] = F(-1) if sense == 1 else F(1)
        line[n + R + r] = F(1)
        tab.append(line)
        basis.append(n + R + r)
    # phase 1
    z = [F(0)] * width
    for r in range(R):
        for j in range(width):
            if not (n + R <= j < n + 2 * R):
                z[j] -= tab[r][j]
    tab.append(z)
    _simplex(tab, basis, n + R, R)
    if tab[-1][-1] != 0:
        return "infeasible", None, None, None
    # drive artificials out where possible
    for i in range(R):
        if basis[i] >= n + R:
            for j in range(n + R):
                if tab[i][j] != 0 and j not in basis:
                    piv = tab[i][j]
                    row = [x / piv for x in tab[i]]
                    tab[i] = row
                    for k in range(R + 1):
                        if k != i and tab[k][j] != 0:
                            f = tab[k][j]
                            tab[k] = [x - f * y for x, y in zip(tab[k], row)]
                    basis[i] = j
                    break
    # phase 2: costs 1 on x
    cost = [F(1)] * n + [F(0)] * (2 * R)
    z = cost + [F(0)]
    for i, b in enumerate(basis):
        cb = cost[b]
        if cb != 0:
            z = [a - cb * t for a, t in zip(z, tab[i])]
    tab[-1] = z
    st = _simplex(tab, basis, n + R, R)
    if st != "optimal":  # cannot happen: objective bounded below by 0
        return "infeasible", None, None, None
    x = [F(0)] * n
    for i, b in enumerate(basis):
        if b < n:
            x[b] = tab[i][-1]
    obj = -tab[-1][-1]
    # dual of row r = -(reduced cost of its artificial column)
    y_all = [-tab[-1][n + R + r] for r in range(R)]
    return "optimal", obj, x, y_all[:m]


def lp_feasible_under_bounds(columns, demands, bounds):
    """Exact feasibility of {A x >= b, lo <= x <= hi, x >= 0} for non-negative columns: put every x at its
    upper bound."""
    for j, (lo, hi) in bounds.items():
        if hi < lo:
            return False
    for i, d in enumerate(demands):
        if d <= 0:
            continue
        tot = F(0)
        ok = False
        for j, c in enumerate(columns):
            if c[i] <= 0:
                continue
            hi = bounds.get(j, (0, float("inf")))[1]
            if hi == float("inf"):
                ok = True
                break
            tot += F(c[i]) * F(hi)
        if not ok and tot < d:
            return False
    return True


def node_lp(universe, demands, bounded):
    """Exact LP value of  min sum x  over *all* columns of `universe` (list of tuples), where the columns in
    `bounded` ({column tuple: (lo, hi)}) carry branching bounds.  Exact column generation.
    Returns ('optimal', value) | ('infeasible', None)."""
    m = len(demands)
    cols = []
    bnds = {}
    seen = set()
    for c, (lo, hi) in bounded.items():
        c = tuple(c)
        if c in seen:
            continue
        seen.add(c)
        bnds[len(cols)] = (lo, hi)
        cols.append(c)
    for i in range(m):
        if demands[i] <= 0:
            continue
        best = None
        for c in universe:
            if c[i] > 0 and tuple(c) not in bounded:
                if best is None or c[i] > best[i]:
                    best = tuple(c)
        if best is not None and best not in seen:
            seen.add(best)
            cols.append(best)
    if not cols:
        return ("optimal", F(0)) if not any(demands) else ("infeasible", None)
    for _ in range(10000):
        st, obj, x, y = lp_cover(cols, demands, bnds)
        if st != "optimal":
            return "infeasible", None
        worst = None
        wcol = None
        for c in universe:
            c = tuple(c)
            if c in seen:
                continue
            rc = 1 - sum(yi * ci for yi, ci in zip(y, c))
            if rc < 0 and (worst is None or rc < worst):
                worst, wcol = rc, c
        if wcol is None:
            return "optimal", obj
        seen.add(wcol)
        cols.append(wcol)
    return "optimal", obj


def best_pattern_value(sizes, width, values):
    """max sum values_i*p_i over patterns (sizes, width positive ints; values floats, non-positive ones unused)."""
    best = [0.0] * (width + 1)
    for w in range(1, width + 1):
        b = best[w - 1]
        for s, v in zip(sizes, values):
            if s <= w and v > 0:
                cand = best[w - s] + v
                if cand > b:
                    b = cand
        best[w] = b
    return best[width]
