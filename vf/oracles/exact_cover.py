"""Reference oracles for exact cover with secondary columns (C07).  No code shared with solvOR.

Definitions (from the property statement):
  * a column is *secondary* iff its name is in the `secondary` collection, else *primary*;
    the name of column j is columns[j] if `columns` is given, else j
  * a row is *usable* iff it has a non-zero entry in at least one primary column
  * an exact cover is a set S of usable rows such that every primary column has exactly one
    row of S with a non-zero entry and every secondary column at most one.

`brute_covers`  : the definition, literally, over all subsets of usable rows (size guard 2**BRUTE_MAX_ROWS)
`search_covers` : bitmask backtracking (lowest uncovered primary column first); complete enumeration
                  with a node guard; cross-checked against brute_covers on every small instance
`is_cover`      : the certificate check for one selection (used for every returned selection)
"""

from itertools import combinations

BRUTE_MAX_ROWS = 11
SEARCH_MAX_NODES = 400_000


def column_roles(n_cols, columns, secondary):
    """indices of primary / secondary columns."""
    names = list(columns) if columns else list(range(n_cols))
    sec_names = list(secondary) if secondary else []
    prim, sec = [], []
    for j in range(n_cols):
        (sec if any(names[j] == s for s in sec_names) else prim).append(j)
    return prim, sec


def usable_rows(matrix, prim):
    return [i for i, row in enumerate(matrix) if any(row[j] for j in prim)]


def is_cover(matrix, prim, sec, selection):
    """None if `selection` (iterable of row indices) is an exact cover, else a reason string."""
    sel = list(selection)
    n = len(matrix)
    for i in sel:
        if not isinstance(i, int) or isinstance(i, bool) or not (0 <= i < n):
            return f"row index {i!r} out of range"
    if len(set(sel)) != len(sel):
        return "row selected twice"
    for i in sel:
        if not any(matrix[i][j] for j in prim):
            return f"row {i} covers no primary column"
    for j in prim:
        c = sum(1 for i in sel if matrix[i][j])
        if c != 1:
            return f"primary column #{j} covered {c} times"
    for j in sec:
        c = sum(1 for i in sel if matrix[i][j])
        if c > 1:
            return f"secondary column #{j} covered {c} times"
    return None


def brute_covers(matrix, prim, sec):
    """Set of frozensets, or None above the size guard."""
    use = usable_rows(matrix, prim)
    if len(use) > BRUTE_MAX_ROWS:
        return None
    out = set()
    for k in range(len(use) + 1):
        if k > len(prim):
            break  # each usable row covers >= 1 primary column, each primary column exactly once
        for S in combinations(use, k):
            ok = True
            for j in prim:
                if sum(1 for i in S if matrix[i][j]) != 1:
                    ok = False
                    break
            if ok:
                for j in sec:
                    if sum(1 for i in S if matrix[i][j]) > 1:
                        ok = False
                        break
            if ok:
                out.add(frozenset(S))
    return out


def search_covers(matrix, prim, sec, max_nodes=SEARCH_MAX_NODES):
    """Complete enumeration by backtracking on bitmasks; None if the node guard is hit."""
    n_cols = len(matrix[0]) if matrix else 0
    pmask = 0
    for j in prim:
        pmask |= 1 << j
    masks = []
    for row in matrix:
        m = 0
        for j in range(n_cols):
            if row[j]:
                m |= 1 << j
        masks.append(m)
    use = [i for i, m in enumerate(masks) if m & pmask]
    by_col = {j: [i for i in use if masks[i] >> j & 1] for j in prim}
    out = []
    nodes = [0]
    chosen = []

    def rec(covered):
        nodes[0] += 1
        if nodes[0] > max_nodes:
            raise OverflowError
        rest = pmask & ~covered
        if not rest:
            out.append(frozenset(chosen))
            return
        j = (rest & -rest).bit_length() - 1
        for i in by_col[j]:
            if masks[i] & covered:
                continue
            chosen.append(i)
            rec(covered | masks[i])
            chosen.pop()

    try:
        rec(0)
    except OverflowError:
        return None
    s = set(out)
    assert len(s) == len(out)
    return s


def all_covers(matrix, columns, secondary):
    """(truth set | None, prim, sec, info) -- info: 'brute', 'search', 'both' or 'guard'."""
    n_cols = len(matrix[0])
    prim, sec = column_roles(n_cols, columns, secondary)
    b = brute_covers(matrix, prim, sec)
    s = search_covers(matrix, prim, sec)
    if b is not None and s is not None:
        if b != s:
            raise AssertionError(f"exact-cover oracles disagree: brute={sorted(map(sorted, b))} search={sorted(map(sorted, s))}")
        return b, prim, sec, "both"
    if b is not None:
        return b, prim, sec, "brute"
    if s is not None:
        return s, prim, sec, "search"
    return None, prim, sec, "guard"
