"""Exact reference oracles for C08 / C09 (max-flow, min-cost flow, assignment).

Nodes are ints 0..n-1, arcs explicit lists (every parallel arc is its own residual pair), all
numbers Python ints.  Nothing here is shared with solvOR: max-flow is Dinic (solvOR: Edmonds-
Karp on a node-pair matrix), min-cost flow is successive shortest paths on the arc list plus a
negative-cycle certificate that re-validates the oracle's own answer.
"""

from collections import deque
from itertools import permutations

MAX_ARCS = 3000          # size guard of the exact oracles
MAX_NODES = 400
ASSIGN_BRUTE_MAX = 6     # brute force up to 6x6, beyond that the flow oracle


class TooBig(Exception):
    pass


class OutOfDomain(Exception):
    """The instance has a negative-cost cycle of positive capacity (generator bug, not a verdict)."""


def guard(n, arcs):
    if n > MAX_NODES or len(arcs) > MAX_ARCS:
        raise TooBig(f"n={n} m={len(arcs)}")


# --------------------------------------------------------------------------- max-flow (Dinic)

def max_flow(n, arcs, s, t):
    """arcs: [(u, v, cap)].  Returns (value, source_side_of_a_min_cut as a set)."""
    guard(n, arcs)
    head, cap, adj = [], [], [[] for _ in range(n)]
    for u, v, c in arcs:
        adj[u].append(len(head)); head.append(v); cap.append(c)
        adj[v].append(len(head)); head.append(u); cap.append(0)
    if s == t:
        raise ValueError("s == t")
    total = 0
    while True:
        level = [-1] * n
        level[s] = 0
        q = deque([s])
        while q:
            x = q.popleft()
            for e in adj[x]:
                if cap[e] > 0 and level[head[e]] < 0:
                    level[head[e]] = level[x] + 1
                    q.append(head[e])
        if level[t] < 0:
            return total, {i for i in range(n) if level[i] >= 0}
        it = [0] * n
        # iterative blocking flow: repeatedly walk one s-t path in the level graph
        while True:
            path = []
            x = s
            while x != t:
                advanced = False
                while it[x] < len(adj[x]):
                    e = adj[x][it[x]]
                    y = head[e]
                    if cap[e] > 0 and level[y] == level[x] + 1:
                        path.append(e)
                        x = y
                        advanced = True
                        break
                    it[x] += 1
                if not advanced:
                    if not path:
                        break
                    e = path.pop()        # dead end: retreat and skip that arc from now on
                    x = head[e ^ 1]
                    it[x] += 1
            if x != t:
                break
            f = min(cap[e] for e in path)
            for e in path:
                cap[e] -= f
                cap[e ^ 1] += f
            total += f


def pooled(arcs):
    """{(u, v): total capacity of all parallel arcs u->v}."""
    out = {}
    for a in arcs:
        out[(a[0], a[1])] = out.get((a[0], a[1]), 0) + a[2]
    return out


def augmenting_path(n, cap_pair, flow_pair, s, t):
    """BFS in the residual network of a *returned* pair flow.  Residual of (u,v) =
    cap(u,v) - f(u,v) + f(v,u).  Returns a path [s, ..., t] or None (certificate of maximality
    when the flow is feasible)."""
    nbr = [set() for _ in range(n)]
    for (u, v) in cap_pair:
        nbr[u].add(v)
        nbr[v].add(u)
    par = {s: None}
    q = deque([s])
    while q:
        x = q.popleft()
        if x == t:
            break
        for y in sorted(nbr[x]):
            if y in par:
                continue
            r = cap_pair.get((x, y), 0) - flow_pair.get((x, y), 0) + flow_pair.get((y, x), 0)
            if r > 0:
                par[y] = x
                q.append(y)
    if t not in par:
        return None
    path = [t]
    while par[path[-1]] is not None:
        path.append(par[path[-1]])
    return path[::-1]


def ek_without_implicit_reverse(n, arcs, s, t, limit=10000):
    """Coverage statistic only (never a verdict): value reached by shortest augmenting paths when a
    reverse residual arc v->u is usable only if the input also contains an arc v->u.  If this is
    smaller than the maximum, the instance *needs* an implicit reverse arc for some path order."""
    capm = {}
    order = [[] for _ in range(n)]
    for u, v, c in arcs:
        if (u, v) not in capm:
            capm[(u, v)] = 0
            order[u].append(v)
        capm[(u, v)] += c
    fl = {}
    total = 0
    for _ in range(limit):
        par = {s: None}
        q = deque([s])
        while q and t not in par:
            x = q.popleft()
            for y in order[x]:
                if y not in par and capm[(x, y)] - fl.get((x, y), 0) + fl.get((y, x), 0) > 0:
                    par[y] = x
                    q.append(y)
        if t not in par:
            return total
        path = [t]
        while par[path[-1]] is not None:
            path.append(par[path[-1]])
        path.reverse()
        f = min(capm[(a, b)] - fl.get((a, b), 0) + fl.get((b, a), 0) for a, b in zip(path, path[1:]))
        for a, b in zip(path, path[1:]):
            back = min(f, fl.get((b, a), 0))
            if back:
                fl[(b, a)] -= back
            fl[(a, b)] = fl.get((a, b), 0) + f - back
        total += f
    return total


# --------------------------------------------------------------------------- min-cost flow

def _bellman_ford(n, tail, head, res, cost, src):
    INF = None
    dist = [INF] * n
    par = [-1] * n
    dist[src] = 0
    m = len(head)
    for rnd in range(n + 1):
        changed = False
        for e in range(m):
            if res[e] <= 0:
                continue
            du = dist[tail[e]]
            if du is None:
                continue
            nd = du + cost[e]
            dv = dist[head[e]]
            if dv is None or nd < dv:
                dist[head[e]] = nd
                par[head[e]] = e
                changed = True
        if not changed:
            return dist, par
    raise OutOfDomain("negative cycle reachable in the residual network")


def min_cost_flow(n, arcs, supplies):
    """arcs: [(u, v, cap, cost)], supplies[i] = required net outflow of node i (sum 0).
    Returns None if no feasible flow exists, else (cost, per_arc_flow list).
    Requires: no negative-cost cycle among positive-capacity arcs (raises OutOfDomain)."""
    guard(n, arcs)
    if sum(supplies) != 0:
        return None
    S, T = n, n + 1
    tail, head, res, cost = [], [], [], []

    def add(u, v, c, w):
        tail.append(u); head.append(v); res.append(c); cost.append(w)
        tail.append(v); head.append(u); res.append(0); cost.append(-w)

    for u, v, c, w in arcs:
        add(u, v, c, w)
    need = 0
    for i, b in enumerate(supplies):
        if b > 0:
            add(S, i, b, 0)
            need += b
        elif b < 0:
            add(i, T, -b, 0)
    # negative cycles anywhere (not only reachable from S) make the instance out of domain
    _check_no_negative_cycle(n + 2, tail, head, res, cost)
    sent = 0
    total = 0
    while sent < need:
        dist, par = _bellman_ford(n + 2, tail, head, res, cost, S)
        if dist[T] is None:
            return None
        path = []
        x = T
        while x != S:
            e = par[x]
            path.append(e)
            x = tail[e]
        f = min(min(res[e] for e in path), need - sent)
        for e in path:
            res[e] -= f
            res[e ^ 1] += f
            total += f * cost[e]
        sent += f
    # self-validation: optimal iff the residual network has no negative cycle
    _check_no_negative_cycle(n + 2, tail, head, res, cost, what="oracle self-check")
    flows = [res[2 * k + 1] for k in range(len(arcs))]
    return total, flows


def _check_no_negative_cycle(n, tail, head, res, cost, what="input"):
    dist = [0] * n  # virtual source to every node
    m = len(head)
    for rnd in range(n + 1):
        changed = False
        for e in range(m):
            if res[e] > 0 and dist[tail[e]] + cost[e] < dist[head[e]]:
                dist[head[e]] = dist[tail[e]] + cost[e]
                changed = True
        if not changed:
            return
    raise OutOfDomain(f"negative cycle ({what})")


def pair_cost_range(arcs, flow_pair):
    """Cheapest and dearest way to distribute a pair flow over the parallel arcs of each pair.
    (lo, hi); for instances without parallel arcs lo == hi == sum cost*flow."""
    by_pair = {}
    for u, v, c, w in arcs:
        by_pair.setdefault((u, v), []).append((w, c))
    lo = hi = 0
    for key, f in flow_pair.items():
        lst = sorted(by_pair.get(key, []))
        rem = f
        for w, c in lst:
            x = min(rem, c)
            lo += x * w
            rem -= x
        rem = f
        for w, c in reversed(lst):
            x = min(rem, c)
            hi += x * w
            rem -= x
    return lo, hi


def balance(n, flow_pair):
    """net outflow per node of a pair flow."""
    net = [0] * n
    for (u, v), f in flow_pair.items():
        net[u] += f
        net[v] -= f
    return net


# --------------------------------------------------------------------------- assignment

def assignment_optimum(matrix):
    """Minimum total cost of a matching of size min(r, c) in an r x c integer matrix."""
    r = len(matrix)
    c = len(matrix[0]) if r else 0
    k = min(r, c)
    if k == 0:
        return 0
    if max(r, c) <= ASSIGN_BRUTE_MAX:
        best = None
        if r <= c:
            for cols in permutations(range(c), r):
                v = sum(matrix[i][cols[i]] for i in range(r))
                if best is None or v < best:
                    best = v
        else:
            for rows in permutations(range(r), c):
                v = sum(matrix[rows[j]][j] for j in range(c))
                if best is None or v < best:
                    best = v
        return best
    # flow formulation (exact ints), rows 0..r-1, cols r..r+c-1, s, t
    s, t = r + c, r + c + 1
    arcs = [(s, i, 1, 0) for i in range(r)] + [(r + j, t, 1, 0) for j in range(c)]
    arcs += [(i, r + j, 1, matrix[i][j]) for i in range(r) for j in range(c)]
    sup = [0] * (r + c + 2)
    sup[s], sup[t] = k, -k
    res = min_cost_flow(r + c + 2, arcs, sup)
    return res[0]
