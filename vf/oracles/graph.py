"""Reference oracles for path and spanning-tree problems (C11, C13; reusable by C12).

Independent of solvOR.  Nodes are integers 0..n-1 (callers map labels), weights are ints,
`Fraction`s or floats holding dyadic rationals (converted exactly with `Fraction(w)`).
`None` stands for "unreachable / infinite".  Everything is O(n^3) or O(n*m) and guarded by
`MAX_EXACT_N`; callers above the guard use the certificate functions only.
"""

from fractions import Fraction
from math import sqrt

MAX_EXACT_N = 64


class OracleError(Exception):
    """The oracle's two independent computations disagree (never expected)."""


def exact(w):
    """Exact rational value of an int / float / Fraction weight."""
    if isinstance(w, int):
        return w
    f = Fraction(w)
    return int(f) if f.denominator == 1 else f


# ----------------------------------------------------------------------------- reachability

def adjacency(n, arcs):
    adj = [[] for _ in range(n)]
    for a in arcs:
        adj[a[0]].append(a[1])
    return adj


def reachable_from(n, arcs, s):
    """Set of nodes reachable from s (s included)."""
    adj = adjacency(n, arcs)
    seen = {s}
    todo = [s]
    while todo:
        u = todo.pop()
        for v in adj[u]:
            if v not in seen:
                seen.add(v)
                todo.append(v)
    return seen


def hop_distances(n, arcs, s):
    """Unweighted (edge count) distances from s; None when unreachable."""
    adj = adjacency(n, arcs)
    d = [None] * n
    d[s] = 0
    layer = [s]
    while layer:
        nxt = []
        for u in layer:
            for v in adj[u]:
                if d[v] is None:
                    d[v] = d[u] + 1
                    nxt.append(v)
        layer = nxt
    return d


# ----------------------------------------------------------------------------- shortest paths

def bellman_ford_ref(n, arcs, sources):
    """Exact label-correcting pass from a set of sources (all at distance 0).

    Returns (dist, negative_cycle_reachable).  n rounds over all arcs: if the n-th round still
    improves a label, a negative closed walk is reachable from a source.
    """
    arcs = [(u, v, exact(w)) for u, v, w in arcs]
    d = [None] * n
    for s in sources:
        d[s] = 0
    for rnd in range(n):
        changed = False
        for u, v, w in arcs:
            if d[u] is not None and (d[v] is None or d[u] + w < d[v]):
                d[v] = d[u] + w
                changed = True
        if not changed:
            return d, False
    return d, True


def has_negative_cycle(n, arcs, source=None):
    """A negative-weight closed walk exists (source=None) / is reachable from `source`."""
    src = range(n) if source is None else [source]
    return bellman_ford_ref(n, arcs, src)[1]


def floyd_ref(n, arcs):
    """All-pairs distances by the textbook recurrence on exact numbers.

    Returns (matrix, negative_cycle_present); the matrix is meaningful only without a negative
    cycle.  d[i][i] = 0 unless a negative closed walk through i exists.
    """
    if n > MAX_EXACT_N:
        raise ValueError("floyd_ref: size guard")
    d = [[None] * n for _ in range(n)]
    for i in range(n):
        d[i][i] = 0
    for u, v, w in arcs:
        w = exact(w)
        if d[u][v] is None or w < d[u][v]:
            d[u][v] = w
    for k in range(n):
        dk = d[k]
        for i in range(n):
            dik = d[i][k]
            if dik is None:
                continue
            di = d[i]
            for j in range(n):
                dkj = dk[j]
                if dkj is None:
                    continue
                c = dik + dkj
                if di[j] is None or c < di[j]:
                    di[j] = c
    neg = any(d[i][i] < 0 for i in range(n))
    return d, neg


def apsp(n, arcs, cross_check=True):
    """(matrix, negative_cycle_present, neg_reach) with the matrix cross-checked against n
    single-source label-correcting runs.  neg_reach[s] = a negative cycle is reachable from s."""
    d, neg = floyd_ref(n, arcs)
    neg_reach = [False] * n
    if cross_check:
        anyneg = False
        for s in range(n):
            ds, ns = bellman_ford_ref(n, arcs, [s])
            neg_reach[s] = ns
            anyneg = anyneg or ns
            if not ns and not neg and ds != d[s]:
                raise OracleError(f"apsp: row {s} differs: {ds} vs {d[s]}")
        if anyneg != neg:
            raise OracleError(f"apsp: negative-cycle verdicts differ ({anyneg} vs {neg})")
    return d, neg, neg_reach


def symmetrise(arcs):
    return list(arcs) + [(a[1], a[0]) + tuple(a[2:]) for a in arcs]


def dist_to_set(n, arcs, goals):
    """Exact distance from every node to the nearest goal (None if none reachable); needs
    non-negative weights or at least no negative cycle."""
    rev = [(v, u, w) for u, v, w in arcs]
    d, neg = bellman_ford_ref(n, rev, list(goals))
    if neg:
        raise ValueError("dist_to_set: negative cycle")
    return d


# ----------------------------------------------------------------------------- path certificates

def weight_index(arcs):
    idx = {}
    for u, v, w in arcs:
        idx.setdefault((u, v), set()).add(exact(w))
    return idx


def path_problem(path, source, goals, widx, objective=None, tol=0):
    """None if `path` is a genuine source->goal walk over existing arcs whose weights (some
    choice among parallel arcs) sum to `objective` (exactly, or within relative `tol`); otherwise a
    short description.  objective=None checks only the walk.  `widx` comes from weight_index().
    """
    if not isinstance(path, (list, tuple)) or len(path) == 0:
        return f"not a non-empty sequence: {path!r}"
    if path[0] != source:
        return f"starts at {path[0]!r}, not at the source {source!r}"
    if path[-1] not in goals:
        return f"ends at {path[-1]!r}, not at a goal {sorted(goals)!r}"
    sums = {0}
    for a, b in zip(path, path[1:]):
        ws = widx.get((a, b))
        if not ws:
            return f"uses the non-edge {a!r}->{b!r}"
        sums = {s + w for s in sums for w in ws}
    if objective is None:
        return None
    try:
        obj = exact(objective)
    except (ValueError, OverflowError, TypeError):
        return f"objective {objective!r} is not a finite number"
    if tol:
        if not any(abs(float(s) - float(obj)) <= tol * (1 + abs(float(s))) for s in sums):
            return f"weights along the path sum to {sorted(map(float, sums))[:4]}, reported {objective!r}"
    elif obj not in sums:
        return f"weights along the path sum to {sorted(sums)[:4]}, reported {objective!r}"
    return None


# ----------------------------------------------------------------------------- grids (a + b*sqrt2 costs)

_DIR4 = ((-1, 0), (1, 0), (0, -1), (0, 1))
_DIR8 = _DIR4 + ((-1, -1), (-1, 1), (1, -1), (1, 1))


def _r2_less(x, y):
    """x < y for numbers a + b*sqrt(2) given as exact pairs (a, b)."""
    a = x[0] - y[0]
    b = x[1] - y[1]
    if a <= 0 and b <= 0:
        return a < 0 or b < 0
    if a >= 0 and b >= 0:
        return False
    # opposite signs: compare a^2 with 2 b^2
    if a < 0:  # b > 0: negative iff |a| > b*sqrt2
        return a * a > 2 * b * b
    return a * a < 2 * b * b  # a > 0, b < 0: negative iff a < |b|*sqrt2


def r2_float(x):
    return float(x[0]) + float(x[1]) * sqrt(2)


def grid_cells(grid, blocked):
    return {(r, c) for r, row in enumerate(grid) for c, v in enumerate(row) if v not in blocked}


def grid_step_cost(grid, costs, a, b, directions):
    """Exact cost pair of the step a->b, or None if it is not a legal step (entering cost of b,
    times sqrt2 for a diagonal)."""
    dr, dc = b[0] - a[0], b[1] - a[1]
    if (dr, dc) not in (_DIR8 if directions == 8 else _DIR4):
        return None
    base = exact(costs.get(grid[b[0]][b[1]], 1))
    return (0, base) if dr != 0 and dc != 0 else (base, 0)


def grid_distances(grid, start, directions, blocked, costs):
    """Exact shortest distances (pairs) from start to every free cell: label correcting to a
    fixed point with exact comparison (no floats)."""
    rows = len(grid)
    cols = len(grid[0]) if rows else 0
    if rows * cols > 400:
        raise ValueError("grid_distances: size guard")
    free = grid_cells(grid, blocked)
    dirs = _DIR8 if directions == 8 else _DIR4
    d = {start: (0, 0)}
    frontier = [start]
    while frontier:
        nxt = set()
        for u in frontier:
            du = d[u]
            for dr, dc in dirs:
                v = (u[0] + dr, u[1] + dc)
                if v not in free:
                    continue
                base = exact(costs.get(grid[v[0]][v[1]], 1))
                c = (du[0], du[1] + base) if dr and dc else (du[0] + base, du[1])
                if v not in d or _r2_less(c, d[v]):
                    d[v] = c
                    nxt.add(v)
        frontier = sorted(nxt)
    return d


def grid_path_problem(grid, path, start, goal, directions, blocked, costs, objective, tol=1e-9):
    if not isinstance(path, (list, tuple)) or not path:
        return f"not a non-empty sequence: {path!r}", None
    path = [tuple(p) for p in path]
    if path[0] != tuple(start):
        return f"starts at {path[0]}, not at {start}", None
    if path[-1] != tuple(goal):
        return f"ends at {path[-1]}, not at {goal}", None
    free = grid_cells(grid, blocked)
    tot = (0, 0)
    for a, b in zip(path, path[1:]):
        if b not in free:
            return f"enters the blocked/outside cell {b}", None
        c = grid_step_cost(grid, costs, a, b, directions)
        if c is None:
            return f"illegal step {a}->{b} for {directions} directions", None
        tot = (tot[0] + c[0], tot[1] + c[1])
    val = r2_float(tot)
    if not (abs(val - objective) <= tol * (1 + abs(val))):
        return f"step costs sum to {val!r}, reported {objective!r}", tot
    return None, tot


# ----------------------------------------------------------------------------- spanning trees

class _DSU:
    def __init__(self, n):
        self.p = list(range(n))

    def find(self, x):
        r = x
        while self.p[r] != r:
            r = self.p[r]
        while self.p[x] != r:
            self.p[x], x = r, self.p[x]
        return r

    def union(self, a, b):
        a, b = self.find(a), self.find(b)
        if a == b:
            return False
        self.p[a] = b
        return True


def components(n, edges):
    """Undirected connected components as a list of frozensets."""
    dsu = _DSU(n)
    for e in edges:
        dsu.union(e[0], e[1])
    groups = {}
    for i in range(n):
        groups.setdefault(dsu.find(i), set()).add(i)
    return [frozenset(g) for g in groups.values()]


def kruskal_ref(n, edges):
    """(minimum spanning forest weight, number of forest edges, number of components)."""
    dsu = _DSU(n)
    tot = 0
    cnt = 0
    for u, v, w in sorted(((u, v, exact(w)) for u, v, w in edges), key=lambda e: e[2]):
        if dsu.union(u, v):
            tot += w
            cnt += 1
    return tot, cnt, n - cnt


def forest_problems(n, edges, tree, counts=None):
    """Certificate check of a claimed minimum spanning forest `tree` (list of (u, v, w)) of the
    undirected multigraph `edges` on nodes 0..n-1.  Returns a list of (class, detail); empty =
    it is a minimum spanning forest.  Valid for any size.

    classes: edge-not-in-input, cycle, not-spanning, not-minimum
    `counts` (dict) receives how many clauses were evaluated.
    """
    out = []
    counts = counts if counts is not None else {}

    def tick(k, m=1):
        counts[k] = counts.get(k, 0) + m

    have = {}
    for u, v, w in edges:
        have.setdefault(frozenset((u, v)), set()).add(exact(w))
    tr = []
    for e in tree:
        tick("mst.edge-in-input")
        try:
            u, v, w = e
            ok = exact(w) in have.get(frozenset((u, v)), ())
        except (TypeError, ValueError, OverflowError):
            ok = False
        if not ok:
            out.append(("edge-not-in-input", f"tree edge {e!r} is not an input edge (as undirected pair with that weight)"))
            return out
        tr.append((u, v, exact(w)))
    dsu = _DSU(n)
    adj = [[] for _ in range(n)]
    for u, v, w in tr:
        tick("mst.acyclic")
        if not dsu.union(u, v):
            out.append(("cycle", f"tree edge {(u, v, w)!r} closes a cycle"))
            return out
        adj[u].append((v, w))
        adj[v].append((u, w))
    # spanning: every input edge joins nodes of the same tree
    for u, v, w in edges:
        tick("mst.spanning")
        if dsu.find(u) != dsu.find(v):
            out.append(("not-spanning", f"input edge {(u, v, w)!r} joins two different trees of the result"))
            return out
    # cycle property: heaviest edge on the tree path between the ends of a non-tree edge is not heavier
    def heaviest_on_path(a, b):
        stack = [(a, -1, None)]
        while stack:
            x, par, mx = stack.pop()
            if x == b:
                return mx
            for y, w in adj[x]:
                if y != par:
                    stack.append((y, x, w if mx is None or w > mx else mx))
        return None

    for u, v, w in edges:
        if u == v:
            continue
        tick("mst.cycle-property")
        mx = heaviest_on_path(u, v)
        if mx is not None and exact(w) < mx:
            out.append(("not-minimum", f"input edge {(u, v, w)!r} is lighter than the heaviest edge ({mx}) on the tree path between its ends"))
            return out
    return out
