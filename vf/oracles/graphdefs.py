"""Definitional oracles for C14 / C15.  Nothing here is shared with solvOR.

Directed part (C14): graphs are `nodes` (a list of distinct hashables) plus `adj`
(dict label -> list of successors, duplicates / self loops / labels outside the node set allowed).
Everything is evaluated on the graph *restricted to the node set*: an arc u->w exists iff
u and w are both in `nodes` and w occurs in adj[u].

Undirected part (C15): the simple graph on the node set with {u,w}, u != w, an edge iff
w in adj[u] or u in adj[w] (both in the node set).

All functions are iterative (no recursion), use only ints / Fractions, and are deliberately
naive (definitions, not algorithms): removal + recount for cut vertices / bridges, repeated
deletion for cores, one exact application of the PageRank operator, the modularity sum.
"""

from fractions import Fraction

EXACT_DIRECTED_MAX_N = 80  # pairwise mutual-reachability closure (O(n*(n+m))) above this: certificate only
EXACT_UNDIRECTED_MAX_N = 450  # removal+recount oracles (O(n*(n+m)))


# ------------------------------------------------------------------ directed


def restrict(nodes, adj):
    """Successor lists restricted to the node set (order and duplicates kept)."""
    ns = set(nodes)
    return {v: [w for w in adj.get(v, ()) if w in ns] for v in nodes}


def reach_sets(nodes, radj):
    """v -> set of nodes reachable from v by a path of length >= 0 inside the node set."""
    out = {}
    for s in nodes:
        seen = {s}
        todo = [s]
        while todo:
            u = todo.pop()
            for w in radj[u]:
                if w not in seen:
                    seen.add(w)
                    todo.append(w)
        out[s] = seen
    return out


def mutual_classes(nodes, reach):
    """The classes of 'u reaches v and v reaches u' as a set of frozensets."""
    classes = set()
    done = set()
    for u in nodes:
        if u in done:
            continue
        c = frozenset(v for v in reach[u] if u in reach[v])
        classes.add(c)
        done |= c
    return classes


def on_closed_walk(nodes, radj, reach):
    """(v,) for some node v on a closed walk of length >= 1 (a self loop counts), else None."""
    for v in nodes:
        for w in radj[v]:
            if v in reach[w]:
                return (v,)
    return None


def find_cycle(nodes, radj):
    """A directed cycle as a node list (first == last) or None; iterative colour DFS, linear time."""
    colour = {v: 0 for v in nodes}
    for s in nodes:
        if colour[s]:
            continue
        colour[s] = 1
        path = [s]
        iters = [iter(radj[s])]
        while iters:
            advanced = False
            for w in iters[-1]:
                if colour[w] == 1:
                    i = path.index(w)
                    return path[i:] + [w]
                if colour[w] == 0:
                    colour[w] = 1
                    path.append(w)
                    iters.append(iter(radj[w]))
                    advanced = True
                    break
            if not advanced:
                colour[path.pop()] = 2
                iters.pop()
    return None


def strongly_connected_inside(comp, radj):
    """Is the sub-graph induced by `comp` strongly connected?  (forward and backward search from one member)"""
    comp = set(comp)
    if not comp:
        return False
    root = next(iter(comp))
    for direction in (0, 1):
        if direction == 0:
            nxt = {v: [w for w in radj[v] if w in comp] for v in comp}
        else:
            nxt = {v: [] for v in comp}
            for v in comp:
                for w in radj[v]:
                    if w in comp:
                        nxt[w].append(v)
        seen = {root}
        todo = [root]
        while todo:
            u = todo.pop()
            for w in nxt[u]:
                if w not in seen:
                    seen.add(w)
                    todo.append(w)
        if seen != comp:
            return False
    return True


# ------------------------------------------------------------------ undirected


def undirected(nodes, adj):
    ns = set(nodes)
    und = {v: set() for v in nodes}
    for v in nodes:
        for w in adj.get(v, ()):
            if w in ns and w != v:
                und[v].add(w)
                und[w].add(v)
    return und


_NONE = object()  # labels may be None


def n_components(nodes, und, without_node=_NONE, without_edge=None):
    """Number of connected components after deleting one node and/or one edge (a frozenset pair)."""
    seen = set()
    if without_node is not _NONE:
        seen.add(without_node)
    a = b = None
    if without_edge is not None:
        a, b = tuple(without_edge)
    count = 0
    for s in nodes:
        if s in seen:
            continue
        count += 1
        seen.add(s)
        todo = [s]
        while todo:
            u = todo.pop()
            for w in und[u]:
                if w in seen:
                    continue
                if without_edge is not None and ((u == a and w == b) or (u == b and w == a)):
                    continue
                seen.add(w)
                todo.append(w)
    return count


def cut_vertices(nodes, und):
    base = n_components(nodes, und)
    return {v for v in nodes if n_components(nodes, und, without_node=v) > base}


def cut_edges(nodes, und):
    """Set of frozenset({u, w})."""
    base = n_components(nodes, und)
    out = set()
    for u in nodes:
        for w in und[u]:
            e = frozenset((u, w))
            if e in out:
                continue
            if n_components(nodes, und, without_edge=e) > base:
                out.add(e)
    return out


def core_numbers(nodes, und):
    """core[v] = largest k such that v survives repeated deletion of nodes of degree < k."""
    core = {v: 0 for v in nodes}
    k = 1
    alive = set(nodes)
    while alive:
        # repeated deletion for this k, starting from the survivors of k-1 (the k-cores are nested)
        changed = True
        while changed:
            changed = False
            for v in list(alive):
                if sum(1 for w in und[v] if w in alive) < k:
                    alive.discard(v)
                    changed = True
        for v in alive:
            core[v] = k
        k += 1
    return core


def core_numbers_from_scratch(nodes, und):
    """Same definition without the nesting shortcut (every k starts from the full node set); O(maxdeg) slower."""
    core = {v: 0 for v in nodes}
    maxdeg = max((len(s) for s in und.values()), default=0)
    for k in range(1, maxdeg + 1):
        alive = set(nodes)
        changed = True
        while changed:
            changed = False
            for v in list(alive):
                if sum(1 for w in und[v] if w in alive) < k:
                    alive.discard(v)
                    changed = True
        for v in alive:
            core[v] = k
    return core


# ------------------------------------------------------------------ PageRank


def pagerank_residual(nodes, radj, scores, damping):
    """max_v | T(s)_v - s_v | as a Fraction, T = damped PageRank operator on the directed multigraph
    restricted to the node set, dangling mass redistributed uniformly."""
    n = len(nodes)
    d = Fraction(damping)
    s = {v: Fraction(scores[v]) for v in nodes}
    out = {v: len(radj[v]) for v in nodes}
    dangling = sum((s[v] for v in nodes if out[v] == 0), Fraction(0))
    inflow = {v: Fraction(0) for v in nodes}
    for u in nodes:
        if out[u]:
            share = s[u] / out[u]
            for w in radj[u]:
                inflow[w] += share
    worst = Fraction(0)
    for v in nodes:
        t = (1 - d) / n + d * inflow[v] + d * dangling / n
        worst = max(worst, abs(t - s[v]))
    return worst


def pagerank_exact(nodes, radj, damping):
    """The exact stationary vector (Fractions) by Gaussian elimination; n <= ~12."""
    n = len(nodes)
    d = Fraction(damping)
    idx = {v: i for i, v in enumerate(nodes)}
    # s = (1-d)/n + d * M s  with  M[w][u] = mult(u->w)/out(u)  or 1/n for dangling u
    a = [[Fraction(0)] * (n + 1) for _ in range(n)]
    for u in nodes:
        j = idx[u]
        if radj[u]:
            for w in radj[u]:
                a[idx[w]][j] -= d / len(radj[u])
        else:
            for i in range(n):
                a[i][j] -= d / n
    for i in range(n):
        a[i][i] += 1
        a[i][n] = (1 - d) / n
    for c in range(n):
        p = next(r for r in range(c, n) if a[r][c] != 0)
        a[c], a[p] = a[p], a[c]
        inv = 1 / a[c][c]
        a[c] = [x * inv for x in a[c]]
        for r in range(n):
            if r != c and a[r][c] != 0:
                f = a[r][c]
                a[r] = [x - f * y for x, y in zip(a[r], a[c])]
    return {v: a[idx[v]][n] for v in nodes}


# ------------------------------------------------------------------ modularity


def modularity(nodes, und, communities, resolution):
    """Q = sum_c [ L_c/m - gamma*(D_c/2m)^2 ] exactly; None when the graph has no edge."""
    m = sum(len(s) for s in und.values())  # = 2m
    if m == 0:
        return None
    two_m = Fraction(m)
    g = Fraction(resolution)
    q = Fraction(0)
    for c in communities:
        c = set(c)
        inside2 = sum(1 for u in c for w in und[u] if w in c)  # every inner edge twice
        dc = sum(len(und[u]) for u in c)
        q += Fraction(inside2) / two_m - g * (Fraction(dc) / two_m) ** 2
    return q
