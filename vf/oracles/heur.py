"""C19 oracle pieces: hostile-but-deterministic objectives, a recording proxy, seeded callbacks, relations.

Nothing here imports solvor.  Objectives are pure functions built from a plain-data spec so that the
harness can (a) hand a recorded proxy of them to the solver, (b) re-evaluate them itself on whatever the
solver returns, and (c) build the exact negation for the mirror run.
"""

import copy
from math import cos, floor, pi, sin
from random import Random

# ------------------------------------------------------------------------------------ objectives


def _g_rugged(x, c):
    t = 0.0
    for xi, ci in zip(x, c):
        t += (xi - ci) ** 2
    return floor(t * 3) / 3 + (5 if int(abs(x[0]) * 7) % 3 == 0 else 0) - 2 * cos(3 * x[0])


def _g_plateau(x, c):  # integer valued, wide plateaus, many ties
    return floor(sum(abs(xi - ci) for xi, ci in zip(x, c)))


def _g_steps(x, c):  # integer valued, discontinuous at every integer
    return sum(floor(xi - ci) ** 2 for xi, ci in zip(x, c))


def _g_rastrigin(x, c):
    return sum((xi - ci) ** 2 - 3 * cos(2 * pi * (xi - ci)) for xi, ci in zip(x, c))


def _g_sphere(x, c):
    return sum((xi - ci) ** 2 for xi, ci in zip(x, c))


def _g_linear(x, c):  # optimum on the boundary / at infinity: makes clipping matter
    return sum(ci * xi for xi, ci in zip(x, c))


def _g_disc(x, c):  # one big discontinuity across x0 = c0
    if x[0] > c[0]:
        return sum(xi * xi for xi in x) - 4
    return sum(abs(xi) for xi in x)


def _g_const(x, c):
    return 0


def _g_halfgrid(x, c):  # value depends on the half-integer cell only (exact ties between neighbours)
    return sum(abs(floor(2 * (xi - ci))) for xi, ci in zip(x, c)) / 2


_VEC = {
    "rugged": _g_rugged,
    "plateau": _g_plateau,
    "steps": _g_steps,
    "rastrigin": _g_rastrigin,
    "sphere": _g_sphere,
    "linear": _g_linear,
    "disc": _g_disc,
    "const": _g_const,
    "halfgrid": _g_halfgrid,
}
VEC_FAMILIES = sorted(_VEC)


def _tour_len(p, m):
    n = len(p)
    return sum(m[p[i]][p[(i + 1) % n]] for i in range(n))


def _g_tour(p, m):
    return _tour_len(p, m)


def _g_tour3(p, m):  # coarse: many ties
    return _tour_len(p, m) // 3


def _g_poswt(p, m):  # position-weighted first row
    return sum((i + 1) * m[0][v] for i, v in enumerate(p))


_PERM = {"tour": _g_tour, "tour3": _g_tour3, "poswt": _g_poswt}
PERM_FAMILIES = sorted(_PERM)


def make_objective(spec, negate=False):
    """spec = {'fam', 'a', 'b', 'c'}: value = a*g(x; c) + b   (negate -> exact negation of that value)."""
    fam = spec["fam"]
    g = _VEC.get(fam) or _PERM[fam]
    a, b, c = spec["a"], spec["b"], spec["c"]
    if spec.get("scalar"):
        g0 = g

        def g(x, c):  # noqa: F811 - the solution is a bare number
            return g0([x], c)
    if negate:
        def f(x):
            return -(a * g(x, c) + b)
    else:
        def f(x):
            return a * g(x, c) + b
    return f


# smooth objectives with analytic gradients (bfgs / lbfgs); value in the "natural" (to be minimised) sense


def smooth(spec, negate=False):
    fam, c, w = spec["fam"], spec["c"], spec["w"]
    s = -1.0 if negate else 1.0
    if fam == "ellipse":
        def f(x):
            return s * sum(wi * (xi - ci) ** 2 for xi, ci, wi in zip(x, c, w))

        def g(x):
            return [s * 2 * wi * (xi - ci) for xi, ci, wi in zip(x, c, w)]
    elif fam == "quadcos":
        def f(x):
            return s * sum(wi * (xi - ci) ** 2 + 2 * cos(2 * xi) for xi, ci, wi in zip(x, c, w))

        def g(x):
            return [s * (2 * wi * (xi - ci) - 4 * sin(2 * xi)) for xi, ci, wi in zip(x, c, w)]
    elif fam == "rosen":  # needs len(x) >= 2
        def f(x):
            return s * sum((1 - x[i]) ** 2 + 5 * (x[i + 1] - x[i] ** 2) ** 2 for i in range(len(x) - 1))

        def g(x):
            n = len(x)
            out = [0.0] * n
            for i in range(n - 1):
                out[i] += -2 * (1 - x[i]) - 20 * x[i] * (x[i + 1] - x[i] ** 2)
                out[i + 1] += 10 * (x[i + 1] - x[i] ** 2)
            return [s * v for v in out]
    else:
        raise ValueError(fam)
    return f, g


# ------------------------------------------------------------------------------------ recorder


def _snap(x):
    if type(x) is list:
        for v in x:
            if type(v) is not float and type(v) is not int:
                return copy.deepcopy(x)
        return x[:]
    return copy.deepcopy(x)


class Recorder:
    """Proxy handed to the solver instead of the user's objective: every argument (deep copy) with its value."""

    def __init__(self, f):
        self.f = f
        self.calls = []

    def __call__(self, x):
        v = self.f(x)
        self.calls.append((_snap(x), v))
        return v


class ProgressStop:
    """on_progress callback that asks to stop (returns True) from a chosen iteration on."""

    def __init__(self, at, quiet_value=None):
        self.at = at
        self.quiet = quiet_value
        self.fired = 0
        self.seen = 0

    def __call__(self, progress):
        self.seen += 1
        if progress.iteration >= self.at:
            self.fired += 1
            return True
        return self.quiet


# ------------------------------------------------------------------------------------ callbacks
# Every factory returns fresh closures owning a fresh Random(seed): a re-run is identical.


def vec_neighbor(seed, step, grid):
    r = Random(seed)

    def nb(x):
        if grid:
            y = list(x)
            i = r.randrange(len(y))
            y[i] += r.choice((-1, 1)) * step
            return y
        return [xi + r.uniform(-step, step) for xi in x]

    return nb


def perm_neighbor(seed):
    r = Random(seed)

    def nb(p):
        q = list(p)
        i, j = r.sample(range(len(q)), 2)
        q[i], q[j] = q[j], q[i]
        return q

    return nb


def vec_tabu_neighbors(step, empty_after=None):
    state = {"n": 0}

    def nbs(x):
        state["n"] += 1
        if empty_after is not None and state["n"] > empty_after:
            return []
        out = []
        for i in range(len(x)):
            for s in (-1, 1):
                y = list(x)
                y[i] += s * step
                out.append(((i, s), y))
        return out

    return nbs


def perm_tabu_neighbors(as_iter=False):
    def nbs(p):
        out = []
        n = len(p)
        for i in range(n):
            for j in range(i + 1, n):
                q = list(p)
                q[i], q[j] = q[j], q[i]
                out.append(((i, j), q))
        return iter(out) if as_iter else out

    return nbs


def vec_destroy(k):
    def destroy(x, rng):
        y = list(x)
        for _ in range(k):
            y[rng.randrange(len(y))] = None
        return y

    return destroy


def vec_repair(lo, hi, grid):
    def repair(x, rng):
        out = []
        for xi in x:
            if xi is None:
                v = rng.uniform(lo, hi)
                if grid:
                    v = round(v * 2) / 2
                out.append(v)
            else:
                out.append(xi)
        return out

    return repair


def vec_repair_nudge(step):
    def repair(x, rng):
        known = [xi for xi in x if xi is not None] or [0.0]
        return [rng.choice(known) + rng.choice((-step, 0.0, step)) if xi is None else xi for xi in x]

    return repair


def perm_destroy(k):
    def destroy(p, rng):
        idx = set(rng.sample(range(len(p)), min(k, len(p) - 1)))
        return ([v for i, v in enumerate(p) if i not in idx], [v for i, v in enumerate(p) if i in idx])

    return destroy


def perm_repair_random():
    def repair(partial, rng):
        kept, removed = list(partial[0]), list(partial[1])
        rng.shuffle(removed)
        for v in removed:
            kept.insert(rng.randrange(len(kept) + 1), v)
        return kept

    return repair


def perm_repair_greedy(matrix):
    def repair(partial, rng):
        kept, removed = list(partial[0]), list(partial[1])
        for v in removed:
            best, bi = None, 0
            for pos in range(len(kept) + 1):
                cand = kept[:pos] + [v] + kept[pos:]
                val = _tour_len(cand, matrix)
                if best is None or val < best:
                    best, bi = val, pos
            kept.insert(bi, v)
        return kept

    return repair


def vec_crossover_mutate(seed, step):
    r = Random(seed)

    def cross(a, b):
        return [ai if r.random() < 0.5 else bi for ai, bi in zip(a, b)]

    def mutate(a):
        return [ai + r.uniform(-step, step) for ai in a]

    return cross, mutate


def perm_crossover_mutate(seed):
    r = Random(seed)

    def cross(a, b):
        n = len(a)
        i, j = sorted(r.sample(range(n + 1), 2))
        mid = a[i:j]
        rest = [v for v in b if v not in mid]
        return rest[:i] + mid + rest[i:]

    def mutate(a):
        q = list(a)
        i, j = r.sample(range(len(q)), 2)
        q[i], q[j] = q[j], q[i]
        return q

    return cross, mutate


# ------------------------------------------------------------------------------------ relations


def fields(res):
    return (res.solution, res.objective, res.iterations, res.evaluations, getattr(res.status, "name", str(res.status)))


def judge_first_group(obs, tag, res, rec, f, minimize, starts=(), bounds=None, count_evals=True):
    """All single-run relations of the property for a first-group solver.  Returns True when all held."""
    from vf.common import short

    ok = True
    sol, obj = res.solution, res.objective
    # (1) the objective reported is the user's objective at the returned solution, bit for bit
    fx = f(sol)
    obs.event("rel.objective-at-solution")
    if not (obj == fx):
        ok = False
        obs.violate("objective-mismatch", f"{tag}: returned objective {obj!r} but f(returned solution)={fx!r}; "
                                          f"solution={short(sol, 200)} minimize={minimize}")
    hit = [v for a, v in rec.calls if a == sol]
    if hit:
        obs.event("rel.objective-equals-recorded-value")
        if any(not (v == obj) for v in hit):
            ok = False
            obs.violate("objective-mismatch", f"{tag}: objective {obj!r} differs from the value(s) recorded for this very "
                                              f"solution {hit[:3]!r}")
    else:
        obs.event("info.returned-solution-not-among-recorded-arguments")
    # (2) not worse than anything the solver evaluated
    if rec.calls:
        vals = [v for _, v in rec.calls]
        best = min(vals) if minimize else max(vals)
        obs.event("rel.best-of-evaluated")
        if (obj > best) if minimize else (obj < best):
            ok = False
            k = vals.index(best)
            obs.violate("worse-than-evaluated", f"{tag}: returned objective {obj!r} but call #{k} of {len(vals)} evaluated "
                                                f"{short(rec.calls[k][0], 200)} -> {best!r} (minimize={minimize})")
    # (3) not worse than the start point(s)
    for s in starts:
        fs = f(s)
        obs.event("rel.start-point")
        if (obj > fs) if minimize else (obj < fs):
            ok = False
            obs.violate("worse-than-start", f"{tag}: returned objective {obj!r}, start point {short(s, 200)} has {fs!r} "
                                            f"(minimize={minimize})")
    # (4) evaluations = number of objective calls
    if count_evals:
        obs.event("rel.evaluations")
        if res.evaluations != len(rec.calls):
            ok = False
            obs.violate("evaluations-count", f"{tag}: evaluations={res.evaluations} but the objective was called "
                                             f"{len(rec.calls)} times")
    # (5) bounds
    if bounds is not None:
        obs.event("rel.bounds")
        if len(sol) != len(bounds) or any(not (lo <= xi <= hi) for xi, (lo, hi) in zip(sol, bounds)):
            ok = False
            obs.violate("out-of-bounds", f"{tag}: solution {short(sol, 200)} outside bounds {bounds}")
    # evidence about the situation the property is about
    if len(rec.calls) >= 2:
        vals = [v for _, v in rec.calls]
        best = min(vals) if minimize else max(vals)
        if vals[-1] != best:
            obs.event("shape.last-candidate-worse-than-best")
        if len(set(vals)) < len(vals):
            obs.event("shape.tied-values")
        if vals.index(best) == 0:
            obs.event("shape.start-is-best")
    return ok


def judge_mirror(obs, tag, ra, rb, na, nb):
    """ra: run on f with minimize=m;  rb: run on -f with minimize=not m (same seed, same callbacks)."""
    from vf.common import short

    obs.event("rel.mirror")
    bad = []
    if ra.solution != rb.solution:
        bad.append(f"solutions differ: {short(ra.solution, 150)} vs {short(rb.solution, 150)}")
    if not (ra.objective == -rb.objective):
        bad.append(f"objectives {ra.objective!r} vs {rb.objective!r} are not negations")
    if ra.evaluations != rb.evaluations or na != nb:
        bad.append(f"evaluations {ra.evaluations}/{na} calls vs {rb.evaluations}/{nb} calls")
    if bad:
        obs.violate("mirror-broken", f"{tag}: " + "; ".join(bad))
        return False
    return True


def judge_repeat(obs, tag, r1, r2):
    from vf.common import short

    obs.event("rel.reproducible")
    if fields(r1) != fields(r2):
        obs.violate("not-reproducible", f"{tag}: same input and seed, two runs: {short(fields(r1), 300)} vs "
                                        f"{short(fields(r2), 300)}")
        return False
    return True


def close(a, b, rel=1e-12):
    return a == b or abs(a - b) <= rel * max(1.0, abs(a), abs(b))
