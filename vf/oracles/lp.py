"""Exact LP / MILP reference over Fractions: min/max c.x s.t. A x <= b, x >= 0.

Vertex enumeration (the polyhedron is pointed because x >= 0): exponential, exact, obvious.
Unboundedness via the normalised recession cone {d >= 0, A d <= 0, sum d = 1}.
"""

from fractions import Fraction as F
from itertools import combinations, product
from math import comb

MAX_SYSTEMS = 6000


def _solve_square(M, rhs):
    n = len(M)
    A = [row[:] + [r] for row, r in zip(M, rhs)]
    for col in range(n):
        piv = None
        for r in range(col, n):
            if A[r][col] != 0:
                piv = r
                break
        if piv is None:
            return None
        A[col], A[piv] = A[piv], A[col]
        p = A[col][col]
        A[col] = [v / p for v in A[col]]
        for r in range(n):
            if r != col and A[r][col] != 0:
                f = A[r][col]
                A[r] = [a - f * b for a, b in zip(A[r], A[col])]
    return [A[i][n] for i in range(n)]


def within_bounds(m, n):
    return n >= 1 and comb(m + n, n) <= MAX_SYSTEMS and comb(m + 2 + n, n) <= 4 * MAX_SYSTEMS


def vertices(A, b, n):
    """All basic feasible solutions of {A x <= b, x >= 0}."""
    m = len(A)
    rows = [([F(v) for v in A[i]], F(b[i])) for i in range(m)]
    for j in range(n):
        e = [F(0)] * n
        e[j] = F(-1)
        rows.append((e, F(0)))
    out = []
    seen = set()
    for idx in combinations(range(len(rows)), n):
        M = [rows[i][0] for i in idx]
        r = [rows[i][1] for i in idx]
        x = _solve_square(M, r)
        if x is None:
            continue
        t = tuple(x)
        if t in seen:
            continue
        if all(sum(a * xi for a, xi in zip(row, x)) <= rhs for row, rhs in rows):
            seen.add(t)
            out.append(x)
    return out


_poly_cache = {}


def _polyhedron(A, b, n):
    """(vertices, normalised recession directions) of {A x <= b, x >= 0}; cached, independent of the objective."""
    key = (tuple(tuple(r) for r in A), tuple(b), n)
    hit = _poly_cache.get(key)
    if hit is not None:
        return hit
    V = vertices(A, b, n)
    R = []
    if V:
        A2 = [list(r) for r in A] + [[1] * n, [-1] * n]
        b2 = [0] * len(A) + [1, -1]
        R = vertices(A2, b2, n)
    if len(_poly_cache) > 64:
        _poly_cache.clear()
    _poly_cache[key] = (V, R)
    return V, R


def solve_exact(c, A, b, minimize=True):
    """-> ('infeasible', None, None) | ('unbounded', None, None) | ('optimal', x, obj)"""
    n = len(c)
    cc = [F(v) if minimize else -F(v) for v in c]
    V, R = _polyhedron(A, b, n)
    if not V:
        return ("infeasible", None, None)
    for d in R:
        if sum(ci * di for ci, di in zip(cc, d)) < 0:
            return ("unbounded", None, None)
    best = min(V, key=lambda x: sum(ci * xi for ci, xi in zip(cc, x)))
    obj = sum(F(ci) * xi for ci, xi in zip(c, best))
    return ("optimal", best, obj)


def relaxation_unbounded(c, A, b, minimize=True):
    st, _, _ = solve_exact(c, A, b, minimize)
    return st == "unbounded"


def milp_exact(c, A, b, integers, minimize=True, box=None):
    """Enumerate the integer variables over `box` (dict j -> (lo, hi), must be implied by the rows),
    solve the exact LP on the continuous rest. -> (status, x, obj) like solve_exact, where 'infeasible'
    means no integer-feasible point.  Unboundedness of the MILP is not decided here (callers bound all
    integer variables; the continuous part may still be unbounded -> 'unbounded')."""
    n = len(c)
    ints = sorted(set(integers))
    cont = [j for j in range(n) if j not in ints]
    best = None
    if not cont and all(isinstance(v, int) for v in c) and all(isinstance(v, int) for v in b) and all(
            isinstance(v, int) for r in A for v in r):
        # pure integer program with integer data: plain int arithmetic (same enumeration, much faster)
        m = len(A)
        for vals in product(*[range(box[j][0], box[j][1] + 1) for j in ints]):
            ok = True
            for i in range(m):
                row = A[i]
                if sum(row[j] * vals[j] for j in range(n)) > b[i]:
                    ok = False
                    break
            if not ok:
                continue
            obj = sum(c[j] * vals[j] for j in range(n))
            if best is None or (obj < best[1] if minimize else obj > best[1]):
                best = ([F(v) for v in vals], F(obj))
        if best is None:
            return ("infeasible", None, None)
        return ("optimal", best[0], best[1])
    for vals in product(*[range(box[j][0], box[j][1] + 1) for j in ints]):
        fixed = dict(zip(ints, vals))
        # reduce rows
        b2 = [F(b[i]) - sum(F(A[i][j]) * fixed[j] for j in ints) for i in range(len(A))]
        if not cont:
            if all(v >= 0 for v in b2):
                x = [F(fixed[j]) for j in range(n)]
                st = "optimal"
            else:
                continue
        else:
            A2 = [[A[i][j] for j in cont] for i in range(len(A))]
            c2 = [c[j] for j in cont]
            st, xc, _ = solve_exact(c2, A2, b2, minimize)
            if st == "infeasible":
                continue
            if st == "unbounded":
                return ("unbounded", None, None)
            x = [None] * n
            for j in ints:
                x[j] = F(fixed[j])
            for k, j in enumerate(cont):
                x[j] = xc[k]
        obj = sum(F(c[j]) * x[j] for j in range(n))
        if best is None or (obj < best[1] if minimize else obj > best[1]):
            best = (x, obj)
    if best is None:
        return ("infeasible", None, None)
    return ("optimal", best[0], best[1])
