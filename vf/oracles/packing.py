"""Exact reference oracles for C16 (0/1 knapsack, bin packing).  Integers only: callers scale
decimal data by the common power of ten first.  No code shared with solvOR."""

KNAP_ENUM_MAX_N = 16
KNAP_DP_MAX_CELLS = 2_000_000
BINS_MAX_N = 12


def knapsack_enum(values, weights, cap, minimize=False):
    """Best total value over all subsets with total weight <= cap (2^n subset sums, built incrementally)."""
    n = len(values)
    if n > KNAP_ENUM_MAX_N:
        return None
    size = 1 << n
    wsum = [0] * size
    vsum = [0] * size
    best = None
    for mask in range(size):
        if mask:
            low = mask & -mask
            i = low.bit_length() - 1
            rest = mask ^ low
            wsum[mask] = wsum[rest] + weights[i]
            vsum[mask] = vsum[rest] + values[i]
        if wsum[mask] <= cap:
            v = vsum[mask]
            if best is None or (v < best if minimize else v > best):
                best = v
    return best


def knapsack_dp(values, weights, cap, minimize=False):
    """Same optimum by the classical table over integer capacities (for n above the enumeration guard)."""
    n = len(values)
    if cap < 0:
        return None
    if (cap + 1) * max(1, n) > KNAP_DP_MAX_CELLS:
        return None
    if minimize:
        # non-negative values: the empty set is optimal
        return 0 if all(v >= 0 for v in values) else None
    table = [0] * (cap + 1)
    for v, w in zip(values, weights):
        if w > cap:
            continue
        if w == 0:
            if v > 0:
                table = [t + v for t in table]
            continue
        for c in range(cap, w - 1, -1):
            cand = table[c - w] + v
            if cand > table[c]:
                table[c] = cand
    return table[cap]


def knapsack_best(values, weights, cap, minimize=False):
    """(best value, oracle name) or (None, None) above every guard."""
    r = knapsack_enum(values, weights, cap, minimize)
    if r is not None:
        return r, "enum"
    r = knapsack_dp(values, weights, cap, minimize)
    if r is not None:
        return r, "dp"
    return None, None


def bins_opt(sizes, cap, limit=BINS_MAX_N):
    """Minimum number of bins for the positive sizes (exact depth-first branch and bound).
    An instance without positive sizes needs one bin iff it has any item (caller decides)."""
    items = sorted((s for s in sizes if s > 0), reverse=True)
    n = len(items)
    if n == 0:
        return 0
    if n > limit:
        return None
    total = sum(items)
    lb = -(-total // cap)
    best = [n]
    suffix = [0] * (n + 1)
    for i in range(n - 1, -1, -1):
        suffix[i] = suffix[i + 1] + items[i]

    def rec(i, loads):
        if best[0] == lb:
            return
        k = len(loads)
        if k >= best[0]:
            return
        if i == n:
            best[0] = k
            return
        # remaining volume bound
        free = sum(cap - x for x in loads)
        need = suffix[i] - free
        extra = -(-need // cap) if need > 0 else 0
        if k + extra >= best[0]:
            return
        s = items[i]
        seen = set()
        for b in range(k):
            x = loads[b]
            if x + s <= cap and x not in seen:
                seen.add(x)
                loads[b] = x + s
                rec(i + 1, loads)
                loads[b] = x
        loads.append(s)
        rec(i + 1, loads)
        loads.pop()

    rec(0, [])
    return best[0]
