"""Exact SAT reference: model sets as bitsets over all assignments of the used variables (<= 18),
and a small independent DPLL for larger instances. Shares no code with solvOR."""

MAX_BRUTE_VARS = 16


def used_vars(clauses, assumptions=()):
    vs = set()
    for c in clauses:
        for lit in c:
            vs.add(abs(lit))
    for lit in assumptions:
        vs.add(abs(lit))
    return sorted(vs)


class ModelSet:
    """All models of a CNF over `variables` as one big-int bitset (bit a = assignment number a;
    variable variables[k] is true in assignment a iff bit k of a is set)."""

    def __init__(self, variables):
        self.vars = list(variables)
        self.pos = {v: k for k, v in enumerate(self.vars)}
        n = len(self.vars)
        if n > 18:
            raise ValueError("too many variables for the bitset oracle")
        self.n = n
        self.size = 1 << n
        self.full = (1 << self.size) - 1
        self.true_mask = []
        for k in range(n):
            # pattern: blocks of 2^k zeros then 2^k ones, repeated
            block = ((1 << (1 << k)) - 1) << (1 << k)
            period = 1 << (k + 1)
            m = 0
            reps = self.size // period
            # build by doubling
            m = block
            width = period
            while width < self.size:
                m |= m << width
                width *= 2
            self.true_mask.append(m & self.full)

    def lit_mask(self, lit):
        m = self.true_mask[self.pos[abs(lit)]]
        return m if lit > 0 else (~m & self.full)

    def clause_mask(self, clause):
        m = 0
        for lit in clause:
            m |= self.lit_mask(lit)
        return m

    def models(self, clauses, assumptions=()):
        m = self.full
        for c in clauses:
            m &= self.clause_mask(c)
            if not m:
                return 0
        for lit in assumptions:
            m &= self.lit_mask(lit)
        return m

    def index_of(self, assignment):
        """assignment: dict var->bool covering self.vars; returns the assignment number."""
        a = 0
        for k, v in enumerate(self.vars):
            if assignment[v]:
                a |= 1 << k
        return a

    @staticmethod
    def count(mask):
        return bin(mask).count("1")


def satisfies(clauses, model):
    """Certificate check: returns None if ok, else (clause index, reason)."""
    for idx, c in enumerate(clauses):
        ok = False
        undecided = False
        for lit in c:
            v = model.get(abs(lit))
            if v is None:
                undecided = True
            elif v == (lit > 0):
                ok = True
                break
        if not ok:
            return idx, ("undecided" if undecided else "falsified")
    return None


def dpll_sat(clauses, assumptions=(), limit=2_000_000):
    """Independent DPLL with unit propagation. Returns True/False, or None if the step limit is hit."""
    clauses = [list(dict.fromkeys(c)) for c in clauses]
    assign = {}
    for lit in assumptions:
        v = abs(lit)
        if v in assign and assign[v] != (lit > 0):
            return False
        assign[v] = lit > 0
    steps = [0]

    def simplify(assign):
        changed = True
        while changed:
            changed = False
            for c in clauses:
                steps[0] += 1
                if steps[0] > limit:
                    raise TimeoutError
                sat = False
                free = []
                for lit in c:
                    v = assign.get(abs(lit))
                    if v is None:
                        free.append(lit)
                    elif v == (lit > 0):
                        sat = True
                        break
                if sat:
                    continue
                if not free:
                    return False
                if len(free) == 1:
                    assign[abs(free[0])] = free[0] > 0
                    changed = True
        return True

    def rec(assign):
        if not simplify(assign):
            return False
        for c in clauses:
            sat = False
            free = None
            for lit in c:
                v = assign.get(abs(lit))
                if v is None:
                    if free is None:
                        free = lit
                elif v == (lit > 0):
                    sat = True
                    break
            if not sat and free is not None:
                for val in (free > 0, not (free > 0)):
                    a2 = dict(assign)
                    a2[abs(free)] = val
                    if rec(a2):
                        return True
                return False
        return True

    try:
        return rec(assign)
    except (TimeoutError, RecursionError):
        return None
