"""Reference judges for C18: job-shop schedules and VRPTW route plans.

Plain data only (tuples / lists / sets / ints / floats); nothing is imported from solvOR.

Job shop
    check_schedule(jobs, schedule, objective=None) -> [(class, detail)]
VRPTW
    snapshot(state)          -> Snap   (reads attributes of a VRPState, copies everything)
    anomalies(snap)          -> {key: detail}     bookkeeping anomalies of one state; keys are
                                                  hashable and comparable between two states
    arrivals(snap, route)    -> [t]               recomputation from travel / waiting / service
    objective(snap, weights) -> (value, magnitude, parts) documented weighted sum of that state
    KEY_CLASS                                      anomaly key kind -> violation class suffix
"""

from math import hypot, isfinite

# ------------------------------------------------------------------------------ job shop

JS_MAX_OPS = 400  # size guard of the pairwise machine check (quadratic)


def check_schedule(jobs, schedule, objective=None, want_objective=False):
    """Every clause of the C18 job-shop sentence.  Returns list of (class, detail); [] = valid.

    jobs: list of lists of (machine, duration); schedule: {(job, op): (start, end)}.
    Overlap means a common interior point: zero-length operations overlap nothing."""
    bad = []
    if not isinstance(schedule, dict):
        return [("malformed", f"schedule is {type(schedule).__name__}")]
    ops = [(j, k) for j, job in enumerate(jobs) for k in range(len(job))]
    times = {}
    for key in ops:
        if key not in schedule:
            bad.append(("missing-op", f"operation {key} has no start/end"))
            continue
        val = schedule[key]
        try:
            s, e = val
            s + 0, e + 0
        except Exception:
            bad.append(("malformed", f"operation {key} -> {val!r}"))
            continue
        times[key] = (s, e)
        d = jobs[key[0]][key[1]][1]
        if e - s != d:
            bad.append(("duration", f"operation {key}: end-start = {e}-{s} = {e - s}, duration {d}"))
    for j, job in enumerate(jobs):
        for k in range(1, len(job)):
            a, b = times.get((j, k - 1)), times.get((j, k))
            if a is not None and b is not None and b[0] < a[1]:
                bad.append(("job-order", f"job {j}: op {k} starts {b[0]} before op {k - 1} ends {a[1]}"))
    by_machine = {}
    for key in ops:
        if key in times:
            by_machine.setdefault(jobs[key[0]][key[1]][0], []).append(key)
    if len(ops) <= JS_MAX_OPS:
        for m, keys in by_machine.items():
            for x in range(len(keys)):
                s1, e1 = times[keys[x]]
                for y in range(x + 1, len(keys)):
                    s2, e2 = times[keys[y]]
                    if max(s1, s2) < min(e1, e2):
                        bad.append(("machine-overlap",
                                    f"machine {m}: {keys[x]}=[{s1},{e1}) and {keys[y]}=[{s2},{e2}) overlap"))
    else:  # sweep (n log n) above the guard
        for m, keys in by_machine.items():
            iv = sorted((times[k2] for k2 in keys if times[k2][1] > times[k2][0]))
            for (s1, e1), (s2, e2) in zip(iv, iv[1:]):
                if s2 < e1:
                    bad.append(("machine-overlap", f"machine {m}: [{s1},{e1}) and [{s2},{e2}) overlap"))
    if want_objective and times and len(times) == len(ops):
        latest = max(e for _, e in times.values())
        if objective != latest:
            bad.append(("objective", f"objective {objective!r} but the latest end time is {latest!r}"))
    return bad


def negative_starts(jobs, schedule):
    return [k for k, v in schedule.items() if isinstance(v, tuple) and len(v) == 2 and v[0] < 0]


# ------------------------------------------------------------------------------ VRPTW

ARR_TOL = 1e-9
UNASSIGNED_PENALTY = 100000.0  # vrp_objective's documented default; solve_vrptw does not override it
MISSING_VEHICLE_UNITS = 1000.0  # sync violation per missing vehicle of a multi-vehicle customer

DEFAULT_WEIGHTS = {"distance_weight": 1.0, "vehicle_weight": 0.0, "tw_penalty": 1000.0,
                   "capacity_penalty": 1000.0, "sync_penalty": 10000.0}

KEY_CLASS = {
    "lost": "lost",  # on no route and not unassigned
    "both": "both",  # on a route and unassigned
    "twice": "twice-on-route",
    "single2": "single-on-two-routes",
    "depot": "depot-on-route",
    "alien": "unknown-id",  # an id that is not a customer of the problem sits on a route / in unassigned
    "arrival": "arrival",
    "shape": "shape",  # routes / arrival_times not one list per vehicle
}


class Snap:
    """Deep plain copy of what a VRPState holds."""

    __slots__ = ("cust", "caps", "routes", "arr", "unassigned", "n")

    def digest(self):
        return "R" + "|".join(",".join(map(str, r)) for r in self.routes) + " U" + ",".join(
            map(str, sorted(self.unassigned, key=repr)))

    def same_plan(self, other):
        return self.routes == other.routes and self.unassigned == other.unassigned and self.arr == other.arr


def snapshot(state):
    s = Snap()
    # (x, y, demand, tw_start, tw_end, service, required) indexed like state.customers (0 = depot)
    s.cust = [(c.x, c.y, c.demand, c.tw_start, c.tw_end, c.service_time, c.required_vehicles) for c in state.customers]
    s.caps = [v.capacity for v in state.vehicles]
    s.routes = [list(r) for r in state.routes]
    s.arr = [list(a) for a in state.arrival_times]
    s.unassigned = set(state.unassigned)
    s.n = len(s.cust) - 1
    return s


def dist(snap, i, j):
    a, b = snap.cust[i], snap.cust[j]
    return hypot(a[0] - b[0], a[1] - b[1])


def arrivals(snap, route):
    """Start-of-service times: leave the depot at 0, travel, wait for the window to open, serve."""
    out = []
    if not route:
        return out
    t = dist(snap, 0, route[0])
    for i, cid in enumerate(route):
        c = snap.cust[cid]
        if t < c[3]:
            t = c[3]
        out.append(t)
        t = t + c[5]
        if i + 1 < len(route):
            t = t + dist(snap, cid, route[i + 1])
    return out


def _close(a, b, tol=ARR_TOL):
    if a == b:
        return True
    if not (isfinite(a) and isfinite(b)):
        return False
    return abs(a - b) <= tol * (1.0 + abs(a) + abs(b))


def anomalies(snap):
    """Bookkeeping anomalies of one state as {key: detail}."""
    out = {}
    n = snap.n
    nv = len(snap.caps)
    if len(snap.routes) != nv or len(snap.arr) != len(snap.routes):
        out[("shape",)] = f"{nv} vehicles, {len(snap.routes)} routes, {len(snap.arr)} arrival lists"
    on = {}  # cid -> list of route indices (with repetition)
    for v, r in enumerate(snap.routes):
        for cid in r:
            on.setdefault(cid, []).append(v)
    for cid, vs in on.items():
        if cid == 0:
            out[("depot", vs[0])] = f"depot (id 0) on route {vs[0]}: {snap.routes[vs[0]]}"
        elif not (isinstance(cid, int) and 1 <= cid <= n):
            out[("alien", repr(cid))] = f"id {cid!r} on route {vs[0]} is not a customer (1..{n})"
    for cid in snap.unassigned:
        if not (isinstance(cid, int) and 1 <= cid <= n):
            out[("alien", repr(cid))] = f"id {cid!r} in unassigned is not a customer (1..{n})"
    for cid in range(1, n + 1):
        vs = on.get(cid, [])
        un = cid in snap.unassigned
        if not vs and not un:
            out[("lost", cid)] = f"customer {cid} is on no route and not in unassigned"
        if vs and un:
            out[("both", cid)] = f"customer {cid} is on route(s) {sorted(set(vs))} and in unassigned"
        for v in set(vs):
            if vs.count(v) > 1:
                out[("twice", cid, v)] = f"customer {cid} appears {vs.count(v)}x on route {v}: {snap.routes[v]}"
        if snap.cust[cid][6] == 1 and len(set(vs)) > 1:
            out[("single2", cid)] = f"single-vehicle customer {cid} is on routes {sorted(set(vs))}"
    for v, r in enumerate(snap.routes):
        if v >= len(snap.arr):
            break
        if any(not (isinstance(c, int) and 0 <= c <= n) for c in r):
            continue  # already reported as alien; arrival recomputation impossible
        exp = arrivals(snap, r)
        got = snap.arr[v]
        if len(got) != len(exp) or any(not _close(a, b) for a, b in zip(got, exp)):
            out[("arrival", v)] = f"route {v}={r}: arrival_times {got}, recomputed {exp}"
    return out


def objective(snap, weights=None):
    """Documented weighted sum (vrp_objective) of the state, from recomputed arrival times.

    Returns (value, magnitude, parts) where magnitude = sum of |terms| (for the float tolerance)."""
    w = dict(DEFAULT_WEIGHTS)
    if weights:
        w.update(weights)
    total_d = 0.0
    used = 0
    twv = 0.0
    capv = 0.0
    arr = []
    for v, r in enumerate(snap.routes):
        a = arrivals(snap, r)
        arr.append(a)
        if r:
            used += 1
            d = dist(snap, 0, r[0])
            for x, y in zip(r, r[1:]):
                d += dist(snap, x, y)
            d += dist(snap, r[-1], 0)
            total_d += d
        for t, cid in zip(a, r):
            end = snap.cust[cid][4]
            if t > end:
                twv += t - end
        load = sum(snap.cust[cid][2] for cid in r)
        if v < len(snap.caps) and load > snap.caps[v]:
            capv += load - snap.caps[v]
    syncv = 0.0
    for cid in range(1, snap.n + 1):
        req = snap.cust[cid][6]
        if req <= 1:
            continue
        times = [arr[v][r.index(cid)] for v, r in enumerate(snap.routes) if cid in r]
        if len(times) < req:
            syncv += (req - len(times)) * MISSING_VEHICLE_UNITS
        elif len(times) > 1:
            syncv += max(times) - min(times)
    terms = [w["distance_weight"] * total_d, w["vehicle_weight"] * used, w["tw_penalty"] * twv,
             w["capacity_penalty"] * capv, w["sync_penalty"] * syncv, UNASSIGNED_PENALTY * len(snap.unassigned)]
    return sum(terms), sum(abs(t) for t in terms), {"distance": total_d, "used": used, "tw": twv, "cap": capv,
                                                     "sync": syncv, "unassigned": len(snap.unassigned)}


def overloaded_gain(pre, post):
    """Routes of `post` that gained a visit relative to `pre` and are over capacity (informational)."""
    out = []
    for v, r in enumerate(post.routes):
        if v >= len(pre.routes) or v >= len(post.caps):
            continue
        before = pre.routes[v]
        gained = any(r.count(c) > before.count(c) for c in set(r))
        if gained and all(isinstance(c, int) and 0 <= c <= post.n for c in r):
            load = sum(post.cust[c][2] for c in r)
            if load > post.caps[v]:
                out.append((v, load, post.caps[v]))
    return out
