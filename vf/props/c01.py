"""C01 — SAT models are models: every returned assignment satisfies the formula."""

from vf.props import sat_common as sc

ID = "C01"
RULE = ("seeded CNFs per stratum (tiny with units/binaries/duplicates/tautologies, threshold 3-SAT, planted, enumeration, "
        "assumptions, tuning sweeps, pigeonhole for reduce_db, mass enumeration); each formula is solved under several "
        "configurations; every returned assignment is certificate-checked against the deep-copied input; non-trivial = "
        ">=1 conflict analysed, or >=2 models recorded, or an assumption present; distinct = distinct (formula, configs)")
ASSUMPTIONS = ["clauses are lists of non-zero ints; assumptions are non-contradictory literal lists",
               "L2 closure monitors (backtracking prefix, learned-clause entailment, blocking clauses kept) are mechanism "
               "events; only the returned assignments decide"]
STRATA = [
    ("tiny", 2500, 40000),
    ("threshold", 500, 8000),
    ("planted", 40, 600),
    ("mid", 400, 6000),
    ("aliased", 3500, 60000),
    ("cp-cnf", 400, 6000),
    ("enum", 1500, 25000),
    ("assume", 800, 12000),
    ("tuning", 500, 8000),
    ("reduce", 0, 3),
    ("reduce-planted", 6, 64),
    ("long-run", 2, 32),
    ("suite", 0, 1),
    ("enum-reduce", 16, 64),
]
REQUIRED_EVENTS = {"any": ["l2.reduce_db-above-threshold", "l2.learned-vs-known-model", "c01.models-checked", "c01.distinctness-checked", "l2.analyze", "l2.unassign_to", "l2.learned-checked"],
                   "thorough": ["c01.models-checked", "c01.distinctness-checked", "l2.analyze", "l2.unassign_to",
                                "l2.learned-checked", "l2.reduce_db", "l2.reduce_db-with-blocking"]}
BATCH = {"reduce": 1, "reduce-planted": 1, "long-run": 1, "enum-reduce": 1, "planted": 5}

setup = sc.setup
gen = sc.gen
shrink = sc.shrink


def run(case, obs):
    sc.run(case, obs, "C01")
