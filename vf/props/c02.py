"""C02 — SAT verdicts are correct and the solver always comes back."""

from vf.props import sat_common as sc

ID = "C02"
RULE = ("seeded CNFs per stratum; verdict judged against the bitset brute-force oracle (<=16 variables incl. assumption "
        "variables) or against the status known by construction (planted => SAT; pigeonhole, odd parity cycles, "
        "F and not(resolvent of F) => UNSAT); MAX_ITER must coincide with an exhausted budget counter read from the "
        "live frame; every call runs under a logical step budget (bounded progress); non-trivial = >=1 conflict "
        "analysed or an assumption present; distinct = distinct (formula, configs)")
ASSUMPTIONS = ["termination is judged as return within a step budget >= 50x the largest need observed on the repaired tree",
               "budget-overrun thresholds: conflicts <= 2*max_conflicts + 10*n_vars + 100, restarts <= max_restarts + 1"]
STRATA = [
    ("tiny", 2000, 30000),
    ("threshold", 500, 8000),
    ("unsat-core", 500, 8000),
    ("assume", 800, 12000),
    ("tuning", 500, 8000),
    ("budget", 60, 1000),
    ("unsat-constructed", 150, 2500),
    ("planted", 40, 600),
    ("mid", 400, 6000),
    ("aliased", 1200, 15000),
    ("cp-cnf", 400, 6000),
    ("default-mode", 12, 120),
    ("reduce", 0, 3),
    ("reduce-planted", 6, 64),
    ("long-run", 2, 32),
    ("suite", 0, 1),
]
REQUIRED_EVENTS = {"any": ["l2.reduce_db-above-threshold", "l2.learned-vs-known-model", "c02.verdict-checked", "c02.budget-counters-read", "l2.analyze", "sat.restarts",
                           "sat.default-config-run-with-restart"]}
BATCH = {"reduce": 1, "reduce-planted": 1, "long-run": 1, "default-mode": 1, "planted": 5, "budget": 5}

setup = sc.setup
gen = sc.gen
shrink = sc.shrink


def run(case, obs):
    sc.run(case, obs, "C02")
