"""C03 — LP verdicts and optima are exact (simplex; interior point when it says OPTIMAL)."""

ID = "C03"
RULE = ("seeded small LPs (n<=4, m<=6) with integer or dyadic data per stratum (random incl. negative rhs, degenerate "
        "vertices, redundant equalities, unbounded-vs-infeasible cones, zero rows/columns, tiny max_iter, ipm configs), "
        "each solved by solve_lp (min and max) and solve_lp_interior and judged against exact vertex enumeration over "
        "Fractions; non-trivial = the exact oracle needed >= 2 vertices or phase 1 (negative rhs) or the LP is "
        "infeasible/unbounded; distinct = distinct (c, A, b, minimize, options)")
ASSUMPTIONS = ["well-scaled data: integers |v|<=9 or dyadic rationals k/8", "tolerances of DESIGN.md 2.5",
               "interior point: only OPTIMAL and FEASIBLE answers carry a claim; the evidence reports how often each was seen"]
STRATA = [
    ("random", 1500, 30000),
    ("degenerate", 800, 16000),
    ("redundant-eq", 500, 10000),
    ("cone", 500, 10000),
    ("rational", 500, 10000),
    ("max-iter", 500, 10000),
    ("big-rhs", 2500, 30000),
    ("ipm-config", 300, 6000),
    ("scale", 1, 10),
    ("suite", 0, 1),
]
REQUIRED_EVENTS = {"any": ["lp.simplex.judged", "lp.ipm.judged", "lp.simplex.max-iter-reported"]}

_simplex = _ipm = _mon = None


def setup():
    global _simplex, _ipm, _mon
    import warnings

    from vf.instrument import mod
    from vf.monitors import lp as mon

    warnings.simplefilter("ignore")
    mon.attach()
    _mon = mon
    _simplex = mod("solvor.simplex")
    _ipm = mod("solvor.interior_point")


def _coef(rng):
    return rng.choice([0, 0, 1, 1, 2, -1, -2, 3, -3, 4])


def gen(stratum, rng, tier):
    if stratum == "scale":
        # a hundred variables and more: integer LP built around a planted complementary primal / dual pair, so the optimum
        # value is known exactly without an oracle; solved with the default limits (max_iter is the caller's, 100 000)
        n = rng.randint(105, 130)
        m = rng.randint(60, 75)
        A = [[rng.choice([0, 0, 1, 1, 2, 3, -1, -2]) for _ in range(n)] for _ in range(m)]
        xs = [rng.randint(1, 6) if rng.random() < 0.35 else 0 for _ in range(n)]
        ys = [rng.randint(1, 5) if rng.random() < 0.5 else 0 for _ in range(m)]
        b = [sum(a * x for a, x in zip(A[i], xs)) + (0 if ys[i] else rng.randint(1, 9)) for i in range(m)]
        c = [-sum(A[i][j] * ys[i] for i in range(m)) + (0 if xs[j] else rng.randint(1, 9)) for j in range(n)]
        return {"scale": True, "c": c, "A": A, "b": b, "opt": sum(cj * x for cj, x in zip(c, xs)), "x": xs}
    if stratum == "suite":
        return {"suite": SUITE_FILES}
    n = rng.randint(1, 4)
    m = rng.randint(1, 5)
    A = [[_coef(rng) for _ in range(n)] for _ in range(m)]
    b = [rng.choice([0, 0, 1, 2, 4, 6, -1, -3, 5, 8]) for _ in range(m)]
    c = [rng.choice([0, 1, -1, 2, -2, 3, -3]) for _ in range(n)]
    kw = {}
    ipm_kw = {}
    if stratum == "random":
        pass
    elif stratum == "degenerate":
        # many constraints through one vertex: pick a vertex v>=0 (integers), make rows tight at it
        v = [rng.choice([0, 0, 1, 2, 3]) for _ in range(n)]
        A, b = [], []
        for _ in range(rng.randint(n, n + 3)):
            row = [_coef(rng) for _ in range(n)]
            tight = rng.random() < 0.75
            rhs = sum(a * x for a, x in zip(row, v)) + (0 if tight else rng.randint(1, 3))
            A.append(row)
            b.append(rhs)
        r = rng.random()
        if r < 0.25:
            A.append([0] * n)
            b.append(rng.choice([0, 0, 1]))
        elif r < 0.5 and A:
            i = rng.randrange(len(A))
            k = rng.choice([2, 3])
            A.append([k * a for a in A[i]])
            b.append(k * b[i])
        elif r < 0.65:
            j = rng.randrange(n)
            for row in A:
                row[j] = 0  # zero column
        if rng.random() < 0.3:
            b = [0] * len(b)
    elif stratum == "redundant-eq":
        # equality a.x = beta as a pair of inequalities (artificials stay basic after phase 1)
        for _ in range(rng.randint(1, 2)):
            row = [rng.choice([0, 1, 1, 2, -1]) for _ in range(n)]
            beta = rng.choice([0, 1, 2, 3, 4])
            A.append(row)
            b.append(beta)
            A.append([-a for a in row])
            b.append(-beta)
            if rng.random() < 0.3:
                A.append(list(row))
                b.append(beta)
        A, b = A[-6:], b[-6:]
    elif stratum == "cone":
        # homogeneous-ish systems: unbounded directions with or without feasible points
        b = [rng.choice([0, 0, 0, 1, -1, -2]) for _ in range(m)]
        A = [[rng.choice([0, 1, -1, -1, 2, -2]) for _ in range(n)] for _ in range(m)]
    elif stratum == "rational":
        q = lambda: rng.randint(-24, 24) / 8.0
        A = [[q() if rng.random() < 0.8 else 0.0 for _ in range(n)] for _ in range(m)]
        b = [q() for _ in range(m)]
        c = [q() for _ in range(n)]
    elif stratum == "max-iter":
        kw["max_iter"] = rng.choice([1, 1, 2, 2, 3, 5])
        b = [rng.choice([0, 1, 2, 4, -1, -2, -3, 5]) for _ in range(m)]
    elif stratum == "big-rhs":
        # integer data with single- to three-digit coefficients and right-hand sides of 1e4..1e6 (quantities, budgets):
        # phase 1 starts from a large total infeasibility, and what is left of it at the end is cancellation noise of
        # that size, not of size 1
        hi = rng.choice([9, 9, 99, 999])
        A = [[rng.randint(-hi, hi) if rng.random() < 0.8 else 0 for _ in range(n)] for _ in range(m)]
        unit = rng.choice([10 ** 4, 10 ** 5, 10 ** 5, 10 ** 6])
        b = [rng.randint(-9, 9) * unit for _ in range(m)]
        if rng.random() < 0.5 and A:
            k = rng.randrange(len(A))
            beta = abs(b[k]) or unit
            b[k] = beta
            A.append([-a for a in A[k]])
            b.append(-beta)  # an equality written as a pair of rows
        c = [rng.randint(-hi, hi) for _ in range(n)]
    elif stratum == "ipm-config":
        ipm_kw = {"eps": rng.choice([1e-8, 1e-6, 1e-4]), "max_iter": rng.choice([30, 100, 500])}
        # bounded feasible polytopes give the interior point method a chance to converge
        A = [[rng.choice([1, 1, 2, 3, 0]) for _ in range(n)] for _ in range(m)]
        A.append([1] * n)
        b = [rng.randint(2, 9) for _ in range(m)] + [rng.randint(3, 9)]
        c = [rng.choice([1, -1, 2, -2, 3, -3]) for _ in range(n)]
    else:
        raise ValueError(stratum)
    return {"c": c, "A": A, "b": b, "kw": kw, "ipm_kw": ipm_kw, "both_senses": rng.random() < 0.6,
            "minimize": rng.random() < 0.5, "container": rng.choice(["list", "list", "tuple", "mixed"])}


SUITE_FILES = ["tests/solvors/test_simplex.py", "tests/solvors/test_interior_point.py", "tests/solvors/test_milp.py"]


def run_suite(case, obs):
    """Thorough tier: the repository's own LP/MILP tests under the monitors (their assertions are ignored)."""
    import contextlib
    import io
    import os

    import pytest

    repo = os.environ.get("VERIF_REPO", "/repo")
    files = [os.path.join(repo, f) for f in case["suite"] if os.path.exists(os.path.join(repo, f))]
    if not files:
        obs.event("suite.no-test-files")
        return
    _mon.drain()
    cwd = os.getcwd()
    os.chdir(repo)
    try:
        with contextlib.redirect_stdout(io.StringIO()), contextlib.redirect_stderr(io.StringIO()):
            pytest.main(["-q", "-p", "no:cacheprovider", "--no-cov", "-o", "addopts=", "--timeout=600", *files])
    except SystemExit:
        pass
    finally:
        os.chdir(cwd)
    for rec in _mon.drain():
        obs.event("suite.lp-calls")
        if rec["fn"] == "solve_lp":
            _mon.judge_simplex(rec, obs, prefix="suite.")
        else:
            _mon.judge_interior(rec, obs, prefix="suite.")
    obs.nontrivial = True


def run(case, obs):
    from vf.common import call, is_crash
    from vf.oracles import lp as olp

    if "suite" in case:
        return run_suite(case, obs)
    if case.get("scale"):
        c, A, b, opt = case["c"], case["A"], case["b"], case["opt"]
        _mon.drain()
        r = call(obs, _simplex.solve_lp, c, A, b, minimize=True, what="solve_lp[scale]", budget=3_000_000_000)
        for rec in _mon.drain():
            if rec["fn"] == "solve_lp":
                _mon.judge_simplex(rec, obs)  # certificate part (feasible point, objective == c.x); size is above the exact oracle
        obs.nontrivial = True
        if not is_crash(r):
            obs.event("lp.scale.judged")
            obs.outcome("simplex-scale:" + r.status.name)
            # min c.x over Ax <= b, x >= 0 with planted x*, y* >= 0, complementary: c + A'y* >= 0 (= 0 where x*_j > 0), rows
            # tight where y*_i > 0  =>  x* is optimal and the optimum is c.x*
            if r.status.name != "OPTIMAL":
                obs.violate("lp.scale.status", f"{len(c)} variables x {len(b)} rows with a planted optimal pair (optimum {opt}): status "
                            f"{r.status.name} after {r.iterations} iterations with default limits")
            elif abs(r.objective - opt) > 1e-6 * (1 + abs(opt)):
                obs.violate("lp.scale.objective", f"{len(c)} x {len(b)}: OPTIMAL with objective {r.objective}, planted optimum {opt}")
        return

    c, A, b = case["c"], case["A"], case["b"]
    kind = case.get("container", "list")
    if kind == "tuple":  # Sequence[...] arguments: tuples are as valid as lists
        c, A, b = tuple(c), tuple(tuple(r) for r in A), tuple(b)
    elif kind == "mixed":
        A = [tuple(r) if i % 2 else list(r) for i, r in enumerate(A)]
        b = tuple(b)
    senses = [case["minimize"]] + ([not case["minimize"]] if case["both_senses"] else [])
    nontrivial = any(v < 0 for v in b)
    for mn in senses:
        _mon.drain()
        r = call(obs, _simplex.solve_lp, c, A, b, minimize=mn, what="solve_lp", budget=2_000_000, **case["kw"])
        for rec in _mon.drain():
            if rec["fn"] == "solve_lp":
                _mon.judge_simplex(rec, obs)
        if not is_crash(r):
            obs.outcome("simplex:" + r.status.name)
            if r.status.name in ("INFEASIBLE", "UNBOUNDED"):
                nontrivial = True
            elif r.iterations >= 2:
                nontrivial = True
        _mon.drain()
        r2 = call(obs, _ipm.solve_lp_interior, c, A, b, minimize=mn, what="solve_lp_interior", budget=20_000_000,
                  **case["ipm_kw"])
        for rec in _mon.drain():
            if rec["fn"] == "solve_lp_interior":
                _mon.judge_interior(rec, obs)
    obs.nontrivial = nontrivial


def shrink(case):
    if "suite" in case:
        return
    A, b = case["A"], case["b"]
    if case["both_senses"]:
        yield dict(case, both_senses=False)
        yield dict(case, both_senses=False, minimize=not case["minimize"])
    for i in range(len(A)):
        if len(A) > 1:
            yield dict(case, A=A[:i] + A[i + 1:], b=b[:i] + b[i + 1:])
    n = len(case["c"])
    if n > 1:
        for j in range(n):
            yield dict(case, c=case["c"][:j] + case["c"][j + 1:], A=[r[:j] + r[j + 1:] for r in A])
