"""C04 — MILP answers are integer-feasible and OPTIMAL means proven optimal."""

from fractions import Fraction as F

ID = "C04"
RULE = ("seeded small bounded MILPs (n<=4, integer data, explicit bound rows or bounding rows) per stratum, each solved "
        "under several configurations (warm starts feasible/infeasible/wrong length, heuristics on/off, LNS, "
        "solution_limit, max_nodes, min/max) and judged against enumeration of the integer variables x exact LP on "
        "the continuous rest; nested node LPs are judged by the C03 LP oracle; non-trivial = the LP relaxation "
        "optimum is fractional in an integer variable or no integer point exists; distinct = distinct (problem, configs)")
ASSUMPTIONS = ["integer data |v|<=9, integer box implied by the rows (u<=6)", "OPTIMAL tolerance gap_tol*(1+|opt|)+1e-6",
               "a limit status (MAX_ITER) carries no claim and is accepted only when max_nodes or max_iter was set small"]
STRATA = [
    ("bounded", 400, 8000),
    ("binary-explicit", 250, 5000),
    ("looks-binary", 500, 8000),
    ("warm", 200, 4000),
    ("lns", 150, 3000),
    ("multi", 150, 3000),
    ("combo", 500, 8000),
    ("equality", 150, 3000),
    ("infeasible-int", 150, 3000),
    ("max-nodes", 150, 3000),
    ("lp-limit", 400, 6000),
    ("unbounded", 100, 2000),
    ("deep-tree", 150, 3000),
    ("int-ties", 8000, 60000),
    ("wide-coef", 3000, 30000),
    ("inplace-seq", 250, 3000),
    ("many-nodes", 1, 8),
]
BATCH = {"many-nodes": 1}
REQUIRED_EVENTS = {"any": ["milp.judged", "milp.optimal-checked", "milp.solutions-entry-checked", "nested.lp.simplex.judged",
                           "milp.l2.is_feasible", "milp.l2.round_binary"]}

_milp = _lpmon = None
_l2 = {"events": {}, "bad": []}


def _ev(name):
    _l2["events"][name] = _l2["events"].get(name, 0) + 1


def setup():
    global _milp, _lpmon
    import warnings

    from vf.instrument import mod, replace
    from vf.monitors import lp as lpmon

    warnings.simplefilter("ignore")
    lpmon.attach()
    _lpmon = lpmon
    _milp = mod("solvor.milp")

    def rows_ok(x, A, b, int_set, tol=1e-6):
        if x is None:
            return True
        if any(v < -tol for v in x):
            return False
        if any(abs(x[j] - round(x[j])) > tol for j in int_set):
            return False
        return all(sum(r[j] * x[j] for j in range(len(x))) <= bi + tol * (1 + abs(bi)) for r, bi in zip(A, b))

    def f_is_feasible(orig):
        def _is_feasible(x, A, b, int_set, eps):
            r = orig(x, A, b, int_set, eps)
            _ev("milp.l2.is_feasible")
            try:
                if r and not rows_ok(x, A, b, int_set, 1e-5):
                    _l2["bad"].append(("milp.l2.is_feasible-accepted-infeasible", f"x={x}"))
            except Exception:
                pass
            return r

        return _is_feasible

    def f_round(orig):
        def _round_binary(lp_solution, int_set, c, A, b, minimize, eps):
            r = orig(lp_solution, int_set, c, A, b, minimize, eps)
            _ev("milp.l2.round_binary")
            try:
                if r is not None:
                    _ev("milp.l2.round_binary-incumbent")
                    if not rows_ok(r, A, b, int_set, 1e-5):
                        _l2["bad"].append(("milp.l2.heuristic-incumbent-infeasible", f"_round_binary -> {r}"))
            except Exception:
                pass
            return r

        return _round_binary

    def f_lns(orig):
        def _lns_improve(solution, c, A, b, int_set, *a, **k):
            r = orig(solution, c, A, b, int_set, *a, **k)
            _ev("milp.l2.lns_improve")
            try:
                imp = r[0] if isinstance(r, tuple) else r
                if imp is not None:
                    _ev("milp.l2.lns-incumbent")
                    if not rows_ok(imp, A, b, int_set, 1e-5):
                        _l2["bad"].append(("milp.l2.heuristic-incumbent-infeasible", f"_lns_improve -> {imp}"))
            except Exception:
                pass
            return r

        return _lns_improve

    replace("solvor.milp", "_is_feasible", f_is_feasible)
    replace("solvor.milp", "_round_binary", f_round)
    if hasattr(_milp, "_lns_improve"):
        replace("solvor.milp", "_lns_improve", f_lns)


# ------------------------------------------------------------------ generators

def _base(rng, n, m, coefs=(0, 0, 1, 1, 2, 3, -1, -2), rhs=(1, 2, 3, 4, 5, 6, 7, 0, -1, -2)):
    A = [[rng.choice(coefs) for _ in range(n)] for _ in range(m)]
    b = [rng.choice(rhs) for _ in range(m)]
    c = [rng.choice([1, -1, 2, -2, 3, -3, 0, 4, -5]) for _ in range(n)]
    return c, A, b


def _bound_rows(rng, n, A, b, umax=5, binary=False):
    for j in range(n):
        row = [0] * n
        row[j] = 1
        A.append(row)
        b.append(1 if binary else rng.randint(1, umax))


def gen(stratum, rng, tier):
    if stratum == "many-nodes":
        # 0/1 programs with two subset-sum equalities that share one planted solution (a needle: usually the only
        # feasible point): branch and bound needs of the order of a thousand nodes and - on about half of them - more
        # than 10 000 simplex iterations in total before it gets there.  The limits of the search (per-LP iteration
        # cap, node limit) are per-call quantities, whatever the size of the tree.  Judged by the planted certificate.
        subs = []
        for _ in range(3 if tier == "quick" else 5):
            n = rng.randint(17, 18)
            pick = [rng.random() < 0.5 for _ in range(n)]
            A, b = [], []
            for _k in range(2):
                row = [rng.randint(3, 40) for _ in range(n)]
                t = sum(v for v, p in zip(row, pick) if p)
                A += [row, [-v for v in row]]
                b += [t, -t]
            for j in range(n):
                r = [0] * n
                r[j] = 1
                A.append(r)
                b.append(1)
            subs.append({"kind": "bin", "c": [rng.randint(1, 30) for _ in range(n)], "A": A, "b": b, "ints": list(range(n)),
                         "minimize": rng.random() < 0.5, "rounds": 1, "cfg": {}, "planted": [int(p) for p in pick]})
        return {"kind": "bin-multi", "subs": subs}
    if stratum == "int-ties":
        # small pure-integer programs with tied costs and coefficients (many LP bounds coincide, many optimal points):
        # whatever order the tree is searched in, OPTIMAL needs every open node to be unable to beat the incumbent
        n = rng.randint(2, 4)
        U = rng.randint(1, 3)
        pool = rng.choice([[1, 1, 2], [1, 2, 3], [1, 1, 1, 2, -1], [2, 3, -1, -2], [1, 2, 3, 4, 5]])
        A = [[rng.choice(pool + [0]) for _ in range(n)] for _ in range(rng.randint(1, 3))]
        b = [rng.randint(1, 7) for _ in A]
        for j in range(n):
            r = [0] * n
            r[j] = 1
            A.append(r)
            b.append(U)
        cfg = rng.choice([{}, {}, {}, {"heuristics": False}, {"gap_tol": 1e-9}])
        return {"kind": "bin", "box": U, "c": [rng.choice([1, 1, 2, -1, -1, -2, 3, 0]) for _ in range(n)], "A": A, "b": b,
                "ints": list(range(n)), "minimize": rng.random() < 0.5, "rounds": 1, "cfg": cfg}
    if stratum == "wide-coef":
        # integer data whose magnitudes are spread over two or three decades (a row like -100x + y <= 0 next to
        # -x - 100y <= -1): ratios in the simplex ratio test then differ by ~1e-6, which a pivot tolerance as coarse as
        # the integrality tolerance takes for ties
        n = rng.randint(2, 3)
        U = rng.randint(3, 6)
        M = rng.choice([100, 100, 200, 1000])
        pool = [M, -M, 1, -1, 1, -1, 0, M + 1]
        A = [[rng.choice(pool) for _ in range(n)] for _ in range(rng.randint(2, 3))]
        b = [rng.choice([0, -1, 1, -2, 2, -M, M // 2]) for _ in A]
        for j in range(n):
            r = [0] * n
            r[j] = 1
            A.append(r)
            b.append(U)
        cfg = rng.choice([{}, {}, {"heuristics": False}])
        return {"kind": "bin", "box": U, "c": [rng.choice([M, -M, 1, -1, 0]) for _ in range(n)], "A": A, "b": b,
                "ints": list(range(n)), "minimize": rng.random() < 0.5, "rounds": 1, "cfg": cfg}
    if stratum == "inplace-seq":
        # k-best enumeration the way callers write it: ONE constraint matrix, a no-good cut appended in place after each
        # solve, same seed, LNS on - every round is a new problem and has to be answered as such
        if rng.random() < 0.6:
            # two knapsack rows, similar values, many LNS passes: the rounded incumbent of the next round is the one of
            # this round, so that anything remembered about "the same" sub-problem is remembered about another problem
            n = rng.randint(8, 10)
            A = [[rng.randint(5, 30) for _ in range(n)] for _ in range(2)]
            b = [sum(r) * rng.choice([40, 45, 50]) // 100 for r in A]
            for j in range(n):
                r = [0] * n
                r[j] = 1
                A.append(r)
                b.append(1)
            return {"kind": "bin", "c": [rng.randint(10, 25) for _ in range(n)], "A": A, "b": b, "ints": list(range(n)),
                    "minimize": False, "rounds": 4, "cfg": {"lns_iterations": rng.choice([10, 20, 20, 30]), "seed": rng.randint(0, 99)},
                    "cut": "support"}
        n = rng.randint(4, 9)
        hi = rng.choice([9, 30])
        A = [[rng.randint(1, hi) for _ in range(n)] for _ in range(rng.randint(1, 2))]
        b = [max(1, sum(r) * rng.choice([3, 4, 5, 6]) // 10) for r in A]
        for j in range(n):
            r = [0] * n
            r[j] = 1
            A.append(r)
            b.append(1)
        cfg = {"lns_iterations": rng.choice([1, 2, 4, 8, 10, 15]), "seed": rng.randint(0, 99)}
        if rng.random() < 0.2:
            cfg = {"heuristics": rng.random() < 0.5}
        return {"kind": "bin", "c": [rng.randint(1, 12) for _ in range(n)], "A": A, "b": b, "ints": list(range(n)),
                "minimize": False, "rounds": rng.randint(2, 5), "cfg": cfg,
                "cut": rng.choice(["support", "support", "point"])}
    n = rng.randint(1, 4)
    m = rng.randint(1, 4)
    minimize = rng.random() < 0.5
    c, A, b = _base(rng, n, m)
    ints = sorted(rng.sample(range(n), rng.randint(1, n)))
    configs = [{}]
    if stratum == "bounded":
        _bound_rows(rng, n, A, b)
        configs += [{"heuristics": False}]
        if rng.random() < 0.3:
            ints = list(range(n))
    elif stratum == "binary-explicit":
        n = rng.randint(2, 7)
        c, A, b = _base(rng, n, rng.randint(1, 3), coefs=(1, 2, 3, 4, 5, 0), rhs=(2, 3, 4, 5, 6, 7))
        ints = list(range(n)) if rng.random() < 0.7 else sorted(rng.sample(range(n), rng.randint(1, n)))
        _bound_rows(rng, n, A, b, binary=True)
        if rng.random() < 0.7:
            c = [-abs(v) - 1 for v in c] if minimize else [abs(v) + 1 for v in c]  # knapsack-like
        configs += [{"heuristics": False}, {"lns_iterations": rng.randint(1, 4), "seed": rng.randint(0, 99)}]
    elif stratum == "looks-binary":
        # LP optimum lies in [0,1] for the integer variables (and is fractional) but there are no x<=1 rows, only
        # wider bounds: no tightening to binary is allowed.  Rejection-sampled with the exact LP oracle.
        from vf.oracles import lp as olp

        want_trap = rng.random() < 0.6
        for _ in range(150):
            n = rng.randint(2, 3)
            pseudo = rng.random() < 0.5
            ints = list(range(n)) if not pseudo else sorted(rng.sample(range(n), rng.randint(1, n - 1)))
            A = [[rng.choice([-2, -1, 0, 1, 2, 3, 4, 5]) for _ in range(n)] for _ in range(rng.randint(1, 3))]
            b = [rng.choice([1, 2, 3, 4, 5, 6, 7]) for _ in A]
            for j in range(n):
                row = [0] * n
                row[j] = 1
                A.append(row)
                b.append(rng.choice([2, 3]))
            c = [rng.choice([1, 2, 3, 4, 5, -1, -2]) for _ in range(n)]
            if pseudo:
                # structured family: integer x_j with rows "x_j - a*y <= 1" (right-hand side 1, the only *integer*
                # entry is +1, but a continuous variable relaxes it: NOT an upper bound x_j <= 1), a tight coupling
                # row that makes the LP optimum fractional inside the unit box, y penalised lightly
                k = rng.randint(1, 2)
                n = k + 1
                ints = list(range(k))
                A, b = [], []
                for j in ints:
                    row = [0] * n
                    row[j] = 1
                    if j == 0 or rng.random() < 0.6:
                        row[k] = -rng.choice([1, 1, 2])
                    A.append(row)
                    b.append(1)
                A.append([rng.choice([1, 2, 3, 4, 5]) for _ in ints] + [rng.choice([0, 0, -1])])
                b.append(rng.choice([2, 3, 4, 5]))
                for j in range(n):
                    row = [0] * n
                    row[j] = 1
                    A.append(row)
                    b.append(rng.choice([2, 3]))
                order = list(range(len(A)))
                rng.shuffle(order)
                A = [A[i] for i in order]
                b = [b[i] for i in order]
                c = [rng.choice([1, 2, 3, 5, 8, 10]) for _ in ints] + [-rng.choice([0, 1, 1, 2])]
                if minimize:
                    c = [-v for v in c]
            st, x, _ = olp.solve_exact(c, A, b, minimize)
            if st == "optimal" and all(0 <= x[j] <= 1 for j in ints) and any(x[j].denominator != 1 for j in ints):
                if not want_trap:
                    break
                # trap: the LP optimum sits in the unit box but the true integer optimum needs a value >= 2
                box = {j: (0, 3) for j in ints}
                mst, mx, _ = olp.milp_exact(c, A, b, ints, minimize, box)
                if mst == "optimal" and any(mx[j] >= 2 for j in ints):
                    break
        configs += [{"heuristics": False}, {"lns_iterations": 2, "seed": 1}]
    elif stratum == "warm":
        if rng.random() < 0.5 and n >= 2:
            ints = sorted(rng.sample(range(n), rng.randint(1, n - 1)))  # mixed: at least one continuous variable
        _bound_rows(rng, n, A, b, binary=rng.random() < 0.5)
        ws = []
        for _ in range(3):
            kind = rng.random()
            if kind < 0.25:
                w = [rng.randint(0, 2) for _ in range(n + rng.choice([-1, 1]))]  # wrong length
            elif kind < 0.4:
                w = [rng.choice([0, 1, 5, 7, 0.5]) for _ in range(n)]  # likely infeasible / fractional
            elif kind < 0.55:
                # row-feasible-looking but with a negative entry (x >= 0 must be checked for every variable,
                # continuous ones included)
                w = [rng.randint(0, 2) for _ in range(n)]
                w[rng.randrange(n)] = rng.choice([-1, -2, -0.5, -1.5])
            else:
                w = [rng.randint(0, 1) for _ in range(n)]
            ws.append(w)
        configs = [{}] + [{"warm_start": w} for w in ws] + [{"warm_start": ws[0], "heuristics": False}]
    elif stratum == "lns":
        n = rng.randint(2, 7)
        c, A, b = _base(rng, n, rng.randint(1, 3), coefs=(1, 2, 3, 4, 0), rhs=(2, 3, 4, 5, 6))
        ints = list(range(n))
        _bound_rows(rng, n, A, b, binary=True)
        c = [-(abs(v) + 1) for v in c] if minimize else [abs(v) + 1 for v in c]
        configs = [{}] + [{"lns_iterations": rng.randint(1, 5), "seed": rng.randint(0, 999),
                           "lns_destroy_frac": rng.choice([0.2, 0.3, 0.5, 0.9])} for _ in range(3)]
    elif stratum == "multi":
        _bound_rows(rng, n, A, b)
        configs = [{"solution_limit": k} for k in rng.sample([2, 3, 4, 5], 2)] + [{"solution_limit": 3, "heuristics": False}]
    elif stratum == "combo":
        # the optional parameters together: warm starts that are integer-feasible but sub-optimal, or an integer
        # point moved by less than the caller's gap_tol (fractional / slightly outside a row), with solution pools,
        # relative gaps, heuristics on/off, LNS and node limits - "warm starts, heuristics and LNS never change
        # the verdicts" is a statement about every combination, and the tolerances are different things
        if rng.random() < 0.4:
            n, m = rng.randint(1, 2), rng.randint(1, 2)
            c, A, b = _base(rng, n, m)
            ints = sorted(rng.sample(range(n), rng.randint(1, n)))
        _bound_rows(rng, n, A, b, umax=6, binary=rng.random() < 0.2)
        if rng.random() < 0.3:
            # scaled rows (20x <= 41): integer points with much slack in absolute terms
            k = rng.randrange(len(A))
            f = rng.choice([5, 10, 20])
            A[k] = [f * v for v in A[k]]
            b[k] = f * b[k] + rng.randint(0, f - 1)
        pts = []
        for _ in range(60):
            x = [rng.randint(0, 6) for _ in range(n)]
            if all(sum(a * v for a, v in zip(row, x)) <= bi for row, bi in zip(A, b)):
                pts.append(x)
        pts.sort(key=lambda x: sum(ci * v for ci, v in zip(c, x)), reverse=minimize)  # worst first
        configs = [{}]
        for _ in range(5):
            cfg = {}
            gap = rng.choice([None, None, 0.01, 0.05, 0.05, 0.2])
            if gap is not None:
                cfg["gap_tol"] = gap
            r = rng.random()
            if pts and r < 0.8:
                w = [float(v) if rng.random() < 0.3 else v for v in rng.choice(pts[: max(1, len(pts) // 2)] if rng.random() < 0.6 else pts)]
                if rng.random() < 0.5:
                    d = rng.choice([0.004, 0.03, 0.04, 0.15]) if gap is None else gap * rng.choice([0.5, 0.8, 0.99])
                    j = rng.randrange(n)
                    better = (c[j] < 0) == minimize  # moving x_j up improves the objective
                    w[j] = w[j] + d if (better or w[j] < d) else w[j] - d
                cfg["warm_start"] = w
            if rng.random() < 0.5:
                cfg["solution_limit"] = rng.choice([2, 2, 3, 4])
            if rng.random() < 0.3:
                cfg["heuristics"] = False
            if rng.random() < 0.25:
                cfg["lns_iterations"] = rng.randint(1, 3)
                cfg["seed"] = rng.randint(0, 99)
            if rng.random() < 0.15:
                cfg["max_nodes"] = rng.choice([1, 2, 3, 5, 8])
            configs.append(cfg)
    elif stratum == "equality":
        row = [rng.choice([1, 1, 2, 3, 0]) for _ in range(n)]
        beta = rng.randint(1, 7)
        A += [row, [-v for v in row]]
        b += [beta, -beta]
        _bound_rows(rng, n, A, b)
        configs += [{"heuristics": False}]
    elif stratum == "infeasible-int":
        # LP feasible but (likely) no integer point: 2x = odd, or narrow slabs
        n = rng.randint(1, 3)
        ints = list(range(n))
        row = [rng.choice([2, 2, 4]) for _ in range(n)]
        beta = rng.choice([1, 3, 5, 7])
        A = [row, [-v for v in row]]
        b = [beta, -beta]
        if rng.random() < 0.5:
            # slab k < a.x < k+1
            row = [rng.choice([2, 3, 5]) for _ in range(n)]
            A = [[3 * v for v in row], [-3 * v for v in row]]
            k = rng.randint(1, 4)
            b = [3 * k + 2, -(3 * k + 1)]
        _bound_rows(rng, n, A, b)
        c = [rng.choice([1, -1, 2]) for _ in range(n)]
        configs += [{"heuristics": False}, {"max_nodes": 3}]
    elif stratum == "max-nodes":
        n = rng.randint(2, 4)
        c, A, b = _base(rng, n, rng.randint(1, 3))
        ints = list(range(n))
        _bound_rows(rng, n, A, b)
        configs = [{"max_nodes": k, "heuristics": h} for k in (1, 2, 3, 5) for h in (True, False)][: rng.randint(3, 8)]
    elif stratum == "lp-limit":
        # a caller-supplied limit on simplex iterations per relaxation (0, 1, 2, ...): a relaxation that ran out of
        # iterations proves nothing - its point must not come back as a solution, its node is not infeasible
        n = rng.randint(2, 4)
        c, A, b = _base(rng, n, rng.randint(1, 3))
        ints = list(range(n)) if rng.random() < 0.7 else sorted(rng.sample(range(n), rng.randint(1, n)))
        _bound_rows(rng, n, A, b)
        if rng.random() < 0.5:
            # a negative right-hand side: the relaxation needs phase 1, which is what eats a small budget
            row = [rng.choice([0, 1, 1, 2]) for _ in range(n)]
            if any(row):
                A.append([-v for v in row])
                b.append(-rng.randint(1, 3))
        configs = [{"max_iter": k, "heuristics": h} for k in (0, 1, 2, 3, 4, 6, 9) for h in (True, False)]
        rng.shuffle(configs)
        configs = configs[: rng.randint(3, 6)]
    elif stratum == "deep-tree":
        # general integers with coprime coefficients: the branch-and-bound tree is several levels deep and the
        # optimum frequently sits in a right (>= ceil) branch below depth 2
        n = rng.randint(3, 4)
        ints = list(range(n))
        coef = rng.sample([3, 4, 5, 7, 9, 11, 13], n)
        A = [coef]
        b = [rng.randint(20, 45)]
        if rng.random() < 0.5:
            A.append([rng.choice([1, 2, 3, 5]) for _ in range(n)])
            b.append(rng.randint(8, 20))
        for j in range(n):
            row = [0] * n
            row[j] = 1
            A.append(row)
            b.append(rng.randint(3, 6))
        c = [a + rng.choice([-2, -1, 0, 1, 2, 3]) for a in coef]
        if minimize:
            c = [-v for v in c]
        configs = [{"heuristics": False}, {}]
    elif stratum == "unbounded":
        # no bound rows: the relaxation may be unbounded.  With an infinite integer domain branch and bound only
        # stops at max_nodes (default 100 000 nodes = minutes of honest work), so an explicit small node limit is
        # used here; every status is still judged (a limit status carries no claim)
        configs = [{"max_nodes": 300}, {"heuristics": False, "max_nodes": 300}]
    else:
        raise ValueError(stratum)
    return {"c": c, "A": A, "b": b, "ints": ints, "minimize": minimize, "configs": configs,
            "container": rng.choice(["list", "list", "tuple"])}


# ------------------------------------------------------------------ oracle + judge

def _oracle(case):
    from vf.oracles import lp as olp

    c, A, b, ints = case["c"], case["A"], case["b"], case["ints"]
    n, m = len(c), len(b)
    if not olp.within_bounds(m, n):
        # too many vertices for the exact LP: a pure integer program whose variables all carry an explicit
        # single-variable bound row can still be enumerated directly (relaxation verdicts are then not judged)
        if len(set(ints)) == n:
            box = {}
            for row, rhs in zip(A, b):
                nz = [j for j in range(n) if row[j] != 0]
                if len(nz) == 1 and row[nz[0]] > 0 and rhs >= 0:
                    j = nz[0]
                    u = int(rhs // row[j])
                    box[j] = (0, min(u, box.get(j, (0, u))[1]))
            size = 1
            for lo, hi in box.values():
                size *= hi - lo + 1
            if len(box) == n and size <= 5000:
                return {"relax": None, "milp": olp.milp_exact(c, A, b, ints, case["minimize"], box)}
        return None
    Af = [[F(v) for v in r] for r in A]
    bf = [F(v) for v in b]
    relax = olp.solve_exact([F(v) for v in c], Af, bf, case["minimize"])
    out = {"relax": relax}
    if relax[0] == "infeasible":
        out["milp"] = ("infeasible", None, None)
        return out
    # integer box from the exact LP: max x_j over the relaxation
    box = {}
    for j in ints:
        e = [F(0)] * n
        e[j] = F(1)
        st, _, val = olp.solve_exact(e, Af, bf, minimize=False)
        if st != "optimal" or val > 8:
            out["milp"] = None  # integer variable unbounded / too wide: enumeration impossible
            return out
        box[j] = (0, int(val))  # floor
    size = 1
    for lo, hi in box.values():
        size *= hi - lo + 1
    if size > 3000:
        out["milp"] = None
        return out
    out["milp"] = olp.milp_exact(c, A, b, ints, case["minimize"], box)
    return out


def _feasible_point(case, x, tag, obs):
    c, A, b, ints = case["c"], case["A"], case["b"], case["ints"]
    if x is None or len(x) != len(c):
        obs.violate(f"milp.{tag}-shape", f"{x!r}")
        return False
    for j, v in enumerate(x):
        if not v >= -1e-6:
            obs.violate(f"milp.{tag}-negative", f"x[{j}]={v} in {x}")
            return False
    for j in ints:
        if abs(x[j] - round(x[j])) > 1e-6:
            obs.violate(f"milp.{tag}-not-integral", f"x[{j}]={x[j]} in {x}")
            return False
    for i, row in enumerate(A):
        lhs = sum(a * v for a, v in zip(row, x))
        if not lhs <= b[i] + 1e-6 * (1 + abs(b[i])):
            obs.violate(f"milp.{tag}-row-violated", f"row {i} {row}.x={lhs}>{b[i]} x={x}")
            return False
    return True


def _run_bin(case, obs):
    """Pure 0/1 programs judged by complete enumeration; `rounds` > 1: the same A / b objects get a no-good cut appended
    in place after every solve."""
    from itertools import product

    from vf.common import call, is_crash

    c, ints, minimize, cfg = case["c"], case["ints"], case["minimize"], dict(case["cfg"])
    A = [list(r) for r in case["A"]]  # this object is handed to every round
    b = list(case["b"])
    n = len(c)
    obs.mode("exact")
    obs.nontrivial = True
    planted = case.get("planted")
    for rnd in range(case["rounds"]):
        best, arg = None, None
        if planted is not None:
            # too many points to enumerate: the planted point proves feasibility and bounds the optimum from one side
            best, arg = sum(ci * v for ci, v in zip(c, planted)), tuple(planted)
        else:
            for x in product(range(case.get("box", 1) + 1), repeat=n):
                if all(sum(a * v for a, v in zip(row, x)) <= rhs for row, rhs in zip(A, b)):
                    val = sum(ci * v for ci, v in zip(c, x))
                    if best is None or (val < best if minimize else val > best):
                        best, arg = val, x
        _lpmon.drain()
        res = call(obs, _milp.solve_milp, c, A, b, ints, minimize=minimize, what=f"solve_milp[round {rnd}]",
                   budget=3_000_000_000 if n > 10 else 60_000_000, **cfg)
        _lpmon.drain()
        _l2["events"].clear()
        _l2["bad"].clear()
        if is_crash(res):
            return
        st = res.status.name
        obs.outcome(st)
        obs.event("milp.judged")
        tag = f"round {rnd} ({len(A)} rows, cfg={cfg})"
        if st in ("OPTIMAL", "FEASIBLE"):
            if not _feasible_point({"c": c, "A": A, "b": b, "ints": ints}, res.solution, "solution", obs):
                return
            val = sum(ci * v for ci, v in zip(c, res.solution))
            if abs(val - res.objective) > 1e-6 * (1 + abs(val)):
                obs.violate("milp.objective-not-cx", f"{tag}: reported {res.objective}, c.x={val}")
                return
            if best is None:
                obs.inconc("enumeration found no point but the returned one passed the certificate")
                return
            if st == "OPTIMAL":
                obs.event("milp.optimal-checked")
                worse = (val > best + 1e-6 * (1 + abs(best))) if minimize else (val < best - 1e-6 * (1 + abs(best)))
                if worse or (planted is None and abs(val - best) > 1e-6 * (1 + abs(best))):
                    obs.violate("milp.optimal-not-optimal", f"{tag}: OPTIMAL obj={res.objective}, but {arg} is feasible with value {best}")
                    return
                if planted is not None:
                    obs.event("milp.many-nodes.lp-iterations-over-10000" if (res.evaluations or 0) > 10000 else "milp.many-nodes.lp-iterations-under-10000")
        elif st == "INFEASIBLE":
            obs.event("milp.infeasible-checked")
            if best is not None:
                obs.violate("milp.infeasible-but-feasible", f"{tag}: INFEASIBLE although {arg} (value {best}) is integer-feasible")
            return
        else:
            obs.violate("milp.unexpected-status", f"{tag}: {st} with default limits")
            return
        # the caller's no-good cut, appended to the same objects
        x = [int(round(v)) for v in res.solution]
        ones = sum(x)
        if case.get("cut", "support") == "support" and ones:
            A.append(list(x))  # "not this packing nor any that contains it"
        else:
            A.append([1 if v else -1 for v in x])  # exactly this point
        b.append(ones - 1)
        obs.event("milp.inplace-cut-appended")


def run(case, obs):
    from vf.common import call, is_crash

    if case.get("kind") == "bin":
        return _run_bin(case, obs)
    if case.get("kind") == "bin-multi":
        for sub in case["subs"]:
            _run_bin(sub, obs)
        return
    c, A, b, ints = case["c"], case["A"], case["b"], case["ints"]
    orc = _oracle(case)
    if orc is None or orc.get("milp") is None:
        obs.mode("certificate_only")
    else:
        obs.mode("exact")
    relax = orc["relax"] if orc else None
    mo = orc["milp"] if orc else None
    if relax and relax[0] == "optimal" and any(relax[1][j].denominator != 1 for j in ints):
        obs.nontrivial = True
    if mo and mo[0] == "infeasible":
        obs.nontrivial = True
    if orc and orc.get("relax") is None and mo is not None:
        obs.nontrivial = True  # 6-7 binary variables with knapsack rows: the relaxation is fractional in practice
        obs.mode("exact-enumeration-only")
    for cfg in case["configs"]:
        _lpmon.drain()
        _l2["bad"].clear()
        if case.get("container") == "tuple":  # Sequence[...] arguments: tuples are as valid as lists
            args = (tuple(c), tuple(tuple(r) for r in A), tuple(b), tuple(ints))
        else:
            args = (c, A, b, ints)
        res = call(obs, _milp.solve_milp, *args, minimize=case["minimize"], what="solve_milp", budget=30_000_000, **cfg)
        for rec in _lpmon.drain():
            if rec["fn"] == "solve_lp":
                _lpmon.judge_simplex(rec, obs, prefix="nested.")
        for k, v in _l2["events"].items():
            obs.event(k, v)
        _l2["events"].clear()
        for name, detail in _l2["bad"]:
            obs.event("ANOMALY." + name)
            obs.mech.add(name)
        if is_crash(res):
            continue
        st = res.status.name
        obs.outcome(st)
        obs.event("milp.judged")
        small_limit = cfg.get("max_nodes", 10**9) <= 1000 or cfg.get("max_iter", 10**9) <= 1000
        if st in ("OPTIMAL", "FEASIBLE"):
            ok = _feasible_point(case, res.solution, "solution", obs)
            if ok:
                cx = sum(ci * v for ci, v in zip(c, res.solution))
                if abs(cx - res.objective) > 1e-6 * (1 + abs(cx)):
                    obs.violate("milp.objective-not-cx", f"reported {res.objective}, c.x={cx}, x={res.solution}, cfg={cfg}")
            for k, s in enumerate(res.solutions or ()):
                obs.event("milp.solutions-entry-checked")
                _feasible_point(case, s, "solutions-entry", obs)
            if mo is not None:
                if mo[0] == "infeasible" and ok:
                    obs.inconc("oracle says no integer point but the returned point passed the certificate")
                if st == "OPTIMAL" and mo[0] == "optimal" and ok:
                    obs.event("milp.optimal-checked")
                    opt = float(mo[2])
                    gap_tol = cfg.get("gap_tol", 1e-6)
                    if abs(res.objective - opt) > gap_tol * (1 + abs(opt)) + 1e-6:
                        obs.violate("milp.optimal-not-optimal", f"OPTIMAL obj={res.objective}, true optimum {opt} at "
                                    f"{[str(v) for v in mo[1]]}; cfg={cfg}")
                if mo[0] == "unbounded":
                    obs.event("milp.oracle-unbounded")
        elif st == "INFEASIBLE":
            if mo is not None:
                obs.event("milp.infeasible-checked")
                if mo[0] == "optimal":
                    obs.violate("milp.infeasible-but-feasible", f"INFEASIBLE although {[str(v) for v in mo[1]]} is integer-feasible; cfg={cfg}")
        elif st == "UNBOUNDED":
            if relax is not None:
                obs.event("milp.unbounded-checked")
                if relax[0] != "unbounded":
                    obs.violate("milp.unbounded-but-relaxation-bounded", f"UNBOUNDED, relaxation is {relax[0]}; cfg={cfg}")
        elif st == "MAX_ITER":
            obs.event("milp.limit-status")
            if res.solution is not None:
                _feasible_point(case, res.solution, "solution", obs)
            if not small_limit and mo is not None:
                obs.violate("milp.gave-up-without-limit", f"MAX_ITER with default limits on a tiny instance; cfg={cfg}")
        else:
            obs.violate("milp.unexpected-status", st)


def shrink(case):
    if len(case["configs"]) > 1:
        for cfg in case["configs"]:
            yield dict(case, configs=[cfg])
    A, b = case["A"], case["b"]
    for i in range(len(A)):
        if len(A) > 1:
            yield dict(case, A=A[:i] + A[i + 1:], b=b[:i] + b[i + 1:])
