"""C05 — CP Model.solve never returns an assignment that breaks an added constraint."""

from vf.gen import cpgen
from vf.oracles import cp as ocp

ID = "C05"
RULE = ("seeded CP model specs per stratum (natively supported shapes, full operator grammar, global constraints, sums "
        "with repeated variables, anonymous variables, mixtures, hints) built through the public constructors and "
        "operators, each solved with solver in {auto,dfs,sat} x solution_limit in {1,3,100} (x hints) and judged "
        "against an independent evaluator over the full domain product; non-trivial = at least one constraint "
        "excludes a tuple and the model has >= 2 candidate assignments; distinct = distinct (spec, hints)")
ASSUMPTIONS = ["<= 5 variables, domain product <= 4096", "circuit on a single node excluded (self-loop convention not fixed)",
               "no_overlap pairs with a zero duration are judged leniently (either convention accepted)",
               "anonymous variables are existentially quantified: the returned named assignment must be extendable"]
QUICK_SCALE = 3  # quick-tier multiplier (idle 16-core timing: ~10 s at scale 1)
STRATA = [
    ("supported", 500, 9000),
    ("grammar", 700, 12000),
    ("global", 350, 6000),
    ("cumulative-wide", 40, 600),
    ("sums", 250, 4000),
    ("anonymous", 250, 4000),
    ("mixed", 300, 5000),
    ("planted-unique", 600, 10000),
    ("hints", 300, 5000),
]
REQUIRED_EVENTS = {"any": ["cp.solution-checked", "cp.infeasible-checked", "cp.l2.encode_constraint", "cp.l2.propagate_constraint",
                           "nested.sat.calls", "cp.solutions-entry-checked"]}

_cp = _enc = _satmon = None
_l2 = {"enc": {}, "prop": {}}


def setup():
    global _cp, _enc, _satmon
    from vf.instrument import mod, replace_method
    from vf.monitors import sat as satmon

    satmon.attach()
    _satmon = satmon
    _cp = mod("solvor.cp")
    _enc = mod("solvor.cp_encoder")

    def f_enc(orig):
        def _encode_constraint(self, constraint):
            # bookkeeping on private state: whatever goes wrong here is the monitor's trouble, never the solver's
            try:
                before = len(self._clauses)
            except Exception:
                before = None
            r = orig(self, constraint)
            try:
                d = _l2["enc"].setdefault(id(constraint), [0, 0])
                d[0] += 1
                if before is not None:
                    d[1] += len(self._clauses) - before
            except Exception:
                pass
            return r

        return _encode_constraint

    def f_prop(orig):
        def _propagate_constraint(self, constraint, domains):
            try:
                before = sum(len(d) for d in domains.values())
            except Exception:
                before = None
            r = orig(self, constraint, domains)
            try:
                d = _l2["prop"].setdefault(id(constraint), [0, 0])
                d[0] += 1
                if r is False or (before is not None and sum(len(x) for x in domains.values()) < before):
                    d[1] += 1
            except Exception:
                pass
            return r

        return _propagate_constraint

    replace_method(_enc.SATEncoder, "_encode_constraint", f_enc)
    replace_method(_cp.Model, "_propagate_constraint", f_prop)


def gen(stratum, rng, tier):
    base = stratum
    if stratum == "hints":
        base = rng.choice(["supported", "grammar", "global", "mixed", "sums", "planted-unique"])
    spec = cpgen.gen_spec(base, rng)
    case = {"spec": spec, "hints": [None], "limits": rng.sample([1, 3, 100], 2)}
    if rng.random() < 0.3 and len(spec["vars"]) <= 4:
        from vf.gen.cpgen import C, V

        nv = len(spec["vars"])
        lb = rng.choice([0, 0, 1, -1])
        j = rng.randrange(nv)
        r = rng.random()
        if r < 0.35:
            con = ("rel", rng.choice(["eq", "ne"]), V(nv), V(j))
        elif r < 0.7:
            con = ("sum_le", [j, nv, rng.randrange(nv)], spec["vars"][j][2] + lb + 1)
        elif r < 0.85:
            con = ("all_different", [j, nv])
        else:
            con = ("sum_eq", [j, nv, rng.randrange(nv)], spec["vars"][j][1] + lb + rng.randint(0, 3))
        case["extend"] = {"vars": [("w_new", lb, lb + rng.randint(0, 2))], "cons": [con]}
    if rng.random() < 0.35:
        # documented pass-through of solver options (Model.solve(**kwargs) -> solve_sat): restart schedules that make
        # the small encoded formulas restart, which they never do at the default luby_factor=100
        case["sat_kw"] = {"luby_factor": rng.choice([1, 1, 2, 3])}
    if stratum == "hints":
        hs = []
        for _ in range(3):
            h = {}
            for name, lb, ub in spec["vars"]:
                if name is None or rng.random() < 0.4:
                    continue
                r = rng.random()
                if r < 0.7:
                    h[name] = rng.randint(lb, ub)
                elif r < 0.85:
                    h[name] = ub + rng.randint(1, 3)  # out of domain
                else:
                    h[name] = lb - 1
            if rng.random() < 0.1:
                h["nosuchvar"] = 1
            hs.append(h)
        case["hints"] = hs
    return case


def _judge_solution(spec, named, S, sol, tag, obs, cfg):
    if not isinstance(sol, dict):
        obs.violate(f"cp.{tag}-not-a-dict", f"{sol!r} cfg={cfg}")
        return
    names = [spec["vars"][i][0] for i in named]
    missing = [n for n in names if n not in sol]
    if missing:
        obs.violate(f"cp.{tag}-missing-variable", f"{missing} missing from {sol} cfg={cfg}")
        return
    for i in named:
        name, lb, ub = spec["vars"][i]
        v = sol[name]
        if not (isinstance(v, int) and lb <= v <= ub):
            obs.violate(f"cp.{tag}-outside-domain", f"{name}={v!r} not in [{lb},{ub}] cfg={cfg}")
            return
    tup = tuple(sol[n] for n in names)
    if tup not in S:
        # name the broken constraint when all variables are named
        detail = ""
        if len(named) == len(spec["vars"]):
            for c in spec["cons"]:
                if not ocp.holds(c, list(tup)):
                    detail = f" breaks {c}"
                    break
        obs.violate(f"cp.{tag}-violates-constraint", f"{sol}{detail}; cfg={cfg}")


def run(case, obs):
    from vf.common import call, is_crash

    spec = case["spec"]
    if ocp.domain_product_size(spec) > 4096 * 2:
        obs.inconc("spec above oracle bound")
        return
    S = ocp.solution_set(spec)
    # zero-duration tasks in no_overlap: either convention is accepted, so a returned assignment is judged against
    # the lenient solution set and an INFEASIBLE answer against the strict one
    S_strict = ocp.solution_set(spec, lenient=False) if ocp.has_zero_duration_no_overlap(spec) else S
    named = [i for i, v in enumerate(spec["vars"]) if v[0] is not None]
    total = 1
    for i in named:
        total *= spec["vars"][i][2] - spec["vars"][i][1] + 1
    excl = [ocp.excludes_something(c, spec) for c in spec["cons"]]
    obs.nontrivial = any(excl) and total >= 2
    obs.mode("exact")
    sat_outcomes = {}
    for hints in case["hints"]:
        for solver in ("auto", "dfs", "sat"):
            for limit in case["limits"]:
                cfg = {"solver": solver, "solution_limit": limit, "hints": hints}
                try:
                    model, xs, built = ocp.build(spec, _cp.Model)
                except ocp.Unbuildable as e:
                    obs.outcome("unbuildable")
                    obs.nontrivial = False
                    return
                _l2["enc"].clear()
                _l2["prop"].clear()
                _satmon.drain()
                kw = {"solver": solver, "solution_limit": limit}
                kw.update(case.get("sat_kw") or {})
                cfg.update(case.get("sat_kw") or {})
                if hints is not None:
                    kw["hints"] = dict(hints)
                res = call(obs, model.solve, what=f"Model.solve({solver})", budget=60_000_000, **kw)
                # nested SAT calls: certificate/verdict judged as events (mechanism evidence), not violations here
                from vf.common import Obs

                for rec in _satmon.drain():
                    obs.event("nested.sat.calls")
                    o2 = Obs()
                    _satmon.judge_c01(rec, o2)
                    _satmon.judge_c02(rec, o2)
                    for cls, _d in o2.violations:
                        obs.event("nested.ANOMALY." + cls)
                        obs.mech.add(cls)
                    for name, n in rec["l2"].items():
                        if name in ("backtrack-wrong-prefix", "learned-not-entailed", "blocking-dropped"):
                            obs.event("nested.ANOMALY.sat." + name, n)
                # dropped-constraint events
                for k, c in enumerate(built):
                    e = _l2["enc"].get(id(c))
                    if e:
                        obs.event("cp.l2.encode_constraint", e[0])
                        if excl[k] and e[1] == 0:
                            obs.event("cp.l2.ANOMALY.encoder-emitted-no-clause")
                            obs.mech.add("cp.sat.dropped-constraint")
                    p = _l2["prop"].get(id(c))
                    if p:
                        obs.event("cp.l2.propagate_constraint", p[0])
                if is_crash(res):
                    continue
                st = res.status.name
                obs.outcome(f"{solver}:{st}")
                sat_outcomes[(solver, limit, repr(hints))] = st
                if st in ("OPTIMAL", "FEASIBLE"):
                    obs.event("cp.solution-checked")
                    _judge_solution(spec, named, S, res.solution, "solution", obs, cfg)
                    for s in res.solutions or ():
                        obs.event("cp.solutions-entry-checked")
                        _judge_solution(spec, named, S, s, "solutions-entry", obs, cfg)
                    if not S and not obs.violations:
                        obs.violate("cp.solution-for-unsatisfiable-model", f"{res.solution} cfg={cfg}")
                elif st == "INFEASIBLE":
                    obs.event("cp.infeasible-checked")
                    if S_strict:
                        obs.violate("cp.infeasible-but-satisfiable", f"INFEASIBLE although e.g. {sorted(S_strict)[0]} over "
                                    f"{[spec['vars'][i][0] for i in named]} satisfies everything; cfg={cfg}")
                elif st == "MAX_ITER":
                    obs.event("cp.limit-status")
                else:
                    obs.violate("cp.unexpected-status", f"{st} cfg={cfg}")
                if obs.violations:
                    return
    ext = case.get("extend")
    if ext:
        _run_incremental(case, spec, ext, obs)


def _run_incremental(case, spec, ext, obs):
    """One Model object used the way a session uses it: solved (through the SAT path, so that the encoder has created its
    auxiliary variables), then given another variable and constraint, then solved again - every answer is about the model
    as it stands at that moment."""
    from vf.common import call, is_crash

    try:
        model, xs, _built = ocp.build(spec, _cp.Model)
    except ocp.Unbuildable:
        return
    first = call(obs, model.solve, what="Model.solve(sat) before extending", budget=60_000_000, solver="sat")
    _satmon.drain()
    if is_crash(first):
        return
    try:
        spec2 = ocp.extend(spec, model, xs, ext["vars"], ext["cons"])
    except ocp.Unbuildable:
        return
    if ocp.domain_product_size(spec2) > 4096 * 2:
        return
    S2 = ocp.solution_set(spec2)
    S2_strict = ocp.solution_set(spec2, lenient=False) if ocp.has_zero_duration_no_overlap(spec2) else S2
    named2 = [i for i, v in enumerate(spec2["vars"]) if v[0] is not None]
    for solver in ("sat", "auto", "dfs"):
        cfg = {"solver": solver, "after": "solve(sat) + int_var + add"}
        res = call(obs, model.solve, what=f"Model.solve({solver}) after extending", budget=60_000_000, solver=solver)
        _satmon.drain()
        if is_crash(res):
            continue
        obs.event("cp.incremental.judged")
        st = res.status.name
        if st in ("OPTIMAL", "FEASIBLE"):
            _judge_solution(spec2, named2, S2, res.solution, "solution", obs, cfg)
            if not S2 and not obs.violations:
                obs.violate("cp.solution-for-unsatisfiable-model", f"{res.solution} cfg={cfg}")
        elif st == "INFEASIBLE":
            if S2_strict:
                obs.violate("cp.infeasible-but-satisfiable", f"INFEASIBLE although e.g. {sorted(S2_strict)[0]} over "
                            f"{[spec2['vars'][i][0] for i in named2]} satisfies everything; cfg={cfg}")
        if obs.violations:
            return


def shrink(case):
    spec = case["spec"]
    if len(case["hints"]) > 1:
        for h in case["hints"]:
            yield dict(case, hints=[h])
    if len(case["limits"]) > 1:
        for l in case["limits"]:
            yield dict(case, limits=[l])
    cons = spec["cons"]
    for i in range(len(cons)):
        if len(cons) > 1:
            yield dict(case, spec=dict(spec, cons=cons[:i] + cons[i + 1:]))
    # narrow domains
    for i, (name, lb, ub) in enumerate(spec["vars"]):
        if ub > lb:
            for nv in ((name, lb + 1, ub), (name, lb, ub - 1)):
                vs = list(spec["vars"])
                vs[i] = nv
                yield dict(case, spec=dict(spec, vars=vs))
