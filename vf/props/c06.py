"""C06 — The CP-to-SAT encoding has exactly the models of the CP problem."""

from vf.gen import cpgen
from vf.oracles import cp as ocp

ID = "C06"
RULE = ("seeded CP model specs, one constraint kind at a time over all small parameterisations plus random conjunctions; "
        "the CNF the real encoder hands to the SAT solver is captured at the boundary (solve_sat replaced by a "
        "recorder inside solvor.cp_encoder), all its models are enumerated by an independent DPLL projected on the "
        "value literals of the named variables, decoded by the published rule and compared, as a set, with the "
        "assignments that satisfy the CP constraints (domain-product evaluator); encoding is repeated on the same "
        "model; non-trivial = some constraint excludes a tuple and the CP model has >= 2 candidate assignments; "
        "distinct = distinct spec")
ASSUMPTIONS = ["<= 5 named variables, domain product <= 4096, <= ~80 Boolean variables",
               "zero-duration tasks excluded from no_overlap here (convention not fixed by the property)",
               "circuit on a single node excluded"]
QUICK_SCALE = 3  # quick-tier multiplier (idle 16-core timing: ~10 s at scale 1)
STRATA = [
    ("single-rel", 700, 14000),
    ("single-alldiff", 200, 4000),
    ("single-sum", 500, 10000),
    ("single-circuit", 250, 4000),
    ("single-no-overlap", 250, 5000),
    ("single-cumulative", 300, 6000),
    ("single-cumulative-wide", 60, 1200),
    ("conjunction", 500, 10000),
    ("planted-unique", 300, 6000),
    ("anonymous", 200, 4000),
]
REQUIRED_EVENTS = {"any": ["enc.cnf-captured", "enc.modelset-compared", "enc.exactly-one-checked", "enc.second-encoding-compared",
                           "enc.extended-model-compared", "enc.decoded-enumeration-compared"]}

_cp = _enc = None
_rec = {}
_pass = {"on": False}  # True: the recorder hands the CNF to the real solve_sat (used by the decoded-enumeration check)


def setup():
    global _cp, _enc
    from vf.instrument import mod

    _cp = mod("solvor.cp")
    _enc = mod("solvor.cp_encoder")
    types = mod("solvor.types")

    real = _enc.solve_sat

    def recorder(clauses, *more, **kw):
        if _pass["on"]:
            return real(clauses, *more, **kw)
        _rec["clauses"] = [list(c) for c in clauses]
        _rec["kw"] = kw
        proj = _rec.get("proj")
        if proj is not None:
            # The check hands the model-level value literals (IntVar.bool_vars) over as assumptions: what arrives here is
            # the encoder's own translation of them into the numbering of this CNF (the identity unless the encoder
            # renumbers its literals before calling the solver).
            a = kw.get("assumptions")
            sigma = None
            if isinstance(a, (list, tuple)) and len(a) == len(proj) and all(isinstance(l, int) and l > 0 for l in a) and len(set(a)) == len(a):
                sigma = {bv: bv for bv in proj} if set(a) == set(proj) else dict(zip(proj, a))
            _rec["sigma"] = sigma
            mapped = proj if sigma is None else [sigma[bv] for bv in proj]
            # answer like a SAT solver that enumerates: every model class of the CNF (projected on the value literals),
            # two full models each, so that the encoder's own decoding of each of them comes back through
            # SATEncoder.solve and can be compared with the check's reading of the CNF
            wit = {}
            models, complete = ocp.cnf_projected_models(_rec["clauses"], mapped, witnesses=wit)
            _rec["models"], _rec["complete"] = models, complete
            order = [(key, w) for key in sorted(models, key=sorted) for w in wit.get(key, ())]
            _rec["answered"] = order
            if complete and order:
                return types.Result(order[0][1], 0, 0, 0, types.Status.OPTIMAL, solutions=tuple(w for _k, w in order))
        return types.Result(None, 0, 0, 0, types.Status.INFEASIBLE)

    _enc.solve_sat = recorder  # boundary capture: the encoder's own binding of solve_sat


def gen(stratum, rng, tier):
    V, C = cpgen.V, cpgen.C
    if stratum == "single-rel":
        vars_ = cpgen._vars(rng, 1, 3, 4)
        n = len(vars_)
        con = cpgen.grammar_rel(rng, n) if rng.random() < 0.7 else cpgen.supported_rel(rng, n)
        spec = {"vars": vars_, "cons": [con]}
    elif stratum == "single-alldiff":
        vars_ = cpgen._vars(rng, 2, 4, 4)
        n = len(vars_)
        spec = {"vars": vars_, "cons": [("all_different", cpgen._alldiff_idx(rng, n))]}
    elif stratum == "single-sum":
        vars_ = cpgen._vars(rng, 1, 4, 4, lo_choices=[-2, -1, 0, 1, 2])
        spec = {"vars": vars_, "cons": [cpgen.sum_con(rng, len(vars_), vars_, 5)]}
    elif stratum == "single-circuit":
        n = rng.randint(2, 5)
        vars_ = []
        wide = rng.random() < 0.6
        for i in range(n):
            if wide:
                lb = rng.choice([-1, 0, 0, 1])
                ub = max(lb, rng.choice([n - 1, n - 1, n, n - 2]))
            else:
                lb, ub = 0, n - 1
            vars_.append((f"s{i}", lb, ub))
        spec = {"vars": vars_, "cons": [("circuit", list(range(n)))]}
    elif stratum == "single-no-overlap":
        n = rng.randint(1, 4)
        vars_ = [(f"t{i}", rng.choice([0, 0, 1]), 0) for i in range(n)]
        vars_ = [(nm, lb, lb + rng.randint(0, 4)) for nm, lb, _ in vars_]
        spec = {"vars": vars_, "cons": [("no_overlap", list(range(n)), [rng.randint(1, 4) for _ in range(n)])]}
    elif stratum == "single-cumulative":
        n = rng.randint(1, 4)
        vars_ = [(f"t{i}", 0, rng.randint(0, 3)) for i in range(n)]
        du = [rng.randint(0, 4) for _ in range(n)]
        de = [rng.randint(0, 3) for _ in range(n)]
        idx = list(range(n))
        if n >= 2 and rng.random() < 0.3:
            idx[rng.randrange(1, n)] = idx[0]  # one start variable drives two tasks of the same cumulative
        spec = {"vars": vars_, "cons": [("cumulative", idx, du, de, rng.randint(1, 5))]}
    elif stratum == "single-cumulative-wide":
        spec = cpgen.gen_spec("cumulative-wide", rng)
    elif stratum == "planted-unique":
        spec = cpgen.gen_spec("planted-unique", rng)
    elif stratum == "conjunction":
        spec = cpgen.gen_spec(rng.choice(["mixed", "supported", "grammar", "sums"]), rng)
        for c in spec["cons"]:
            if c[0] == "no_overlap":
                c[2][:] = [max(1, d) for d in c[2]]
    elif stratum == "anonymous":
        spec = cpgen.gen_spec("anonymous", rng)
    else:
        raise ValueError(stratum)
    spec["vars"] = cpgen._shrink_domains(spec["vars"])
    spec.setdefault("containers", [rng.choice(["list", "list", "tuple", "gen", "mutate"]) for _ in spec["cons"]])
    case = {"spec": spec}
    if rng.random() < 0.35 and len(spec["vars"]) <= 4:
        nv = len(spec["vars"])
        lb = rng.choice([0, 0, 1, -1])
        newvar = ("w_new", lb, lb + rng.randint(0, 2))
        j = rng.randrange(nv)
        r = rng.random()
        if r < 0.4:
            con = ("rel", rng.choice(["eq", "ne"]), V(nv), V(j))
        elif r < 0.7:
            con = ("sum_le", [j, nv, rng.randrange(nv)], spec["vars"][j][2] + lb + 1)
        elif r < 0.85:
            con = ("all_different", [j, nv])
        else:
            con = ("rel", "eq", ("add", V(nv), V(j)), C(spec["vars"][j][1] + lb + rng.randint(0, 2)))
        case["extend"] = {"vars": [newvar], "cons": [con]}
    return case


def _encode(model, proj=None):
    _rec.clear()
    _rec["proj"] = proj
    enc = _enc.SATEncoder(model)
    res = enc.solve() if proj is None else enc.solve(solution_limit=1 << 20, assumptions=list(proj))
    return res


def _compare(spec, model, xs, S, named, obs, tag):
    """Enumerate the captured CNF's models projected on the named variables' value literals; compare with S."""
    from vf.common import call, is_crash

    lit_of = {}  # bool var -> (named position, value): the published layout (IntVar.bool_vars) as the check reads it
    proj = []
    for pos, i in enumerate(named):
        for val, bv in xs[i].bool_vars.items():
            lit_of[bv] = (pos, val)
            proj.append(bv)
    res = call(obs, _encode, model, proj, what="SATEncoder.solve (recorded)", budget=60_000_000)
    if is_crash(res):
        return
    obs.event("enc.cnf-captured")
    if "clauses" not in _rec:
        # early exit of the encoder: an empty clause was produced => it claims UNSAT
        obs.event("enc.early-unsat")
        if res.status.name != "INFEASIBLE":
            obs.violate("enc.no-cnf-but-not-infeasible", res.status.name)
        elif S:
            obs.violate("enc.unsat-but-cp-satisfiable", f"{tag}: encoder produced an empty clause; CP model has {len(S)} solutions, e.g. {sorted(S)[0]}")
        else:
            obs.event("enc.modelset-compared")
        return
    clauses = _rec["clauses"]
    nbool = max((abs(l) for c in clauses for l in c), default=0)
    obs.event("enc.bool-vars", nbool)
    models, complete = _rec["models"], _rec["complete"]
    if not complete:
        obs.inconc("CNF model enumeration hit its node limit")
        return
    names = [spec["vars"][i][0] for i in named]
    if not models:
        # the CNF has no model at all: a statement that does not depend on how literals are numbered
        obs.event("enc.modelset-compared")
        obs.event("enc.cnf-models", 0)
        if S:
            obs.violate("enc.overconstrained-missing-models", f"{tag}: the CNF is unsatisfiable; CP solutions {sorted(S)[:3]} over {names} "
                        f"are not models of it (|D|=0, |S|={len(S)})")
        return
    # The encoder's own decoding of the CNF models the recorder answered with decides how the CNF is to be read.
    answered = _rec.get("answered") or []
    decoded = list(res.solutions or ()) if res.status.name in ("OPTIMAL", "FEASIBLE") else []
    sigma = _rec.get("sigma")
    layout_ok = len(decoded) == len(answered) and bool(answered) and sigma is not None
    if sigma is not None:
        if any(sigma[bv] != bv for bv in sigma):
            obs.event("enc.l2.literals-renumbered-by-encoder")
        lit_of = {sigma[bv]: pv for bv, pv in lit_of.items()}
    order_of = {}  # (pos, value) -> rank in IntVar.bool_vars order: the encoder's decoding reports the first true one
    for pos, i in enumerate(named):
        for k, val in enumerate(xs[i].bool_vars):
            order_of[(pos, val)] = k
    reals = []
    if layout_ok:
        for (key, _w), dec in zip(answered, decoded):
            per = [[] for _ in named]
            for bv in key:
                pos, val = lit_of[bv]
                per[pos].append(val)
            for pos, vals in enumerate(per):
                vals.sort(key=lambda v, pos=pos: order_of[(pos, v)])
            try:
                real_vals = [dec.get(nm) for nm in names]
            except AttributeError:
                layout_ok = False
                break
            reals.append(real_vals)
            for vals, rv in zip(per, real_vals):
                # one true value literal: that value; several: the first in the variable's own order; none: nothing
                if (vals and rv != vals[0]) or (not vals and rv is not None):
                    layout_ok = False
    if not layout_ok:
        # The encoder numbers or decodes its literals differently from the layout this check assumes (for instance it
        # renumbers literals before calling the SAT solver and maps models back).  The reading below would then be the
        # check's mistake, not the encoder's: judge only what holds under any layout - every CNF model the recorder
        # answered with, decoded by the encoder itself, has to satisfy the CP constraints - and leave completeness to
        # the enumeration through Model.solve.
        obs.event("enc.l2.layout-differs-from-assumed")
        if len(decoded) == len(answered) and reals and len(reals) == len(answered):
            for rv in reals:
                if any(v is None for v in rv):
                    obs.violate("enc.not-exactly-one-value", f"{tag}: the encoder decodes a model of its CNF to {dict(zip(names, rv))}: a named variable has no value")
                    return
                if tuple(rv) not in S:
                    obs.violate("enc.unsound-extra-models", f"{tag}: a model of the CNF decodes (by the encoder's own decoding) to "
                                f"{dict(zip(names, rv))}, which violates the CP constraints (|S|={len(S)})")
                    return
            obs.event("enc.decoded-models-checked-under-unknown-layout", len(reals))
        return
    obs.event("enc.layout-confirmed-by-own-decoding", len(answered))
    D = set()
    for m in models:
        per = [[] for _ in named]
        for bv in m:
            pos, val = lit_of[bv]
            per[pos].append(val)
        obs.event("enc.exactly-one-checked")
        if any(len(p) != 1 for p in per):
            obs.violate("enc.not-exactly-one-value", f"{tag}: a CNF model gives values {per} to {names}")
            return
        D.add(tuple(p[0] for p in per))
    obs.event("enc.modelset-compared")
    obs.event("enc.cnf-models", len(models))
    if D != S:
        extra = sorted(D - S)[:3]
        missing = sorted(S - D)[:3]
        names = [spec["vars"][i][0] for i in named]
        if extra:
            obs.violate("enc.unsound-extra-models", f"{tag}: CNF admits {extra} over {names} which violate the CP constraints "
                        f"(|D|={len(D)}, |S|={len(S)})")
        if missing:
            obs.violate("enc.overconstrained-missing-models", f"{tag}: CP solutions {missing} over {names} are not models of the CNF "
                        f"(|D|={len(D)}, |S|={len(S)})")


def _decoded_enumeration(spec, model, S, named, obs):
    """The same statement seen through the encoder's own decoding: an exhausted enumeration over the SAT path
    (fewer solutions returned than asked for) must hand back exactly the CP solutions - as a set; one CP solution may
    correspond to several CNF models when auxiliary variables are free."""
    from vf.common import call, is_crash

    nbool = max((abs(l) for c in _rec.get("clauses", ()) for l in c), default=0)
    LIM = 120 if nbool <= 30 else 40  # enumeration with blocking clauses is quadratic; large encodings rarely exhaust anyway
    _pass["on"] = True
    try:
        res = call(obs, model.solve, what="Model.solve(sat, enumerate)", budget=200_000_000, solver="sat", solution_limit=LIM)
    finally:
        _pass["on"] = False
    if is_crash(res):
        return
    st = res.status.name
    sols = list(res.solutions or ([] if res.solution is None else [res.solution]))
    if st == "INFEASIBLE" or res.solution is None:
        if S:
            obs.violate("enc.decoded-infeasible-but-satisfiable", f"Model.solve(sat, solution_limit={LIM}) -> {st}; CP model has {len(S)} solutions")
        obs.event("enc.decoded-enumeration-compared")
        return
    if len(sols) >= LIM:
        obs.event("enc.decoded-enumeration-not-exhausted")
        return
    names = [spec["vars"][i][0] for i in named]
    try:
        D2 = {tuple(sol[nm] for nm in names) for sol in sols}
    except (KeyError, TypeError) as e:
        obs.violate("enc.decoded-solution-malformed", f"{e!r} in {sols[:2]}")
        return
    obs.event("enc.decoded-enumeration-compared")
    if D2 != S:
        extra, missing = sorted(D2 - S)[:3], sorted(S - D2)[:3]
        obs.violate("enc.decoded-enumeration-differs", f"exhausted enumeration returned {len(sols)} solutions = {len(D2)} distinct over {names}; "
                    f"CP solution set has {len(S)}; extra {extra}, missing {missing}")


def run(case, obs):
    spec = case["spec"]
    if ocp.domain_product_size(spec) > 8192:
        obs.inconc("spec above oracle bound")
        return
    try:
        model, xs, built = ocp.build(spec, _cp.Model)
    except ocp.Unbuildable:
        obs.outcome("unbuildable")
        return
    # strict no_overlap semantics here (generators avoid zero durations)
    S = ocp.solution_set(spec)
    named = [i for i, v in enumerate(spec["vars"]) if v[0] is not None]
    total = 1
    for i in named:
        total *= spec["vars"][i][2] - spec["vars"][i][1] + 1
    obs.nontrivial = total >= 2 and any(ocp.excludes_something(c, spec) for c in spec["cons"])
    obs.mode("exact")
    obs.outcome("sat" if S else "unsat")
    _compare(spec, model, xs, S, named, obs, "first encoding")
    if not obs.violations:
        _compare(spec, model, xs, S, named, obs, "second encoding of the same model")
        obs.event("enc.second-encoding-compared")
    if not obs.violations and len(S) <= 150 and case.get("decode_check", True):
        # on a fresh build of the same spec: every encoding leaves auxiliary variables behind in the model, which does
        # not change the projected model set but multiplies the CNF models the later comparisons have to enumerate
        try:
            fresh = ocp.build(spec, _cp.Model)[0]
        except ocp.Unbuildable:
            fresh = None
        if fresh is not None:
            _decoded_enumeration(spec, fresh, S, named, obs)
    ext = case.get("extend")
    if ext and not obs.violations:
        # the model is extended after it has been encoded (and "solved") twice: new variable, new constraint, and
        # the third encoding must again have exactly the models of the extended CP problem
        try:
            spec3 = ocp.extend(spec, model, xs, ext["vars"], ext["cons"])
        except ocp.Unbuildable:
            return
        if ocp.domain_product_size(spec3) > 8192:
            return
        S3 = ocp.solution_set(spec3)
        named3 = [i for i, v in enumerate(spec3["vars"]) if v[0] is not None]
        _compare(spec3, model, xs, S3, named3, obs, "encoding after extending the solved model")
        obs.event("enc.extended-model-compared")
        if not obs.violations and len(S3) <= 150:
            # the same sequence through the model's own entry point (whatever the model keeps between solves is in play):
            # a fresh model, solved through the SAT path, extended, enumerated
            try:
                m2, xs2, _b2 = ocp.build(spec, _cp.Model)
            except ocp.Unbuildable:
                return
            from vf.common import call, is_crash

            _pass["on"] = True
            try:
                r0 = call(obs, m2.solve, what="Model.solve(sat) before extending", budget=100_000_000, solver="sat")
            finally:
                _pass["on"] = False
            if is_crash(r0):
                return
            try:
                ocp.extend(spec, m2, xs2, ext["vars"], ext["cons"])
            except ocp.Unbuildable:
                return
            _decoded_enumeration(spec3, m2, S3, named3, obs)
            obs.event("enc.extended-model-enumerated-through-solve")


def shrink(case):
    spec = case["spec"]
    cons = spec["cons"]
    for i in range(len(cons)):
        if len(cons) > 1:
            yield dict(case, spec=dict(spec, cons=cons[:i] + cons[i + 1:]))
    for i, (name, lb, ub) in enumerate(spec["vars"]):
        if ub > lb:
            for nv in ((name, lb + 1, ub), (name, lb, ub - 1)):
                vs = list(spec["vars"])
                vs[i] = nv
                yield dict(case, spec=dict(spec, vars=vs))
