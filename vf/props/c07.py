"""C07 — exact cover (solvor.dlx.solve_exact_cover): selections are exact covers, find_all lists all of
them once, INFEASIBLE iff none exists, limits are reported honestly, input untouched, same answer twice.

L1 (deciding): every Result of the real solve_exact_cover is judged against the definition
(vf.oracles.exact_cover: literal subset enumeration, cross-checked with a bitmask search).
L2 (events, DESIGN.md section 3): vf.monitors.dlx wraps _build_links/_cover/_uncover: LIFO discipline
and "the link structure after _uncover(c) equals the snapshot before the matching _cover(c)".
An L2 anomaly triggers a bounded re-examination of the same input under row/column permutations.
"""

import copy
from itertools import product

ID = "C07"
RULE = ("0/1 matrices with column names and secondary sets: random (<=8x6, densities .2-.5, duplicate/zero/"
        "secondary-only rows, empty columns, secondary none/random/all, names none/strings/permuted ints/tuples), "
        "planted partitions with noise rows, dense many-solution instances, structured (n-queens with secondary "
        "diagonals, domino/tromino tilings with holes and optional cells, Latin squares, 4x4 sudoku; rows and "
        "columns shuffled), limit-focused (max_solutions around the solution count, max_iter around the iteration "
        "count of the unlimited run) and exhaustive strata (every 0/1 matrix of the shape x every secondary subset). "
        "Each case runs: first solution, find_all twice, first again, find_all+max_solutions, max_iter limited runs. "
        "non-trivial = the find_all run performed >= 2 _cover calls; distinct = distinct (matrix, names, secondary, limits)")
ASSUMPTIONS = [
    "rectangular, entries 0/1; [] and matrices whose rows have no entry are run too (no column: the empty selection is "
    "the one exact cover, find_all lists [()])",
    "column names are distinct hashable values; secondary names all occur among the column names",
    "max_solutions >= 1 when given; max_solutions=0 is run too and judged leniently (0 = no limit in the code, 'stop after "
    "this many' in the text: either reading accepted, but OPTIMAL with find_all must come with the complete list); max_iter >= 0",
    "max_solutions: exactly min(k, #covers) covers are returned; FEASIBLE required when #covers > k, OPTIMAL when "
    "#covers < k, either accepted when #covers == k (the search cannot know)",
    "L2 anomalies (non-LIFO uncover, uncover not the inverse of cover) are events, not violations (DESIGN section 3)",
    "stratum too-deep (covers selecting more rows than the recursion limit allows): RecursionError is accepted as 'no answer' - the "
    "recursive search has that implementation limit today - a returned answer is judged like any other",
]
QUICK_SCALE = 2.5  # quick-tier multiplier (idle 16-core timing: ~10 s at scale 1)
STRATA = [
    ("random", 5000, 40000),
    ("planted", 3000, 26000),
    ("dense", 1000, 8000),
    ("structured", 240, 1600),
    ("limits", 1800, 16000),
    ("scale", 4, 30),
    ("too-deep", 2, 12),
    ("exh-small", 1, 1),
    ("exh-3x3", 1, 1),
    ("exh-2x4", 1, 1),
    ("exh-4x2", 1, 1),
    ("exh-3x4", 0, 1),
    ("exh-4x3", 0, 1),
    ("exh-2x5", 0, 1),
    ("exh-5x2", 0, 1),
]
REQUIRED_EVENTS = {"any": ["xc.cover-valid", "xc.all.complete", "xc.infeasible-iff", "xc.same-answer",
                           "xc.input-unchanged", "xc.maxsol.count", "xc.maxiter.status",
                           "l2.lifo.checked", "l2.inverse.checked"]}

_dlx = None
_mon = None
_St = None
BUDGET_SMALL = 60_000   # matrices with <= 20 rows (clean tree needs < 1 000 steps)
BUDGET_LARGE = 2_000_000   # clean tree: < 280 000 steps in the thorough tier (7-queens, find_all)


def setup():
    global _dlx, _mon, _St
    from vf.instrument import mod
    from vf.monitors import dlx as mon

    mon.attach()
    _mon = mon
    _dlx = mod("solvor.dlx")
    _St = mod("solvor.types").Status


# ------------------------------------------------------------------ generators

def _names(rng, nc):
    t = rng.random()
    if t < 0.45:
        return None
    if t < 0.65:
        return [f"c{j}" for j in range(nc)]
    if t < 0.80:
        p = list(range(nc))
        rng.shuffle(p)
        return p  # ints that are names, not positions
    if t < 0.90:
        return list(range(1, nc + 1))  # 1-based
    return [(j % 2, f"x{j}") for j in range(nc)]


def _sec_arg(rng, names, sec_idx):
    if not sec_idx:
        return rng.choice([None, None, []])
    s = [names[j] if names is not None else j for j in sec_idx]
    rng.shuffle(s)
    return s


def _limits(rng, rich=False):
    ks, Ls = [], []
    nk = rng.randint(2, 4) if rich else rng.randint(0, 1)
    nl = rng.randint(3, 6) if rich else rng.randint(0, 1)
    for _ in range(nk):
        ks.append(rng.choice([("abs", 1), ("abs", 2), ("abs", rng.randint(1, 6)), ("T", -1), ("T", 0), ("T", 1),
                              ("T", rng.randint(-3, 3))]))
    for _ in range(nl):
        fa = rng.random() < 0.7
        Ls.append((fa,) + rng.choice([("abs", 0), ("abs", 1), ("abs", rng.randint(1, 12)), ("rel", -1), ("rel", 0),
                                      ("rel", 1), ("rel", rng.randint(-4, 2)), ("frac", rng.random()),
                                      ("frac", rng.random())]))
    return ks, Ls


def _case(rng, matrix, names, sec, rich=False):
    ks, Ls = _limits(rng, rich)
    return {"kind": "xc", "matrix": matrix, "columns": names, "secondary": sec, "tuple": rng.random() < 0.2,
            "k": ks, "L": Ls}


def _gen_random(rng, tier):
    nr = rng.randint(1, 8)
    nc = rng.randint(1, 6)
    dens = rng.choice([0.2, 0.35, 0.5])
    M = [[1 if rng.random() < dens else 0 for _ in range(nc)] for _ in range(nr)]
    if rng.random() < 0.6:  # no empty column (an empty primary column ends the search at once)
        for j in range(nc):
            if not any(r[j] for r in M):
                M[rng.randrange(nr)][j] = 1
    if rng.random() < 0.3:
        M.insert(rng.randrange(len(M) + 1), list(rng.choice(M)))
    if rng.random() < 0.2:
        M[rng.randrange(len(M))] = [0] * nc
    if rng.random() < 0.1:
        j = rng.randrange(nc)
        for r in M:
            r[j] = 0
    t = rng.random()
    if t < 0.35:
        sec_idx = []
    elif t < 0.93:
        sec_idx = [j for j in range(nc) if rng.random() < 0.3]
    else:
        sec_idx = list(range(nc))
    names = _names(rng, nc)
    return _case(rng, M, names, _sec_arg(rng, names, sec_idx))


def _gen_planted(rng, tier, max_nc=8):
    nc = rng.randint(2, max_nc)
    sec_idx = [j for j in range(nc) if rng.random() < 0.25]
    if len(sec_idx) == nc:
        sec_idx.pop()
    prim = [j for j in range(nc) if j not in sec_idx]
    rows = []
    for _ in range(rng.randint(1, 3)):
        p = prim[:]
        rng.shuffle(p)
        blocks = []
        while p:
            k = min(len(p), rng.choice([1, 1, 2, 2, 3]))
            blocks.append(set(p[:k]))
            p = p[k:]
        for j in sec_idx:
            if rng.random() < 0.5:
                rng.choice(blocks).add(j)
        rows.extend(blocks)
    for _ in range(rng.randint(0, 5)):
        rows.append(set(rng.sample(range(nc), min(nc, rng.randint(1, 3)))))
    if sec_idx and rng.random() < 0.25:
        rows.append(set(rng.sample(sec_idx, rng.randint(1, len(sec_idx)))))  # secondary-only row
    if rng.random() < 0.25:
        rows.append(set(rng.choice(rows)))
    if rng.random() < 0.15:
        rows.append(set())
    rng.shuffle(rows)
    rows = rows[:14]
    M = [[1 if j in r else 0 for j in range(nc)] for r in rows]
    names = _names(rng, nc)
    return M, names, _sec_arg(rng, names, sec_idx)


def _gen_dense(rng, tier):
    npri = rng.randint(3, 7)
    nsec = rng.choice([0, 0, 1, 2])
    nc = npri + nsec
    cols = list(range(nc))
    rng.shuffle(cols)
    prim, sec_idx = cols[:npri], sorted(cols[npri:])
    rows = []
    for j in prim:
        if rng.random() < 0.85:
            rows.append({j})
    pairs = [(a, b) for i, a in enumerate(prim) for b in prim[i + 1:]]
    rng.shuffle(pairs)
    for a, b in pairs[: rng.randint(2, 9)]:
        rows.append({a, b})
    for _ in range(rng.randint(0, 3)):
        rows.append(set(rng.sample(prim, min(len(prim), 3))))
    if sec_idx:
        for r in rows:
            if rng.random() < 0.35:
                r.add(rng.choice(sec_idx))
    rng.shuffle(rows)
    rows = rows[:18]
    M = [[1 if j in r else 0 for j in range(nc)] for r in rows]
    names = _names(rng, nc)
    return M, names, _sec_arg(rng, names, sec_idx)


def _gen_structured(rng, tier):
    from vf.gen import xc

    kinds = ["queens", "queens", "domino", "domino", "tromino", "mixed", "latin", "sudoku"]
    kind = rng.choice(kinds)
    if kind == "queens":
        n = rng.choice([4, 5, 6] if tier == "quick" else [4, 5, 6, 6, 7])
        M, names, sec = xc.queens(n)
    elif kind in ("domino", "tromino", "mixed"):
        h, w = rng.choice([(2, 3), (2, 4), (3, 4), (4, 4), (2, 5), (3, 3), (2, 6), (3, 5)] +
                          ([(4, 5), (3, 6)] if tier == "thorough" else []))
        cells = [(r, c) for r in range(h) for c in range(w)]
        holes = rng.sample(cells, rng.choice([0, 0, 1, 2]))
        rest = [c for c in cells if c not in holes]
        optional = rng.sample(rest, rng.choice([0, 0, 1, 2, 3])) if rest else []
        shapes = {"domino": xc.DOMINO, "tromino": xc.TROMINO_L + (xc.TROMINO_I if rng.random() < 0.5 else []),
                  "mixed": xc.DOMINO + xc.TROMINO_L}[kind]
        if rng.random() < 0.2 and h * w <= 9:
            shapes = shapes + xc.MONOMINO
        M, names, sec = xc.tiling(h, w, holes, shapes, optional)
        if not M:
            M, names, sec = xc.tiling(2, 3, [], xc.DOMINO)
    elif kind == "latin":
        base = [[(r + c) % 3 for c in range(3)] for r in range(3)]
        cells = [(r, c) for r in range(3) for c in range(3)]
        giv = [(r, c, base[r][c]) for r, c in rng.sample(cells, rng.choice([0, 1, 2]))]
        if giv and rng.random() < 0.2:
            r, c, s = giv[0]
            giv.append((r, (c + 1) % 3, s))  # contradictory givens: infeasible
        M, names, sec = xc.latin(3, giv)
    else:
        sol = [[0, 1, 2, 3], [2, 3, 0, 1], [1, 0, 3, 2], [3, 2, 1, 0]]
        perm = [0, 1, 2, 3]
        rng.shuffle(perm)
        cells = [(r, c) for r in range(4) for c in range(4)]
        giv = [(r, c, perm[sol[r][c]]) for r, c in rng.sample(cells, rng.randint(5, 9))]
        M, names, sec = xc.sudoku4(giv)
    if rng.random() < 0.7:
        M, names, sec, _, _ = xc.permute(M, names, sec, rng, rows=rng.random() < 0.8, cols=rng.random() < 0.8)
    if rng.random() < 0.25:  # positional columns instead of names
        sec = [names.index(s) for s in sec]
        names = None
    if not sec and rng.random() < 0.5:
        sec = None
    return M, names, sec


def gen(stratum, rng, tier):
    if stratum == "too-deep":
        # a cover that selects more rows than the interpreter allows nested calls: the recursive search cannot finish
        # (RecursionError is accepted here as "no answer") - but whatever it does hand back is judged
        return {"kind": "too-deep", "n": rng.randint(1150, 1400), "full_first": rng.random() < 0.5}
    if stratum == "scale":
        # hundreds of items that each have a row of their own (a cover selects hundreds of rows: search depth = number
        # of rows selected) plus two rows covering a pair each, so that exactly four covers exist
        return {"kind": "scale", "n": rng.randint(450, 800), "pairs": sorted(rng.sample(range(200), 2)), "shuffle": rng.randrange(1 << 30)}
    if stratum == "random":
        if rng.random() < 0.004:
            # no column at all ([] or rows without entries): the empty selection is the one exact cover
            return {"kind": "no-columns", "rows": rng.choice([0, 0, 1, 2, 3]), "tuple": rng.random() < 0.3}
        return _gen_random(rng, tier)
    if stratum == "planted":
        return _case(rng, *_gen_planted(rng, tier, 8 if tier == "quick" else 10))
    if stratum == "dense":
        return _case(rng, *_gen_dense(rng, tier))
    if stratum == "structured":
        c = _case(rng, *_gen_structured(rng, tier), rich=rng.random() < 0.3)
        c["tuple"] = False
        return c
    if stratum == "limits":
        t = rng.random()
        if t < 0.5:
            inst = _gen_planted(rng, tier)
        elif t < 0.9:
            inst = _gen_dense(rng, tier)
        else:
            from vf.gen import xc

            inst = xc.tiling(*rng.choice([(2, 3), (2, 4), (3, 4), (2, 5)]), [], xc.DOMINO)
        return _case(rng, *inst, rich=True)
    if stratum.startswith("exh-"):
        if stratum == "exh-small":
            return {"kind": "exh", "shapes": [(1, 1), (1, 2), (2, 1), (2, 2), (1, 3), (3, 1), (2, 3), (3, 2), (1, 4), (4, 1)]}
        a, b = stratum[4:].split("x")
        return {"kind": "exh", "shapes": [(int(a), int(b))]}
    raise ValueError(stratum)


# ------------------------------------------------------------------ running the real code

class _Ctx:
    pass


def _solve(cx, obs, what, **kw):
    """One monitored call of the real solve_exact_cover; returns (result | Crash, monitor report)."""
    import sys

    from vf.common import call

    budget = BUDGET_SMALL if len(cx.M) <= 20 else BUDGET_LARGE
    old_limit = sys.getrecursionlimit()
    depth = 0
    f = sys._getframe()
    while f is not None:
        depth += 1
        f = f.f_back
    _mon.begin()
    try:
        # the interpreter's default recursion limit (what every user gets), not the worker's raised one:
        # a corrupted link structure then ends in crash:RecursionError quickly
        sys.setrecursionlimit(depth + 1000)
        r = call(obs, _dlx.solve_exact_cover, cx.M_arg, columns=cx.cols_arg, secondary=cx.sec_arg, budget=budget,
                 what=f"solve_exact_cover[{what}]", **kw)
    finally:
        sys.setrecursionlimit(old_limit)
        rep = _mon.end()
    for k, v in rep["counts"].items():
        obs.event(k, v)
    for kind, detail in rep["anomalies"]:
        cx.l2.append((kind, f"[{what}] {detail}"))
        obs.mech.add("dlx." + kind)
    # the input is not modified
    obs.event("xc.input-unchanged")
    if cx.M_arg != cx.M_copy or cx.cols_arg != cx.cols_copy or cx.sec_arg != cx.sec_copy or \
            type(cx.M_arg) is not type(cx.M_copy) or any(type(a) is not type(b) for a, b in zip(cx.M_arg, cx.M_copy)):
        obs.violate("dlx.input-modified", f"[{what}] matrix/columns/secondary differ from the deep copy taken before the call")
        cx.M_arg = copy.deepcopy(cx.M_copy)
        cx.cols_arg = copy.deepcopy(cx.cols_copy)
        cx.sec_arg = copy.deepcopy(cx.sec_copy)
    return r, rep


def _sel_ok(cx, obs, what, sel):
    from vf.oracles.exact_cover import is_cover

    obs.event("xc.cover-valid")
    if not isinstance(sel, (tuple, list)):
        obs.violate("dlx.result-shape", f"[{what}] selection is {sel!r}")
        return False
    why = is_cover(cx.M, cx.prim, cx.sec, sel)
    if why is not None:
        obs.violate("dlx.not-a-cover", f"[{what}] returned selection {tuple(sel)!r}: {why}")
        return False
    if cx.truth is not None and frozenset(sel) not in cx.truth:
        obs.inconc(f"oracle inconsistency: {tuple(sel)!r} passes is_cover but is not in the enumerated set")
        return False
    return True


def _list_ok(cx, obs, what, sols):
    """Every element a cover, no duplicates. Returns the set of frozensets (or None if shape is wrong)."""
    if not isinstance(sols, list):
        obs.violate("dlx.result-shape", f"[{what}] find_all solution is {type(sols).__name__}: {sols!r}"[:300])
        return None
    got = []
    for s in sols:
        if not _sel_ok(cx, obs, what, s):
            return None
        got.append(frozenset(s))
    obs.event("xc.all.nodup")
    if len(set(got)) != len(got):
        dup = next(s for s in got if got.count(s) > 1)
        obs.violate("dlx.all.duplicate", f"[{what}] cover {sorted(dup)} listed more than once in {sols!r}"[:600])
        return None
    return set(got)


def _judge_single(cx, obs, what, r):
    st = r.status
    obs.outcome(f"first:{st.name}")
    if st == _St.INFEASIBLE:
        if cx.truth is None:
            obs.mode("certificate_only")
            return
        obs.event("xc.infeasible-iff")
        if cx.truth:
            obs.violate("dlx.wrong-infeasible", f"[{what}] INFEASIBLE but {len(cx.truth)} cover(s) exist, e.g. "
                                                f"{sorted(next(iter(cx.truth)))}")
        if r.solution is not None:
            obs.violate("dlx.result-shape", f"[{what}] INFEASIBLE with solution {r.solution!r}")
    elif st == _St.OPTIMAL:
        if _sel_ok(cx, obs, what, r.solution) and cx.truth is not None:
            obs.event("xc.infeasible-iff")
    else:
        obs.violate("dlx.status", f"[{what}] status {st.name} without any limit being hit (iterations={r.iterations})")


def _judge_all(cx, obs, what, r):
    st = r.status
    obs.outcome(f"all:{st.name}")
    if st == _St.INFEASIBLE:
        if cx.truth is None:
            obs.mode("certificate_only")
            return
        obs.event("xc.infeasible-iff")
        if cx.truth:
            obs.violate("dlx.wrong-infeasible", f"[{what}] INFEASIBLE but {len(cx.truth)} cover(s) exist, e.g. "
                                                f"{sorted(next(iter(cx.truth)))}")
    elif st == _St.OPTIMAL:
        got = _list_ok(cx, obs, what, r.solution)
        if got is None:
            return
        if cx.truth is None:
            obs.mode("certificate_only")
            return
        obs.mode("exact")
        obs.event("xc.all.complete")
        obs.event("xc.infeasible-iff")
        if got != cx.truth:
            missing = sorted(sorted(s) for s in cx.truth - got)
            obs.violate("dlx.all.missing", f"[{what}] find_all returned {len(got)} of {len(cx.truth)} covers; missing e.g. "
                                           f"{missing[:3]}")
    else:
        obs.violate("dlx.status", f"[{what}] status {st.name} without any limit being hit (iterations={r.iterations})")


def _judge_maxsol(cx, obs, what, r, k):
    st = r.status
    obs.outcome(f"maxsol:{st.name}")
    if cx.truth is None:
        if st in (_St.OPTIMAL, _St.FEASIBLE):
            _list_ok(cx, obs, what, r.solution)
        obs.mode("certificate_only")
        return
    T = len(cx.truth)
    if st == _St.INFEASIBLE:
        obs.event("xc.infeasible-iff")
        if T:
            obs.violate("dlx.wrong-infeasible", f"[{what}] INFEASIBLE but {T} cover(s) exist")
        return
    if st not in (_St.OPTIMAL, _St.FEASIBLE):
        obs.violate("dlx.status", f"[{what}] status {st.name} with max_solutions={k} and default max_iter")
        return
    got = _list_ok(cx, obs, what, r.solution)
    if got is None:
        return
    obs.event("xc.maxsol.count")
    if len(got) != min(k, T):
        obs.violate("dlx.maxsol.count", f"[{what}] {len(got)} covers returned, max_solutions={k}, {T} exist")
        return
    obs.event("xc.maxsol.status")
    if T > k and st != _St.FEASIBLE:
        obs.violate("dlx.maxsol.status", f"[{what}] {st.name} although the list was cut off ({k} of {T} covers)")
    if T < k and st != _St.OPTIMAL:
        obs.violate("dlx.maxsol.status", f"[{what}] {st.name} although all {T} covers are listed (max_solutions={k})")


def _judge_maxiter(cx, obs, what, r, fa, L, ref):
    st = r.status
    obs.outcome(f"maxiter:{st.name}")
    if st != _St.MAX_ITER:
        (_judge_all if fa else _judge_single)(cx, obs, what, r)
        return
    obs.event("xc.maxiter.status")
    if not (r.iterations > L):
        # HEAD reports MAX_ITER through `iterations > max_iter`; a solver that tests its budget before counting never
        # shows a counter above the limit.  The statement promises nothing about the counter: an event, not a verdict.
        obs.event("xc.maxiter.counter-not-above-limit")
    if ref is not None and ref.status != _St.MAX_ITER and ref.iterations <= L:
        obs.violate("dlx.maxiter.spurious", f"[{what}] MAX_ITER with max_iter={L} although the unlimited run needs only "
                                            f"{ref.iterations} iterations")
    if r.solution is None:
        return
    if fa:
        _list_ok(cx, obs, what, r.solution)
    else:
        _sel_ok(cx, obs, what, r.solution)


def _same(a, b):
    return a.status == b.status and a.solution == b.solution and a.objective == b.objective


def _run_xc(case, obs, light=False):
    from vf.common import is_crash
    from vf.oracles import exact_cover as oc

    cx = _Ctx()
    cx.M = [list(r) for r in case["matrix"]]
    cols, sec = case["columns"], case["secondary"]
    as_tuple = case.get("tuple", False)
    cx.M_arg = tuple(tuple(r) for r in cx.M) if as_tuple else [list(r) for r in cx.M]
    cx.cols_arg = (tuple(cols) if as_tuple else list(cols)) if cols is not None else None
    cx.sec_arg = (tuple(sec) if as_tuple else list(sec)) if sec is not None else None
    if sec:
        # the optional columns as any Sequence / collection of names: a range of positions (N-Queens diagonals are written
        # that way) or a frozenset - they are a set of column names, whatever they arrive in
        ints = sorted(sec) if all(isinstance(x, int) and not isinstance(x, bool) for x in sec) else None
        pick = (len(cx.M) + 3 * len(sec) + len(cx.M[0])) % 5
        if pick == 0 and ints and ints == list(range(ints[0], ints[-1] + 1)) and len(set(sec)) == len(sec):
            cx.sec_arg = range(ints[0], ints[-1] + 1)
            obs.event("xc.secondary-as-range")
        elif pick == 1:
            try:
                cx.sec_arg = frozenset(sec)
                obs.event("xc.secondary-as-frozenset")
            except TypeError:
                pass
    cx.M_copy, cx.cols_copy, cx.sec_copy = copy.deepcopy(cx.M_arg), copy.deepcopy(cx.cols_arg), copy.deepcopy(cx.sec_arg)
    cx.l2 = []
    try:
        cx.truth, cx.prim, cx.sec, info = oc.all_covers(cx.M, cols, sec)
    except AssertionError as e:
        obs.inconc(str(e))
        return
    if info == "both":
        obs.event("oracle.crosscheck")
    obs.event("oracle." + info)
    if cx.truth is not None:
        obs.outcome("covers:" + ("0" if not cx.truth else "1" if len(cx.truth) == 1 else "2-9" if len(cx.truth) < 10 else "10+"))

    first, _ = _solve(cx, obs, "first")
    if not is_crash(first):
        _judge_single(cx, obs, "first", first)
    all1, rep1 = _solve(cx, obs, "find_all", find_all=True)
    if not is_crash(all1):
        _judge_all(cx, obs, "find_all", all1)
        obs.nontrivial = rep1["counts"].get("l2.cover", 0) >= 2
        if all1.status in (_St.OPTIMAL, _St.INFEASIBLE) and rep1["objects"]:
            obs.event("l2.exit.checked")
            if rep1["outstanding"] or rep1["restored"] is False:
                obs.event("l2.exit.not-restored")
                obs.mech.add("dlx.l2.exit.not-restored")
                cx.l2.append(("l2.exit.not-restored", f"[find_all] after a complete search {rep1['outstanding']} covers are "
                                                      f"outstanding, links restored={rep1['restored']}"))
    if light:
        _l2_followup(case, cx, obs)
        return
    # solving the same input again gives the same answer
    all2, _ = _solve(cx, obs, "find_all#2", find_all=True)
    if not is_crash(all1) and not is_crash(all2):
        obs.event("xc.same-answer")
        if not _same(all1, all2):
            obs.violate("dlx.nondeterministic", f"find_all twice: {all1.status.name} {all1.solution!r} vs {all2.status.name} "
                                                f"{all2.solution!r}"[:800])
    first2, _ = _solve(cx, obs, "first#2")
    if not is_crash(first) and not is_crash(first2):
        obs.event("xc.same-answer")
        if not _same(first, first2):
            obs.violate("dlx.nondeterministic", f"first solution twice: {first.solution!r} vs {first2.solution!r}")

    T = len(cx.truth) if cx.truth is not None else (len(all1.solution) if not is_crash(all1) and isinstance(all1.solution, list) else 3)
    for mode, v in case.get("k", []):
        k = max(1, v if mode == "abs" else T + v)
        r, _ = _solve(cx, obs, f"find_all,max_solutions={k}", find_all=True, max_solutions=k)
        if not is_crash(r):
            _judge_maxsol(cx, obs, f"find_all,max_solutions={k}", r, k)
    if case.get("k") and cx.truth is not None:
        # max_solutions=0: the text ("stop after finding this many") and the code (0 = no limit) can be read either
        # way, so both are accepted - what no reading allows is a cut-off list presented as the complete answer
        r, _ = _solve(cx, obs, "find_all,max_solutions=0", find_all=True, max_solutions=0)
        if not is_crash(r) and r.status in (_St.OPTIMAL, _St.FEASIBLE):
            got = _list_ok(cx, obs, "find_all,max_solutions=0", r.solution)
            obs.event("xc.maxsol-zero.checked")
            if got is not None and r.status == _St.OPTIMAL and len(got) != T:
                obs.violate("dlx.maxsol.status", f"[find_all,max_solutions=0] OPTIMAL with {len(got)} of {T} covers listed")
        elif not is_crash(r) and r.status == _St.INFEASIBLE and T:
            obs.violate("dlx.wrong-infeasible", f"[find_all,max_solutions=0] INFEASIBLE but {T} cover(s) exist")
    for fa, mode, v in case.get("L", []):
        ref = all1 if fa else first
        ref = None if is_crash(ref) else ref
        base = ref.iterations if ref is not None else 10
        L = v if mode == "abs" else max(0, base + v) if mode == "rel" else max(0, int(base * v))
        what = f"{'find_all' if fa else 'first'},max_iter={L}"
        r, _ = _solve(cx, obs, what, find_all=fa, max_iter=L)
        if not is_crash(r):
            _judge_maxiter(cx, obs, what, r, fa, L, ref)
    _l2_followup(case, cx, obs)


def _l2_followup(case, cx, obs):
    """An internal anomaly is an event; give it every chance to surface at the API (bounded re-examination)."""
    if not cx.l2:
        return
    from random import Random

    from vf.common import is_crash
    from vf.gen import xc

    obs.event("l2.anomalous-cases")
    obs.outcome("l2-anomaly")
    obs.l2_detail = cx.l2[:3]
    if case.get("_reexam") or cx.truth is None:
        return
    rng = Random(repr(case["matrix"]))
    cols = case["columns"] if case["columns"] is not None else list(range(len(cx.M[0])))
    sec = case["secondary"] or []
    for t in range(8):
        M2, n2, s2, rp, _ = xc.permute(cx.M, list(cols), list(sec), rng)
        c2 = _Ctx()
        c2.M = M2
        c2.M_arg, c2.cols_arg, c2.sec_arg = [list(r) for r in M2], list(n2), list(s2)
        c2.M_copy, c2.cols_copy, c2.sec_copy = copy.deepcopy(c2.M_arg), list(n2), list(s2)
        c2.l2 = []
        from vf.oracles.exact_cover import column_roles

        c2.prim, c2.sec = column_roles(len(n2), n2, s2)
        inv = {old: new for new, old in enumerate(rp)}
        c2.truth = {frozenset(inv[i] for i in s) for s in cx.truth}
        obs.event("l2.reexamined")
        r, _ = _solve(c2, obs, f"reexam#{t} find_all", find_all=True)
        if not is_crash(r):
            _judge_all(c2, obs, f"reexam#{t} rows={rp} cols={n2}", r)
        if obs.violations:
            return


def _run_exh(case, obs):
    cnt = 0
    for nr, nc in case["shapes"]:
        subsets = [[j for j in range(nc) if m >> j & 1] for m in range(1 << nc)]
        for bits in product((0, 1), repeat=nr * nc):
            M = [list(bits[i * nc:(i + 1) * nc]) for i in range(nr)]
            for si, sec in enumerate(subsets):
                named = (cnt % 3 == 1)
                cols = [f"c{j}" for j in range(nc)] if named else None
                s = ([f"c{j}" for j in sec] if named else list(sec)) if (sec or cnt % 2) else None
                sub = {"kind": "xc", "matrix": M, "columns": cols, "secondary": s, "tuple": False, "k": [], "L": []}
                _run_xc(sub, obs, light=True)
                cnt += 1
                if obs.violations:
                    obs.violations[-1] = (obs.violations[-1][0], f"matrix={M} columns={cols} secondary={s}: " + obs.violations[-1][1])
                    return
    obs.event("xc.exhaustive.instances", cnt)
    obs.nontrivial = True
    obs.outcome("exhaustive")


def _run_scale(case, obs):
    import random

    from vf.common import call, is_crash

    n = case["n"]
    rows = [[0] * n for _ in range(n)]
    for i in range(n):
        rows[i][i] = 1
    for p in case["pairs"]:
        r = [0] * n
        r[2 * p] = r[2 * p + 1] = 1
        rows.append(r)
    random.Random(case["shuffle"]).shuffle(rows)
    doubles = {i for i, r in enumerate(rows) if sum(r) == 2}

    def valid(sel):
        cov = [0] * n
        for i in sel:
            for j, v in enumerate(rows[i]):
                cov[j] += v
        return all(c == 1 for c in cov)

    r1 = call(obs, _dlx.solve_exact_cover, [list(r) for r in rows], budget=40_000_000, what="solve_exact_cover[scale,first]")
    if not is_crash(r1):
        obs.event("xc.scale.judged")
        if r1.status != _St.OPTIMAL or not isinstance(r1.solution, (tuple, list)) or not valid(r1.solution):
            obs.violate("dlx.scale.first", f"{n} singleton rows + 2 pair rows: status {r1.status.name}, "
                        f"{len(r1.solution) if r1.solution is not None else None} rows selected, not an exact cover")
    r2 = call(obs, _dlx.solve_exact_cover, [list(r) for r in rows], find_all=True, budget=160_000_000, what="solve_exact_cover[scale,all]")
    if not is_crash(r2):
        obs.event("xc.scale.judged")
        sols = r2.solution if isinstance(r2.solution, list) else None
        ok = (r2.status == _St.OPTIMAL and sols is not None and len(sols) == 4 and all(valid(x) for x in sols)
              and len({frozenset(x) & frozenset(doubles) for x in sols}) == 4)
        if not ok:
            obs.violate("dlx.scale.all", f"{n} singleton rows + 2 pair rows have exactly 4 covers: status {r2.status.name}, "
                        f"{len(sols) if sols is not None else None} returned")
    obs.nontrivial = True
    obs.mode("exact")


def _run_too_deep(case, obs):
    from vf.common import call, is_crash

    n = case["n"]
    rows = [[1 if i == j else 0 for j in range(n)] for i in range(n)]
    full = [1] * n
    rows = [full] + rows if case["full_first"] else rows + [full]
    fi = 0 if case["full_first"] else n
    covers = {frozenset([fi]), frozenset(i for i in range(n + 1) if i != fi)}
    obs.nontrivial = True
    obs.mode("exact")
    for fa in (False, True):
        what = f"solve_exact_cover[too-deep,{'all' if fa else 'first'}]"
        r = call(obs, _dlx.solve_exact_cover, [list(x) for x in rows], find_all=fa, budget=400_000_000, what=what,
                 expect=(RecursionError,))
        if is_crash(r):
            obs.event("xc.too-deep.recursion-error")
            continue
        obs.event("xc.too-deep.answered")
        st = r.status
        if st == _St.INFEASIBLE or r.solution is None:
            obs.violate("dlx.wrong-infeasible", f"[{what}] {n} unit rows + one full row: status {st.name}, two covers exist")
        elif not fa:
            if frozenset(r.solution) not in covers:
                obs.violate("dlx.invalid-cover", f"[{what}] {len(r.solution)} rows selected: not one of the two covers")
        else:
            got = {frozenset(x) for x in r.solution} if isinstance(r.solution, list) else None
            if got is None or not got <= covers:
                obs.violate("dlx.invalid-cover", f"[{what}] returned selections are not covers")
            elif st == _St.OPTIMAL and got != covers:
                obs.violate("dlx.all.incomplete", f"[{what}] OPTIMAL with {len(got)} of the 2 covers listed")


def _run_no_columns(case, obs):
    from vf.common import call, is_crash

    M = [[] for _ in range(case["rows"])]
    if case["tuple"]:
        M = tuple(tuple(r) for r in M)
    obs.nontrivial = True
    for fa in (False, True, False):
        r = call(obs, _dlx.solve_exact_cover, M, find_all=fa, budget=BUDGET_SMALL, what=f"solve_exact_cover[no columns,{'all' if fa else 'first'}]")
        if is_crash(r):
            return
        obs.event("xc.no-columns.judged")
        if r.status != _St.OPTIMAL:
            obs.violate("dlx.no-columns.status", f"{r.status.name} for a matrix with {case['rows']} rows and no column (the empty selection covers it)")
        elif fa and [tuple(x) for x in (r.solution if isinstance(r.solution, list) else [None])] != [()]:
            obs.violate("dlx.all.missing", f"find_all on a matrix with {case['rows']} rows and no column returned {r.solution!r}; "
                                            f"the set of exact covers is [()]")
        elif not fa and tuple(r.solution or ()) != ():
            obs.violate("dlx.not-a-cover", f"a matrix without columns, selection {r.solution!r}")


def run(case, obs):
    if case["kind"] == "no-columns":
        return _run_no_columns(case, obs)
    if case["kind"] == "too-deep":
        return _run_too_deep(case, obs)
    if case["kind"] == "scale":
        return _run_scale(case, obs)
    if case["kind"] == "exh":
        _run_exh(case, obs)
    else:
        _run_xc(case, obs)
    det = getattr(obs, "l2_detail", None)
    if det and obs.violations:  # witness carries the L2 trace up to the first broken invariant
        cls, txt = obs.violations[0]
        obs.violations[0] = (cls, (txt + " || first L2 anomaly: " + det[0][0] + ": " + det[0][1])[:3000])


# ------------------------------------------------------------------ minimisation / attribution

def shrink(case):
    if case.get("kind") != "xc":
        return
    M, cols, sec = case["matrix"], case["columns"], case["secondary"]
    if case.get("k") or case.get("L"):
        if len(case.get("k", [])) + len(case.get("L", [])) > 1:
            for i in range(len(case.get("k", []))):
                yield dict(case, k=case["k"][:i] + case["k"][i + 1:])
            for i in range(len(case.get("L", []))):
                yield dict(case, L=case["L"][:i] + case["L"][i + 1:])
        yield dict(case, k=[], L=[])
    for i in range(len(M)):
        if len(M) > 1:
            yield dict(case, matrix=M[:i] + M[i + 1:])
    nc = len(M[0])
    if nc > 1:
        for j in range(nc):
            name = cols[j] if cols is not None else j
            M2 = [r[:j] + r[j + 1:] for r in M]
            if cols is not None:
                c2 = list(cols[:j]) + list(cols[j + 1:])
                s2 = [s for s in sec if s != name] if sec is not None else None
            else:
                c2 = None
                s2 = [s - (s > j) for s in sec if s != j] if sec is not None else None
            yield dict(case, matrix=M2, columns=c2, secondary=s2)
    if cols is not None and all(isinstance(c, str) for c in cols) is False:
        ren = {c: f"c{j}" for j, c in enumerate(cols)}
        yield dict(case, columns=[ren[c] for c in cols], secondary=[ren[s] for s in sec] if sec is not None else None)
    if case.get("tuple"):
        yield dict(case, tuple=False)


def finding_keys(case, obs):
    return set(obs.mech)
