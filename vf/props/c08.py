"""C08 — max_flow returns a feasible flow whose value is the maximum.

Boundary contract on the real `solvor.flow.max_flow`: the returned arc->flow dict is read as a
pair flow (parallel arcs pooled) and judged for integrality/sign, capacity, conservation,
objective = net inflow of the sink, absence of an augmenting path in the residual network of the
*returned* flow (BFS certificate, any size) and value = Dinic max-flow = capacity of the min cut
the oracle exhibits.
"""

ID = "C08"
RULE = ("seeded random capacitated digraphs per stratum (reverse-arc gadgets in random context, unit layered DAGs, "
        "random multigraphs with parallel/anti-parallel/zero-capacity arcs, arcs into the source and out of the sink, "
        "unreachable parts, sink absent from the arc list, bipartite matching networks, larger sparse graphs), random arc "
        "order, random node relabelling (ints, strings, tuples, mixed); a case is non-trivial if the true maximum flow is "
        ">= 1; distinct = distinct (labelled arc list, source, sink)")
ASSUMPTIONS = [
    "non-negative integer capacities, source != sink, no self-loops (documented graph format {node: [(nbr, cap, cost)]})",
    "the returned dict is read as total flow per ordered node pair (parallel arcs pooled)",
    "exact integer arithmetic, no tolerance",
]
QUICK_SCALE = 3  # quick-tier multiplier (idle 16-core timing: ~10 s at scale 1)
STRATA = [
    ("gadget", 8000, 100000),
    ("layered", 4000, 50000),
    ("random", 10000, 120000),
    ("bipartite", 4000, 50000),
    ("antiparallel", 6000, 80000),
    ("dense", 3000, 40000),
    ("big", 300, 4000),
    ("matching-deg2", 4000, 50000),
    ("huge", 600, 8000),
    ("twoway-grid", 3000, 40000),
]
REQUIRED_EVENTS = {"any": ["mf.check.capacity", "mf.check.conservation", "mf.check.objective",
                           "mf.check.residual-bfs", "mf.oracle.value", "mf.cover.reverse-arc-needed"]}

_flow = None


def setup():
    global _flow
    from vf.instrument import mod

    _flow = mod("solvor.flow")


# ---------------------------------------------------------------- generators

def _labels(rng, n):
    kind = rng.choice(["int", "perm", "str", "tuple", "mixed", "int", "perm", "falsy"])
    if kind == "int":
        return list(range(n))
    if kind == "falsy" and n <= 60:
        # None, "", () and frozenset() are ordinary hashable node labels
        special = [None, "", (), frozenset()]
        rng.shuffle(special)
        labs = [100 + i for i in range(n)]
        for k, pos in enumerate(rng.sample(range(n), min(n, rng.randint(1, len(special))))):
            labs[pos] = special[k]
        return labs
    if kind == "perm":
        ids = rng.sample(range(0, 3 * n + 5), n)
        return ids
    if kind == "str":
        names = rng.sample([f"{c}{d}" for c in "abstuvxyz" for d in ("", "1", "2", "_in", "_out")], n) if n <= 40 else [f"n{i}" for i in range(n)]
        return names
    if kind == "tuple":
        cells = rng.sample([(i, j) for i in range(8) for j in range(8)], n) if n <= 60 else [(i, 0) for i in range(n)]
        return cells
    out = []
    pool_i = rng.sample(range(-20, 60), n)
    for i in range(n):
        k = rng.randrange(3)
        out.append(pool_i[i] if k == 0 else (f"v{pool_i[i]}" if k == 1 else ("t", pool_i[i])))
    return out


def _finish(rng, n, arcs, s, t, shuffle=True, extra_keys=True):
    arcs = [(u, v, c, rng.choice([0, 0, 1, 3, 7])) for (u, v, c) in arcs]
    if shuffle:
        rng.shuffle(arcs)
    keys = []
    for a in arcs:
        if a[0] not in keys:
            keys.append(a[0])
    if extra_keys:
        for x in range(n):
            if x not in keys and rng.random() < 0.3:
                keys.insert(rng.randrange(len(keys) + 1), x)   # node present as key with an empty list
    if rng.random() < 0.25:
        rng.shuffle(keys)
    return {"n": n, "arcs": arcs, "s": s, "t": t, "labels": _labels(rng, n), "keys": keys}


def _gadget_arcs(rng, base, s, t, c=None):
    """One reverse-arc gadget between s and t using fresh nodes base, base+1, ...; returns (arcs, next_free).
    Two disjoint s-t paths P1 (through a ... c) and P2 (through b ... d) and a shortcut a->d that makes a
    path no longer than either: once the shortcut path is used first, the maximum needs the reverse of a->d."""
    c = c or rng.choice([1, 1, 1, 2, 3, 5])
    l1 = rng.randint(0, 2)   # extra inner nodes between a and c
    l2 = rng.randint(0, 2)   # extra inner nodes between b and d
    nid = base
    a = nid; nid += 1
    b = nid; nid += 1
    cc = nid; nid += 1
    d = nid; nid += 1
    arcs = []

    def chain(x, y, k):
        nonlocal nid
        prev = x
        for _ in range(k):
            arcs.append((prev, nid, c + rng.choice([0, 0, 1])))
            prev = nid
            nid += 1
        arcs.append((prev, y, c + rng.choice([0, 0, 1])))

    arcs.append((s, a, c))
    arcs.append((s, b, c))
    chain(a, cc, l1)
    chain(b, d, l2)
    arcs.append((a, d, rng.choice([c, c, c + 1, max(1, c - 1)])))
    arcs.append((cc, t, c))
    arcs.append((d, t, c))
    return arcs, nid


def gen(stratum, rng, tier):
    if stratum == "gadget":
        k = rng.choice([1, 1, 1, 2])
        arcs = []
        mode = rng.choice(["parallel", "series"]) if k == 2 else "single"
        nid = 2
        s, t = 0, 1
        if mode == "series":
            mid = nid; nid += 1
            a1, nid = _gadget_arcs(rng, nid, s, mid)
            a2, nid = _gadget_arcs(rng, nid, mid, t)
            arcs = a1 + a2
        else:
            for _ in range(k):
                a1, nid = _gadget_arcs(rng, nid, s, t)
                arcs += a1
        n = nid
        # random context: extra nodes and arcs (may touch the gadget)
        extra_nodes = rng.randint(0, 3)
        n += extra_nodes
        for _ in range(rng.randint(0, 4)):
            u, v = rng.sample(range(n), 2)
            if rng.random() < 0.6 and extra_nodes:
                u = rng.randrange(nid, n)          # context arcs mostly start in the context
            if u != v:
                arcs.append((u, v, rng.choice([0, 1, 1, 2])))
        keep_order = rng.random() < 0.5            # the textbook order, else shuffled
        # relabel node ids randomly so that source/sink are not always 0/1
        perm = list(range(n))
        rng.shuffle(perm)
        arcs = [(perm[u], perm[v], c) for u, v, c in arcs]
        return _finish(rng, n, arcs, perm[s], perm[t], shuffle=not keep_order)
    if stratum == "layered":
        nl = rng.randint(2, 4)
        widths = [rng.randint(2, 4) for _ in range(nl)]
        s, t = 0, 1
        nid = 2
        layers = []
        for w in widths:
            layers.append(list(range(nid, nid + w)))
            nid += w
        p = rng.choice([0.4, 0.5, 0.7])
        arcs = [(s, x, 1) for x in layers[0] if rng.random() < 0.9]
        for la, lb in zip(layers, layers[1:]):
            for x in la:
                for y in lb:
                    if rng.random() < p:
                        arcs.append((x, y, 1))
        arcs += [(x, t, 1) for x in layers[-1] if rng.random() < 0.9]
        if not arcs:
            arcs = [(s, layers[0][0], 1)]
        return _finish(rng, nid, arcs, s, t)
    if stratum == "random":
        n = rng.randint(2, 9)
        s, t = rng.sample(range(n), 2)
        absent_sink = rng.random() < 0.08
        nodes = [x for x in range(n) if not (absent_sink and x == t)]
        arcs = []
        if len(nodes) >= 2:
            for _ in range(rng.randint(0, 2 * n + 2)):
                u, v = rng.sample(nodes, 2)
                arcs.append((u, v, rng.choice([0, 1, 1, 2, 3, 4, 7])))
            if not absent_sink and rng.random() < 0.6:         # plant one s-t path so that most cases carry flow
                inner = [x for x in nodes if x not in (s, t)]
                rng.shuffle(inner)
                chain = [s] + inner[: rng.randint(0, min(3, len(inner)))] + [t]
                arcs += [(a, b, rng.randint(1, 4)) for a, b in zip(chain, chain[1:])]
            for _ in range(rng.choice([0, 0, 1, 2])):          # parallel
                if arcs:
                    u, v, c = rng.choice(arcs)
                    arcs.append((u, v, rng.choice([0, 1, 2, 3])))
            for _ in range(rng.choice([0, 0, 1, 2])):          # anti-parallel
                if arcs:
                    u, v, c = rng.choice(arcs)
                    arcs.append((v, u, rng.choice([0, 1, 2, 3])))
            if rng.random() < 0.3 and not absent_sink:         # arcs into the source / out of the sink
                x = rng.choice(nodes)
                if x != s:
                    arcs.append((x, s, rng.randint(1, 3)))
                y = rng.choice(nodes)
                if y != t:
                    arcs.append((t, y, rng.randint(1, 3)))
        return _finish(rng, n, arcs, s, t)
    if stratum == "bipartite":
        l = rng.randint(1, 5)
        r = rng.randint(1, 5)
        s, t = 0, 1
        L = list(range(2, 2 + l))
        R = list(range(2 + l, 2 + l + r))
        p = rng.choice([0.3, 0.5, 0.7])
        arcs = [(s, x, 1) for x in L] + [(y, t, 1) for y in R]
        arcs += [(x, y, rng.choice([1, 1, 1, 2])) for x in L for y in R if rng.random() < p]
        return _finish(rng, 2 + l + r, arcs, s, t)
    if stratum == "antiparallel":
        # (a) dense small graphs where most pairs carry arcs in both directions, or (b) reverse-arc gadgets with
        # heterogeneous capacities whose arcs also exist in the opposite direction: exercises the
        # cancel-reverse-flow-first branch of the augmentation with a remainder / with more reverse flow than path flow
        if rng.random() < 0.35:
            n = rng.randint(3, 6)
            s, t = rng.sample(range(n), 2)
            arcs = []
            for u in range(n):
                for v in range(u + 1, n):
                    if rng.random() < 0.75:
                        arcs.append((u, v, rng.randint(0, 6)))
                        if rng.random() < 0.8:
                            arcs.append((v, u, rng.randint(0, 6)))
            if rng.random() < 0.3 and arcs:
                u, v, c = rng.choice(arcs)
                arcs.append((u, v, rng.randint(1, 3)))
            return _finish(rng, n, arcs, s, t)
        s, t = 0, 1
        uniform = rng.random() < 0.45
        c0 = rng.choice([2, 3, 4, 6]) if uniform else None
        arcs, nid = _gadget_arcs(rng, 2, s, t, c0)
        if rng.random() < 0.3:
            a2, nid = _gadget_arcs(rng, nid, s, t, c0)
            arcs += a2
        frac = rng.choice([0.3, 0.6, 1.0])
        if uniform:
            # big path flows over arcs whose own (forward) capacity is small but positive
            for u, v, c in list(arcs):
                if rng.random() < frac:
                    arcs.append((v, u, rng.randint(1, max(1, c0 - 1))))
        else:
            arcs = [(u, v, rng.randint(1, 4)) if rng.random() < 0.7 else (u, v, c) for u, v, c in arcs]
            for u, v, c in list(arcs):
                if rng.random() < frac:
                    arcs.append((v, u, rng.randint(0, 4)))
        n = nid + rng.randint(0, 2)
        for _ in range(rng.randint(0, 3)):
            u, v = rng.sample(range(n), 2)
            arcs.append((u, v, rng.randint(0, 3)))
        perm = list(range(n))
        rng.shuffle(perm)
        arcs = [(perm[u], perm[v], c) for u, v, c in arcs]
        return _finish(rng, n, arcs, perm[s], perm[t], shuffle=rng.random() < 0.5)
    if stratum == "dense":
        # nearly complete digraphs with a wide capacity range: many augmentations per node, long cancel chains
        n = rng.randint(4, 8)
        s, t = rng.sample(range(n), 2)
        p = rng.choice([0.6, 0.8, 0.95])
        hi = rng.choice([3, 9, 30])
        arcs = [(u, v, rng.randint(1, hi)) for u in range(n) for v in range(n) if u != v and rng.random() < p]
        return _finish(rng, n, arcs, s, t)
    if stratum == "big":
        n = rng.randint(20, 60)
        s, t = rng.sample(range(n), 2)
        arcs = []
        for _ in range(rng.randint(2 * n, 5 * n)):
            u, v = rng.sample(range(n), 2)
            arcs.append((u, v, rng.choice([1, 1, 2, 3, 5, 9])))
        return _finish(rng, n, arcs, s, t)
    if stratum == "huge":
        # capacities far beyond 2**53: everything (flows, objective) must stay exact integers
        n = rng.randint(3, 6)
        s, t = rng.sample(range(n), 2)
        big = [2 ** 53 + 1, 2 ** 53 + 3, 10 ** 18 + 7, 2 ** 70 + 5, 2 ** 62 - 1, 3, 1]
        arcs = []
        for u in range(n):
            for v in range(n):
                if u != v and rng.random() < 0.5:
                    arcs.append((u, v, rng.choice(big)))
        return _finish(rng, n, arcs, s, t)
    if stratum == "matching-deg2":
        # unit-capacity bipartite matchings where every left node has (about) two candidate partners: long
        # alternating paths, arcs that are filled, emptied again by a later path and needed a third time
        k = rng.randint(4, 9)
        s, t = 0, 1
        L = list(range(2, 2 + k))
        R = list(range(2 + k, 2 + 2 * k))
        arcs = [(s, x, 1) for x in L] + [(y, t, 1) for y in R]
        for i, x in enumerate(L):
            for y in {R[i], R[(i + rng.choice([1, 1, 2])) % k]} | ({rng.choice(R)} if rng.random() < 0.2 else set()):
                arcs.append((x, y, 1))
        return _finish(rng, 2 + 2 * k, arcs, s, t, extra_keys=False)
    if stratum == "twoway-grid":
        # grids whose neighbouring cells are joined in both directions with small capacities: staggered path
        # lengths under shortest-path augmentation, flow pushed over an arc and later cancelled from the other side
        h, w = rng.randint(3, 5), rng.randint(3, 5)
        idx = lambda r, c: r * w + c
        arcs = []
        for r in range(h):
            for c in range(w):
                for dr, dc in ((0, 1), (1, 0)):
                    r2, c2 = r + dr, c + dc
                    if r2 < h and c2 < w and rng.random() < 0.9:
                        arcs.append((idx(r, c), idx(r2, c2), rng.randint(1, 3)))
                        arcs.append((idx(r2, c2), idx(r, c), rng.randint(1, 3)))
        s, t = rng.sample(range(h * w), 2)
        return _finish(rng, h * w, arcs, s, t, extra_keys=False)
    raise ValueError(stratum)


# ---------------------------------------------------------------- judge

def _graph(case):
    from vf.common import fresh

    lab = case["labels"]
    g = {lab[k]: [] for k in case["keys"]}
    for u, v, c, w in case["arcs"]:
        # arc heads are equal-but-distinct objects: node identity is by equality, never by `is`
        g.setdefault(lab[u], []).append((fresh(lab[v]), c, w))
    return g


def _integral(x):
    if isinstance(x, bool):
        return False
    if isinstance(x, int):
        return True
    return isinstance(x, float) and x == x and x not in (float("inf"), float("-inf")) and x == int(x)


def run(case, obs):
    from vf.common import call, fresh, is_crash, short
    from vf.oracles import flow as O

    n, s, t, lab = case["n"], case["s"], case["t"], case["labels"]
    arcs3 = [(u, v, c) for u, v, c, _ in case["arcs"]]
    capp = O.pooled(arcs3)
    pairs = set(capp)
    if len(arcs3) > len(pairs):
        obs.event("mf.cover.parallel-arcs")
    if any((v, u) in pairs for (u, v) in pairs):
        obs.event("mf.cover.antiparallel-arcs")
    if any(c == 0 for _, _, c in arcs3):
        obs.event("mf.cover.zero-capacity")
    if not any(t in (u, v) for u, v, _ in arcs3):
        obs.event("mf.cover.sink-not-in-arcs")

    try:
        truth, cut = O.max_flow(n, arcs3, s, t)
        obs.mode("exact")
        obs.nontrivial = truth >= 1
        if O.ek_without_implicit_reverse(n, arcs3, s, t) < truth:
            obs.event("mf.cover.reverse-arc-needed")
    except O.TooBig:
        truth, cut = None, set()          # above the oracle's size guard: feasibility + residual-BFS certificate only
        obs.mode("certificate_only")
        obs.nontrivial = True

    if (len(arcs3) + 3 * s + t) % 29 == 0:
        # source and sink coincide: nothing separates a node from itself, so the value is 0 and the call has to end
        r0 = call(obs, _flow.max_flow, _graph(case), fresh(lab[s]), fresh(lab[s]), what="max_flow[source=sink]", budget=3_000_000)
        if not is_crash(r0):
            obs.event("mf.source-equals-sink")
            sol0 = r0.solution if isinstance(r0.solution, dict) else {}
            pushed = [f for f in sol0.values() if not isinstance(f, dict)] + [f for d in sol0.values() if isinstance(d, dict) for f in d.values()]
            if r0.objective != 0 or any(f != 0 for f in pushed):
                obs.violate("flow.source-equals-sink", f"max_flow(g, x, x) reports value {r0.objective!r} with flow {short(r0.solution, 200)}")
    res = call(obs, _flow.max_flow, _graph(case), fresh(lab[s]), fresh(lab[t]), what="max_flow", budget=3_000_000)
    if is_crash(res):
        obs.outcome("crash")
        return
    from vf.common import status_name

    obs.outcome(status_name(res))
    sol = res.solution
    if not isinstance(sol, dict):
        obs.violate("flow.shape", f"solution is {type(sol).__name__}, expected dict arc->flow")
        return
    inv = {l: i for i, l in enumerate(lab)}
    fp = {}
    feasible = True
    for key, f in sol.items():
        if not (isinstance(key, tuple) and len(key) == 2 and key[0] in inv and key[1] in inv):
            obs.violate("flow.unknown-arc", f"key {key!r} is not a pair of graph nodes")
            return
        if not _integral(f):
            obs.violate("flow.nonintegral", f"flow[{key!r}]={f!r} on integer capacities")
            return
        fp[(inv[key[0]], inv[key[1]])] = int(f)
    # capacity (pooled) and sign
    for (u, v), f in fp.items():
        obs.event("mf.check.capacity")
        if f < 0:
            obs.violate("flow.negative", f"flow[{lab[u]!r},{lab[v]!r}]={f}")
            feasible = False
        elif f > capp.get((u, v), 0):
            obs.violate("flow.capacity", f"flow[{lab[u]!r},{lab[v]!r}]={f} > pooled capacity {capp.get((u, v), 0)}")
            feasible = False
    # conservation
    net = O.balance(n, fp)  # net outflow
    for x in range(n):
        if x in (s, t):
            continue
        obs.event("mf.check.conservation")
        if net[x] != 0:
            obs.violate("flow.conservation", f"node {lab[x]!r}: outflow-inflow={net[x]}")
            feasible = False
            break
    # objective = net inflow of the sink
    obs.event("mf.check.objective")
    obj = res.objective
    if not _integral(obj) or -net[t] != obj:
        obs.violate("flow.objective", f"objective={obj!r}, net inflow of the sink={-net[t]} (net outflow of the source={net[s]})")
    # maximality certificate on the returned flow
    if feasible:
        obs.event("mf.check.residual-bfs")
        p = O.augmenting_path(n, capp, fp, s, t)
        if p is not None:
            obs.violate("flow.augmenting-path", f"residual network of the returned flow still has the path {[lab[x] for x in p]!r}; "
                                                f"value {-net[t]}, maximum {truth}")
    if truth is None:
        return
    obs.event("mf.oracle.value")
    if obj != truth:
        cutarcs = [(lab[u], lab[v], c) for u, v, c in arcs3 if u in cut and v not in cut and c > 0]
        obs.violate("flow.value", f"objective={obj!r}, maximum flow={truth} (min cut {short(cutarcs, 300)})")
        return
    if case["arcs"] and (len(case["arcs"]) * 5 + n) % 16 == 0 and n <= 40:
        # the caller's graph object, solved, edited in place (one capacity changed), solved again: every call is about
        # the graph as it is at that moment
        g = _graph(case)
        r1 = call(obs, _flow.max_flow, g, fresh(lab[s]), fresh(lab[t]), what="max_flow[before edit]", budget=3_000_000)
        k = (len(case["arcs"]) * 7 + n) % len(case["arcs"])
        u, v, c, w = case["arcs"][k]
        newc = 0 if c > 0 and (k % 2 == 0) else c + 3
        lst = g[lab[u]]
        pos = [i for i, a in enumerate(lst) if a[0] == lab[v] and a[1] == c][0]
        lst[pos] = (lst[pos][0], newc, lst[pos][2])
        arcs_e = [(a, b, (newc if i == k else cc)) for i, (a, b, cc, _) in enumerate(case["arcs"])]
        try:
            truth2, _cut2 = O.max_flow(n, arcs_e, s, t)
        except O.TooBig:
            return
        r2 = call(obs, _flow.max_flow, g, fresh(lab[s]), fresh(lab[t]), what="max_flow[after edit]", budget=3_000_000)
        obs.event("mf.edited-graph.checked")
        if not is_crash(r1) and r1.objective != truth:
            obs.violate("flow.value", f"second call on an equal graph: objective={r1.objective!r}, maximum flow={truth}")
        if not is_crash(r2) and r2.objective != truth2:
            obs.violate("flow.value-after-edit", f"same graph object after capacity of {lab[u]!r}->{lab[v]!r} went {c} -> {newc}: "
                        f"objective={r2.objective!r}, maximum flow={truth2} (before the edit {truth})")


def shrink(case):
    arcs = case["arcs"]
    for i in range(len(arcs)):
        c = dict(case)
        c["arcs"] = arcs[:i] + arcs[i + 1:]
        yield c
    for i, (u, v, cp, w) in enumerate(arcs):
        if cp > 1:
            c = dict(case)
            c["arcs"] = arcs[:i] + [(u, v, cp - 1, w)] + arcs[i + 1:]
            yield c
    if case["labels"] != list(range(case["n"])):
        c = dict(case)
        c["labels"] = list(range(case["n"]))
        yield c
    extra = [k for k in case["keys"] if k not in {a[0] for a in arcs}]
    if extra:
        c = dict(case)
        c["keys"] = [k for k in case["keys"] if k not in extra]
        yield c
    # compact the node ids once nothing else refers to the unused ones (order of first use is kept)
    used = sorted({x for a in arcs for x in a[:2]} | {case["s"], case["t"]} | set(case["keys"]))
    if len(used) < case["n"] and case["labels"] == list(range(case["n"])):
        m = {x: i for i, x in enumerate(used)}
        yield {"n": len(used), "arcs": [(m[u], m[v], cp, w) for u, v, cp, w in arcs], "s": m[case["s"]], "t": m[case["t"]],
               "labels": list(range(len(used))), "keys": [m[k] for k in case["keys"]]}


def finding_keys(case, obs):
    return set(obs.mech)
