"""C09 — min_cost_flow / network_simplex / solve_assignment: feasible, minimum cost, agreeing, terminating.

Boundary contracts on the real public functions, judged against an exact arc-list oracle
(successive shortest paths + negative-cycle self-check, vf/oracles/flow.py).  The returned
dicts are read as pair flows (parallel arcs pooled).  An L2 monitor (vf/monitors/ns_tree.py)
reads the spanning-tree arrays of network_simplex at every pivot and at return; what it finds is
recorded as events / mechanism keys and triggers a bounded re-examination of the same instance
under other arc orders, it is never a verdict by itself.
"""

from vf.common import fresh as _fresh

ID = "C09"
RULE = ("composite cases: one seeded random network (stratum decides shape: simple / parallel / anti-parallel arcs, negative "
        "costs generated from node potentials so that no negative cycle exists, saturating demands, zero capacities, "
        "infeasible demands, multi-source/sink balanced supplies, deep path-like trees, degenerate 0/1 data, larger graphs) "
        "is solved by min_cost_flow (s-t demand, random node relabelling), by network_simplex on the same s-t demand and by "
        "network_simplex on a balanced multi-node supply vector; plus rectangular integer matrices for solve_assignment. "
        "non-trivial = the oracle routes >= 1 unit or proves infeasibility of a non-zero demand; distinct = distinct case data")
ASSUMPTIONS = [
    "non-negative integer capacities, integer costs, no negative-cost cycle, no self-loops, source != sink",
    "network_simplex supplies are integers summing to 0; node ids 0..n-1",
    "returned flow dicts are read per ordered node pair (parallel arcs pooled); reported cost must lie between the cheapest and "
    "dearest distribution of the pair flows over the parallel arcs (equal for instances without parallel arcs)",
    "default max_iter: status must be OPTIMAL or INFEASIBLE and is judged exactly; stratum ns-maxiter (user-supplied tiny "
    "max_iter, 0 included): MAX_ITER is accepted as 'no claim', an OPTIMAL or INFEASIBLE answer is judged exactly as otherwise",
    "termination = return within a step budget of >= 50x the largest step count seen on the unchanged tree for the stratum",
]
QUICK_SCALE = 2.5  # quick-tier multiplier (idle 16-core timing: ~10 s at scale 1)
STRATA = [
    ("simple", 1400, 24000),
    ("parallel", 1200, 20000),
    ("antiparallel", 1200, 20000),
    ("negcost", 1200, 20000),
    ("saturated", 900, 15000),
    ("zero-cap", 700, 12000),
    ("infeasible-demand", 900, 15000),
    ("balanced-multi", 1200, 20000),
    ("deep", 1200, 20000),
    ("degenerate", 1200, 20000),
    ("huge-cost", 900, 12000),
    ("neg-dag", 1200, 15000),
    ("larger", 120, 2500),
    ("scale", 1, 12),
    ("ns-maxiter", 500, 8000),
    ("assignment", 1500, 25000),
]
REQUIRED_EVENTS = {"any": ["mcf.check.capacity", "mcf.check.balance", "mcf.check.cost-bookkeeping", "mcf.oracle.cost",
                           "mcf.oracle.infeasible", "ns.check.capacity", "ns.check.balance", "ns.check.cost-bookkeeping",
                           "ns.oracle.cost", "ns.oracle.infeasible", "agree.checked", "asg.check.matching", "asg.oracle.cost",
                           "ns.l2.pivot-checked", "ns.l2.final-checked", "ns.l2.thread-preorder",
                           "ns.l2.tree-arc-reduced-cost-zero"]}

# step budgets: F_ref = largest fuel of one call on the unchanged tree (quick seeds 0-4, thorough seeds 0 and 2):
# networks with n <= 14: < 5k, solve_assignment up to 9x9: < 9k, "larger" (10-30 nodes): < 32k.  Budget >= 50 x F_ref.
BUDGET_SMALL = 300_000
BUDGET_ASSIGN = 600_000
BUDGET_LARGE = 3_000_000
HANG = "no-return-within-budget"

_flow = None
_ns = None
_mon = None
_Status = None
_shrink = {"hang": False, "yielded": 0}   # minimising a hang re-runs the budget many times: bounded separately
SHRINK_HANG_MAX = 8


def setup():
    global _flow, _ns, _mon, _Status
    from vf.instrument import mod
    from vf.monitors import ns_tree

    ns_tree.attach()
    _mon = ns_tree
    _flow = mod("solvor.flow")
    _ns = mod("solvor.network_simplex")
    _Status = mod("solvor.types").Status


# ---------------------------------------------------------------- generators

COSTS = [0, 1, 1, 2, 3, 5, 8]
CAPS = [0, 1, 1, 2, 3, 4]


def _simple_arcs(rng, n, m, caps=CAPS, costs=COSTS):
    pairs = [(u, v) for u in range(n) for v in range(u + 1, n)]
    rng.shuffle(pairs)
    arcs = []
    for u, v in pairs[:m]:
        if rng.random() < 0.5:
            u, v = v, u
        arcs.append((u, v, rng.choice(caps), rng.choice(costs)))
    return arcs


def _transfers(rng, n, k, qmax):
    sup = [0] * n
    for _ in range(k):
        a, b = rng.sample(range(n), 2)
        q = rng.randint(1, qmax)
        sup[a] += q
        sup[b] -= q
    return sup


def _supplies_from_flow(rng, n, arcs, p_use=0.6, p_full=0.6):
    """Balanced supplies that are feasible by construction: the net outflow of a random sub-flow."""
    sup = [0] * n
    for u, v, c, w in arcs:
        if c > 0 and rng.random() < p_use:
            f = c if rng.random() < p_full else rng.randint(1, c)
            sup[u] += f
            sup[v] -= f
    return sup


def _labels(rng, n):
    kind = rng.choice(["none", "none", "perm", "str", "tuple", "mixed", "falsy"])
    if kind == "none":
        return None
    if kind == "falsy":
        # None, "", () and frozenset() are ordinary hashable node labels
        special = [None, "", (), frozenset()]
        rng.shuffle(special)
        labs = [100 + i for i in range(n)]
        for k, pos in enumerate(rng.sample(range(n), min(n, rng.randint(1, len(special))))):
            labs[pos] = special[k]
        return labs
    if kind == "perm":
        return rng.sample(range(0, 3 * n + 5), n)
    if kind == "str":
        return [f"{rng.choice('abstuv')}{i}" for i in rng.sample(range(100), n)]
    if kind == "tuple":
        return [(i // 7, i % 7) for i in rng.sample(range(70), n)]
    ids = rng.sample(range(-20, 80), n)
    return [i if j % 3 == 0 else (f"v{i}" if j % 3 == 1 else ("t", i)) for j, i in enumerate(ids)]


def _potentials(rng, n, arcs, spread=4):
    """Replace every cost w >= 0 by w + p[u] - p[v]: negative arcs, every cycle keeps its non-negative cost."""
    p = [rng.randint(-spread, spread) for _ in range(n)]
    return [(u, v, c, w + p[u] - p[v]) for u, v, c, w in arcs]


def _case(rng, n, arcs, s=None, t=None, demand=None, multi=None, max_iter=None, labels=True):
    if rng.random() < 0.7:
        rng.shuffle(arcs)
    return {"kind": "net", "n": n, "arcs": arcs, "s": s, "t": t, "demand": demand, "multi": multi,
            "labels": _labels(rng, n) if (labels and n <= 60) else None, "max_iter": max_iter,
            "reseed": rng.randrange(1 << 30)}


def _maxflow(n, arcs, s, t):
    from vf.oracles import flow as O

    return O.max_flow(n, [(u, v, c) for u, v, c, _ in arcs], s, t)[0]


def _demand(rng, n, arcs, s, t, mode="mixed"):
    mf = _maxflow(n, arcs, s, t)
    if mode == "saturating":
        return mf
    if mode == "infeasible":
        return mf + rng.randint(1, 3)
    r = rng.random()
    if r < 0.1:
        return 0
    if r < 0.22:
        return mf + 1
    if r < 0.5:
        return mf
    return rng.randint(min(1, mf), max(mf, min(1, mf)))


def _decorate(rng, arcs, parallel=0, anti=0):
    for _ in range(parallel):
        if arcs:
            u, v, c, w = rng.choice(arcs)
            arcs.append((u, v, rng.choice([1, 1, 2, 3]), rng.choice([0, 1, 2, 4, 6])))
    for _ in range(anti):
        if arcs:
            u, v, c, w = rng.choice(arcs)
            arcs.append((v, u, rng.choice([1, 1, 2, 3]), rng.choice([0, 1, 2, 4, 6])))
    return arcs


def _base_net(rng, lo=2, hi=7, caps=CAPS):
    n = rng.randint(lo, hi)
    maxm = n * (n - 1) // 2
    m = rng.randint(1, min(maxm, 2 * n + 2))
    arcs = _simple_arcs(rng, n, m, caps=caps)
    s, t = rng.sample(range(n), 2)
    if rng.random() < 0.5 and n > 2:
        # plant a directed s-t chain so that most instances route something (keeps the arc set simple)
        inner = [x for x in range(n) if x not in (s, t)]
        rng.shuffle(inner)
        chain = [s] + inner[: rng.randint(0, min(3, len(inner)))] + [t]
        have = {frozenset(a[:2]) for a in arcs}
        for a, b in zip(chain, chain[1:]):
            if frozenset((a, b)) not in have:
                arcs.append((a, b, rng.randint(1, 4), rng.choice(COSTS)))
                have.add(frozenset((a, b)))
            else:
                arcs = [((a, b, max(1, x[2]), x[3]) if frozenset(x[:2]) == frozenset((a, b)) else x) for x in arcs]
    return n, arcs, s, t


def _multi(rng, n, arcs, p_feasible=0.7):
    if rng.random() < p_feasible:
        sup = _supplies_from_flow(rng, n, arcs, p_use=rng.choice([0.3, 0.6, 0.9]))
        if any(sup):
            return sup
    return _transfers(rng, n, rng.randint(1, 3), 3)


def gen(stratum, rng, tier):
    _shrink["yielded"] = 0
    if stratum == "assignment":
        r, c = rng.randint(1, 6), rng.randint(1, 6)
        if rng.random() < 0.08:
            r, c = rng.randint(1, 9), rng.randint(1, 9)
        lo, hi = rng.choice([(0, 9), (0, 3), (-5, 9), (1, 50), (0, 1)])
        m = [[rng.randint(lo, hi) for _ in range(c)] for _ in range(r)]
        if rng.random() < 0.2 and r > 1:
            m[rng.randrange(r)] = list(m[rng.randrange(r)])      # duplicate row: ties
        return {"kind": "assign", "matrix": m}

    if stratum in ("simple", "parallel", "antiparallel", "negcost", "saturated", "zero-cap", "infeasible-demand", "ns-maxiter"):
        caps = CAPS
        if stratum == "zero-cap":
            caps = [0, 0, 0, 1, 2, 3]
        n, arcs, s, t = _base_net(rng, caps=caps)
        if stratum == "parallel":
            arcs = _decorate(rng, arcs, parallel=rng.randint(1, 3))
        elif stratum == "antiparallel":
            arcs = _decorate(rng, arcs, anti=rng.randint(1, 3))
        elif stratum in ("negcost", "saturated", "zero-cap", "infeasible-demand", "ns-maxiter"):
            arcs = _decorate(rng, arcs, parallel=rng.choice([0, 0, 1]), anti=rng.choice([0, 0, 1]))
        if stratum == "negcost" or (stratum in ("saturated", "infeasible-demand") and rng.random() < 0.25):
            arcs = _potentials(rng, n, arcs)
        if stratum in ("zero-cap", "infeasible-demand") and rng.random() < 0.15:
            n += 1                      # the sink is a node that occurs in no arc
            t = n - 1
        mode = {"saturated": "saturating", "infeasible-demand": "infeasible"}.get(stratum, "mixed")
        d = _demand(rng, n, arcs, s, t, mode)
        if stratum == "saturated":
            multi = _supplies_from_flow(rng, n, arcs, p_use=0.9, p_full=0.9)
        elif stratum == "infeasible-demand":
            multi = _supplies_from_flow(rng, n, arcs, p_use=0.7, p_full=0.9)
            extra = _transfers(rng, n, 1, 2)
            multi = [a + b for a, b in zip(multi, extra)]
        else:
            multi = _multi(rng, n, arcs) if rng.random() < 0.8 else None
        mi = rng.choice([0, 1, 2, 3, 5, 8]) if stratum == "ns-maxiter" else None
        return _case(rng, n, arcs, s, t, d, multi, max_iter=mi)

    if stratum == "balanced-multi":
        n = rng.randint(4, 9)
        m = rng.randint(n, min(n * (n - 1) // 2, 2 * n + 3))
        arcs = _simple_arcs(rng, n, m, caps=[1, 2, 3, 4, 5, 6], costs=[0, 1, 2, 3, 5, 8, 13])
        arcs = _decorate(rng, arcs, parallel=rng.choice([0, 0, 1]), anti=rng.choice([0, 1, 2]))
        if rng.random() < 0.2:
            arcs = _potentials(rng, n, arcs)
        if rng.random() < 0.6:
            multi = _supplies_from_flow(rng, n, arcs, p_use=rng.choice([0.4, 0.7]), p_full=0.5)
        else:
            multi = _transfers(rng, n, rng.randint(2, 4), 5)
        s, t = rng.sample(range(n), 2)
        d = _demand(rng, n, arcs, s, t) if rng.random() < 0.5 else None
        return _case(rng, n, arcs, s if d is not None else None, t if d is not None else None, d, multi)

    if stratum == "deep":
        # a long path (both directions usable on most links) plus a few chords: basis trees are deep, pivots cut
        # tree paths in the middle (the subtree that is re-hung must be re-rooted)
        n = rng.randint(6, 14)
        order = list(range(n))
        rng.shuffle(order)
        arcs = []
        for a, b in zip(order, order[1:]):
            c = rng.choice([1, 2, 2, 3, 4])
            w = rng.choice([1, 2, 3, 5])
            r = rng.random()
            if r < 0.55:
                arcs.append((a, b, c, w))
                arcs.append((b, a, rng.choice([1, 2, 3]), rng.choice([1, 2, 3, 5])))
            elif r < 0.8:
                arcs.append((a, b, c, w))
            else:
                arcs.append((b, a, c, w))
        for _ in range(rng.randint(1, 5)):
            i, j = sorted(rng.sample(range(n), 2))
            if j - i < 2:
                continue
            a, b = (order[i], order[j]) if rng.random() < 0.5 else (order[j], order[i])
            arcs.append((a, b, rng.choice([1, 1, 2, 3]), rng.choice([0, 1, 2, 4, 7])))
        if rng.random() < 0.15:
            arcs = _potentials(rng, n, arcs, spread=3)
        if rng.random() < 0.5:
            multi = _supplies_from_flow(rng, n, arcs, p_use=0.5, p_full=0.5)
        else:
            multi = [0] * n
            ends = [order[0], order[-1], order[n // 2], order[1], order[-2]]
            for _ in range(rng.randint(1, 3)):
                a, b = rng.sample(ends, 2)
                if a != b:
                    q = rng.randint(1, 3)
                    multi[a] += q
                    multi[b] -= q
        s, t = (order[0], order[-1]) if rng.random() < 0.5 else rng.sample(range(n), 2)
        d = _demand(rng, n, arcs, s, t) if rng.random() < 0.6 else None
        return _case(rng, n, arcs, s if d is not None else None, t if d is not None else None, d, multi)

    if stratum == "degenerate":
        # 0/1 data, many ties, zero-supply nodes, zero-capacity arcs: degenerate pivots and state flips
        n = rng.randint(4, 9)
        m = rng.randint(n, min(n * (n - 1) // 2, 2 * n + 4))
        arcs = _simple_arcs(rng, n, m, caps=[0, 1, 1, 1, 2], costs=rng.choice([[0, 1], [1], [0, 0, 1, 2], [1, 2]]))
        arcs = _decorate(rng, arcs, parallel=rng.choice([0, 1]), anti=rng.choice([0, 1, 2]))
        if rng.random() < 0.3:
            arcs = _potentials(rng, n, arcs, spread=1)
        if rng.random() < 0.5:
            multi = _supplies_from_flow(rng, n, arcs, p_use=0.5, p_full=1.0)
        else:
            multi = _transfers(rng, n, rng.randint(1, 2), 1)
        s, t = rng.sample(range(n), 2)
        d = _demand(rng, n, arcs, s, t) if rng.random() < 0.5 else None
        return _case(rng, n, arcs, s if d is not None else None, t if d is not None else None, d, multi)

    if stratum == "neg-dag":
        # dense acyclic networks, most costs negative, one or two units to ship and every other node a pure transit node:
        # long runs of pivots that move no flow (degenerate pivots are progress here, not cycling)
        n = rng.randint(6, 10)
        order = list(range(n))
        rng.shuffle(order)
        negp = rng.choice([0.6, 0.7, 0.8])
        arcs = []
        for _ in range(int(rng.choice([2.5, 3.0, 3.5]) * n)):
            i, j = sorted(rng.sample(range(n), 2))
            w = -rng.randint(1, 9) if rng.random() < negp else rng.randint(0, 9)
            arcs.append((order[i], order[j], rng.randint(1, 3), w))
        q = rng.randint(1, 2)
        multi = [0] * n
        multi[order[0]], multi[order[-1]] = q, -q
        return _case(rng, n, arcs, order[0], order[-1], q, multi)
    if stratum == "scale":
        # a pipeline of more than a thousand nodes (the only cheap route is the whole chain: optimum known by
        # construction), dearer express arcs and a return arc that never pay: basis trees and augmenting paths as deep as
        # the network is long, under the interpreter's default recursion limit
        n = rng.randint(1050, 1300)
        q = rng.randint(1, 3)
        arcs = [(i, i + 1, rng.randint(q, q + 3), 1) for i in range(n - 1)]
        for _ in range(rng.randint(1, 6)):
            i = rng.randrange(n - 40)
            j = i + rng.randint(3, 30)
            arcs.append((i, j, rng.randint(1, 2), (j - i) + rng.randint(1, 5)))
        arcs.append((n - 1, 0, 2, rng.randint(1, 9)))
        if rng.random() < 0.5:
            rng.shuffle(arcs)
        return {"kind": "scale", "n": n, "arcs": arcs, "q": q}
    if stratum == "huge-cost":
        # integer costs far above 2**53 (lexicographic objectives big*primary + secondary, nanosecond or satoshi
        # totals): routes differ only in the low digits, so any float in the labels or the bookkeeping loses them
        c = gen(rng.choice(["simple", "parallel", "antiparallel", "deep", "balanced-multi", "saturated"]), rng, tier)
        big = rng.choice([2 ** 53, 2 ** 60, 10 ** 18, 10 ** 18, 3 * 10 ** 20])
        mode = rng.choice(["lex", "lex", "offset"])
        if any(w < 0 for _, _, _, w in c["arcs"]):
            mode = "lex"  # (an offset would turn cycles with more negative than positive arcs negative)
        arcs = []
        for u, v, cap, w in c["arcs"]:
            if mode == "lex":
                # low digits only on non-negative arcs: every cycle keeps a non-negative total
                arcs.append((u, v, cap, big * w + (rng.randint(0, 5) if w >= 0 else 0)))
            else:
                arcs.append((u, v, cap, big + w))
        c["arcs"] = arcs
        return c
    if stratum == "larger":
        n = rng.randint(10, 30)
        arcs = []
        for _ in range(rng.randint(2 * n, 4 * n)):
            u, v = rng.sample(range(n), 2)
            arcs.append((u, v, rng.choice([1, 2, 3, 5, 8]), rng.choice([0, 1, 2, 3, 5, 8, 13])))
        if rng.random() < 0.3:
            arcs = _potentials(rng, n, arcs)
        if rng.random() < 0.6:
            multi = _supplies_from_flow(rng, n, arcs, p_use=0.15, p_full=0.5)
        else:
            multi = _transfers(rng, n, rng.randint(2, 6), 4)
        s, t = rng.sample(range(n), 2)
        d = _demand(rng, n, arcs, s, t) if rng.random() < 0.5 else None
        return _case(rng, n, arcs, s if d is not None else None, t if d is not None else None, d, multi)
    raise ValueError(stratum)


# ---------------------------------------------------------------- judging a returned flow

def _integral(x):
    if isinstance(x, bool):
        return False
    if isinstance(x, int):
        return True
    return isinstance(x, float) and x == x and abs(x) != float("inf") and x == int(x)


def _judge(obs, who, res, n, arcs, sup, truth, inv=None, show=None, judge_optimum=True):
    """who: 'mcf' | 'ns'.  truth: None (infeasible) or (cost, flows).  Returns ('infeasible'|'flow'|None, cost)."""
    from vf.common import short, status_name
    from vf.oracles import flow as O

    st = status_name(res)
    obs.outcome(f"{who}:{st}")
    show = show or (lambda x: x)
    if st == "MAX_ITER" and not judge_optimum:
        # a caller-supplied tiny iteration limit ran out: the honest answer, no claim to judge
        obs.event(f"{who}.maxiter.reported")
        return None, None
    if st == "INFEASIBLE":
        obs.event(f"{who}.oracle.infeasible")
        if truth is not None:
            obs.violate(f"{who}.wrong-infeasible", f"INFEASIBLE reported, but a feasible flow of cost {truth[0]} exists "
                                                    f"(per-arc flows {short(truth[1], 300)})")
        return "infeasible", None
    if st != "OPTIMAL":
        obs.violate(f"{who}.status", f"status {st}: neither a flow claimed optimal nor INFEASIBLE")
        return None, None
    sol = res.solution
    if not isinstance(sol, dict):
        obs.violate(f"{who}.shape", f"solution is {type(sol).__name__}")
        return None, None
    fp = {}
    for key, f in sol.items():
        ok = isinstance(key, tuple) and len(key) == 2
        if ok and inv is not None:
            ok = key[0] in inv and key[1] in inv
            if ok:
                key = (inv[key[0]], inv[key[1]])
        elif ok:
            ok = all(isinstance(x, int) and 0 <= x < n for x in key)
        if not ok:
            obs.violate(f"{who}.unknown-arc", f"flow key {key!r} does not name two nodes of the network")
            return None, None
        if not _integral(f):
            obs.violate(f"{who}.nonintegral", f"flow{key!r}={f!r} on integral data")
            return None, None
        fp[key] = fp.get(key, 0) + int(f)
    capp = O.pooled(arcs)
    feasible = True
    for (u, v), f in fp.items():
        obs.event(f"{who}.check.capacity")
        if f < 0:
            obs.violate(f"{who}.negative", f"flow[{show(u)!r},{show(v)!r}]={f}")
            feasible = False
        elif f > capp.get((u, v), 0):
            obs.violate(f"{who}.capacity", f"flow[{show(u)!r},{show(v)!r}]={f} > pooled capacity {capp.get((u, v), 0)}")
            feasible = False
    obs.event(f"{who}.check.balance", n)
    net = O.balance(n, fp)
    if net != list(sup):
        x = next(i for i in range(n) if net[i] != sup[i])
        obs.violate(f"{who}.balance", f"node {show(x)!r}: net outflow {net[x]}, required {sup[x]} (flow {short(sol, 300)})")
        feasible = False
    obs.event(f"{who}.check.cost-bookkeeping")
    lo, hi = O.pair_cost_range(arcs, fp)
    obj = res.objective
    if not _integral(obj):
        obs.violate(f"{who}.cost-mismatch", f"objective {obj!r} is not an integer on integral data")
    elif feasible and not (lo <= obj <= hi):
        obs.violate(f"{who}.cost-mismatch", f"objective {obj!r}, but the returned flow costs " +
                    (f"{lo}" if lo == hi else f"between {lo} and {hi} (parallel arcs)") + f" (flow {short(sol, 300)})")
    if not judge_optimum:
        obs.event(f"{who}.maxiter.claim-judged")
    obs.event(f"{who}.oracle.cost")
    if truth is None:
        obs.violate(f"{who}.flow-on-infeasible", f"status OPTIMAL with cost {obj!r}, but no feasible flow exists")
    elif obj != truth[0]:
        obs.violate(f"{who}.not-optimal", f"objective {obj!r}, minimum cost {truth[0]} (oracle per-arc flows {short(truth[1], 300)})")
    return "flow", obj


def _oracle(obs, n, arcs, sup):
    from vf.oracles import flow as O

    try:
        r = O.min_cost_flow(n, arcs, sup)
    except O.OutOfDomain as e:
        obs.inconc(f"generator produced an instance outside the domain / oracle self-check failed: {e}")
        return "skip"
    except O.TooBig as e:
        obs.mode("certificate_only")
        obs.inconc(f"oracle size guard: {e}")
        return "skip"
    obs.mode("exact")
    return r


def _drain_monitor(obs, rec, default_iter=True):
    for k, v in rec.counts.items():
        obs.event(k, v)
    if rec.monitor_errors:
        obs.event("ns.l2.monitor-error", rec.monitor_errors)
    anomaly = False
    if rec.first_break is not None:
        piv, bad, mech = rec.first_break
        anomaly = True
        obs.event("ns.l2.anomaly.basis-inconsistent")
        obs.mech.add("ns.tree-inconsistent")
        for b in bad:
            obs.mech.add("ns.l2:" + b)
        if mech:
            obs.event("ns.l2.anomaly.after-" + mech)
            obs.mech.add("ns.l2:after-" + mech)
        obs.mech.add(f"ns.l2:first-break-at-pivot-{min(piv, 9)}{'+' if piv > 9 else ''}")
    if rec.final is not None:
        if rec.final["basis"]:
            anomaly = True
            obs.event("ns.l2.anomaly.final-basis-inconsistent")
            obs.mech.add("ns.tree-inconsistent")
        if not default_iter:
            if rec.final["can_still_enter"]:
                obs.event("ns.maxiter.exit-with-improving-arc")
        else:
            if rec.final["can_still_enter"]:
                anomaly = True
                obs.event("ns.l2.anomaly.final-improving-arc-left")
                obs.mech.add("ns.exit-with-improving-arc")
            if rec.final["hit_max_iter"]:
                obs.event("ns.l2.anomaly.exit-at-default-max-iter")
                obs.mech.add("ns.exit-at-max-iter")
    return anomaly


def _run_ns(obs, n, arcs, sup, truth, tag, max_iter=None, budget=BUDGET_SMALL):
    from vf.common import call, is_crash

    rec = _mon.begin()
    kw = {} if max_iter is None else {"max_iter": max_iter}
    try:
        res = call(obs, _ns.network_simplex, n, [tuple(a) for a in arcs], list(sup), what=f"network_simplex[{tag}]",
                   budget=budget, hang_cls=HANG, **kw)
    finally:
        _mon.end()
    anomaly = _drain_monitor(obs, rec, default_iter=max_iter is None)
    obs.event("ns.pivots", rec.pivots)
    if is_crash(res):
        obs.outcome("ns:crash")
        return None, None, anomaly
    kind, cost = _judge(obs, "ns", res, n, arcs, sup, truth, judge_optimum=max_iter is None)
    return kind, cost, anomaly


def _run_net(case, obs):
    from random import Random

    from vf.common import call, is_crash

    n, arcs = case["n"], [tuple(a) for a in case["arcs"]]
    budget = BUDGET_LARGE if n > 14 else BUDGET_SMALL
    pairs = {(a[0], a[1]) for a in arcs}
    if len(pairs) < len(arcs):
        obs.event("cover.parallel-arcs")
    if any((v, u) in pairs for u, v in pairs):
        obs.event("cover.antiparallel-arcs")
    if any(a[3] < 0 for a in arcs):
        obs.event("cover.negative-cost")
    if any(a[2] == 0 for a in arcs):
        obs.event("cover.zero-capacity")
    max_iter = case.get("max_iter")
    nontrivial = False
    anomalies = []  # (supplies, truth)

    if case["demand"] is not None:
        s, t, d = case["s"], case["t"], case["demand"]
        sup = [0] * n
        sup[s] += d
        sup[t] -= d
        truth = _oracle(obs, n, arcs, sup)
        if truth != "skip":
            nontrivial |= d > 0
            if truth is not None and d > 0 and _bottleneck_saturated(n, arcs, s, t, d):
                obs.event("cover.saturating-demand")
            lab = case["labels"] or list(range(n))
            inv = {l: i for i, l in enumerate(lab)}
            graph = {}
            for u, v, c, w in arcs:
                graph.setdefault(lab[u], []).append((_fresh(lab[v]), c, w))  # equal-but-distinct label objects
            if max_iter is None:
                res = call(obs, _flow.min_cost_flow, graph, _fresh(lab[s]), _fresh(lab[t]), d, what="min_cost_flow", budget=budget, hang_cls=HANG)
                if is_crash(res):
                    obs.outcome("mcf:crash")
                    k1 = c1 = None
                else:
                    k1, c1 = _judge(obs, "mcf", res, n, arcs, sup, truth, inv=inv, show=lambda x: lab[x])
            else:
                k1 = c1 = None
            k2, c2, an = (None, None, False) if _hung(obs) else _run_ns(obs, n, arcs, sup, truth, "s-t", max_iter=max_iter, budget=budget)
            if an:
                anomalies.append((sup, truth))
            if k1 is not None and k2 is not None:
                obs.event("agree.checked")
                if k1 != k2:
                    obs.violate("agree.status", f"min_cost_flow says {k1}, network_simplex says {k2} on the same s-t instance")
                elif k1 == "flow" and c1 != c2:
                    obs.violate("agree.cost", f"min_cost_flow cost {c1!r} != network_simplex cost {c2!r} (minimum {truth[0] if truth else None})")

    if case["multi"] is not None and not _hung(obs):
        sup = list(case["multi"])
        truth = _oracle(obs, n, arcs, sup)
        if truth != "skip":
            nontrivial |= any(sup)
            if sum(1 for x in sup if x) > 2:
                obs.event("cover.multi-source-sink")
            _, _, an = _run_ns(obs, n, arcs, sup, truth, "multi", max_iter=max_iter, budget=budget)
            if an:
                anomalies.append((sup, truth))

    # bounded re-examination after an internal anomaly: same instance, other arc orders (same optimum)
    if anomalies and max_iter is None and not _hung(obs):
        rr = Random(case.get("reseed", 0))
        for sup, truth in anomalies[:2]:
            for k in range(3):
                perm = list(arcs)
                if k == 0:
                    perm.reverse()
                else:
                    rr.shuffle(perm)
                if _hung(obs):
                    break
                obs.event("ns.l2.reexamined")
                _run_ns(obs, n, perm, sup, truth, f"re-exam{k}", budget=budget)
    obs.nontrivial = nontrivial


def _bottleneck_saturated(n, arcs, s, t, d):
    return d == _maxflow(n, arcs, s, t)


# ---------------------------------------------------------------- assignment

def _run_assign(case, obs):
    from vf.common import call, is_crash, status_name
    from vf.oracles import flow as O

    M = case["matrix"]
    r = len(M)
    c = len(M[0]) if r else 0
    k = min(r, c)
    res = call(obs, _flow.solve_assignment, [list(row) for row in M], what="solve_assignment", budget=BUDGET_ASSIGN, hang_cls=HANG)
    obs.nontrivial = k >= 1
    if is_crash(res):
        obs.outcome("asg:crash")
        return
    obs.outcome("asg:" + status_name(res))
    if status_name(res) != "OPTIMAL":
        obs.violate("asg.status", f"status {status_name(res)} for a {r}x{c} matrix (a matching of size {k} always exists)")
        return
    a = res.solution
    obs.event("asg.check.matching")
    if not isinstance(a, (list, tuple)) or len(a) != r or any(isinstance(j, bool) or not isinstance(j, int) for j in a):
        obs.violate("asg.shape", f"assignment {a!r} for {r} rows")
        return
    used = [j for j in a if j != -1]
    if any(not (0 <= j < c) for j in used):
        obs.violate("asg.column-range", f"assignment {a!r}, {c} columns")
        return
    if len(set(used)) != len(used):
        obs.violate("asg.column-twice", f"assignment {a!r}")
        return
    if len(used) != k:
        obs.violate("asg.size", f"{len(used)} rows assigned, expected min(r,c)={k}: {a!r}")
        return
    obs.event("asg.check.cost-bookkeeping")
    val = sum(M[i][j] for i, j in enumerate(a) if j != -1)
    if res.objective != val:
        obs.violate("asg.cost-mismatch", f"objective {res.objective!r}, assignment {a!r} costs {val}")
    obs.event("asg.oracle.cost")
    obs.mode("exact")
    best = O.assignment_optimum(M)
    if val != best or res.objective != best:
        obs.violate("asg.not-optimal", f"assignment {a!r} costs {val} (reported {res.objective!r}), optimum {best}")


def _run_scale(case, obs):
    from vf.common import call, is_crash

    n, arcs, q = case["n"], case["arcs"], case["q"]
    want = q * (n - 1)
    chain = {(i, i + 1) for i in range(n - 1)}
    supplies = [0] * n
    supplies[0], supplies[n - 1] = q, -q
    B = 800_000_000  # observed on the unchanged tree: up to 32M steps (n = 1600)

    def judge(who, res, flows):
        obs.event("scale.judged")
        st = getattr(res.status, "name", str(res.status))
        if st != "OPTIMAL":
            obs.violate("scale.status", f"{who}: status {st}; routing {q} units along the chain of {n} nodes is feasible")
            return
        if res.objective != want:
            obs.violate("scale.cost", f"{who}: reported cost {res.objective!r}, minimum {want} ({q} units over {n - 1} unit-cost arcs)")
            return
        bad = {k: v for k, v in flows.items() if v and (k not in chain or v != q)}
        missing = [k for k in chain if flows.get(k, 0) != q]
        if bad or missing:
            obs.violate("scale.flow", f"{who}: flow is not {q} on every chain arc: off-chain/wrong {dict(list(bad.items())[:3])}, "
                        f"{len(missing)} chain arcs without it")

    r = call(obs, _ns.network_simplex, n, [tuple(a) for a in arcs], list(supplies), budget=B, what="network_simplex[scale]")
    if not is_crash(r):
        judge("network_simplex", r, dict(r.solution or {}))
    g = {}
    for u, v, c, w in arcs:
        g.setdefault(u, []).append((v, c, w))
    r = call(obs, _flow.min_cost_flow, g, 0, n - 1, q, budget=B, what="min_cost_flow[scale]")
    if not is_crash(r):
        judge("min_cost_flow", r, dict(r.solution or {}))
    obs.nontrivial = True
    obs.mode("exact")


def run(case, obs):
    if case["kind"] == "scale":
        return _run_scale(case, obs)
    if case["kind"] == "assign":
        _run_assign(case, obs)
    else:
        _run_net(case, obs)
    _shrink["hang"] = any(c == HANG for c, _ in obs.violations)


def _hung(obs):
    return any(c == HANG for c, _ in obs.violations)


# ---------------------------------------------------------------- minimisation

def shrink(case):
    for cand in _shrink_candidates(case):
        if _shrink["hang"]:
            _shrink["yielded"] += 1
            if _shrink["yielded"] > SHRINK_HANG_MAX:
                return
        yield cand


def _shrink_candidates(case):
    if case["kind"] == "assign":
        M = case["matrix"]
        for i in range(len(M)):
            if len(M) > 1:
                yield {"kind": "assign", "matrix": M[:i] + M[i + 1:]}
        if M and len(M[0]) > 1:
            for j in range(len(M[0])):
                yield {"kind": "assign", "matrix": [row[:j] + row[j + 1:] for row in M]}
        for i, row in enumerate(M):
            for j, v in enumerate(row):
                if v != 0:
                    M2 = [list(x) for x in M]
                    M2[i][j] = 0
                    yield {"kind": "assign", "matrix": M2}
        return
    if case["demand"] is not None and case["multi"] is not None:
        c = dict(case); c["multi"] = None; yield c
        c = dict(case); c["demand"] = None; c["s"] = c["t"] = None; yield c
    if case["labels"] is not None:
        c = dict(case); c["labels"] = None; yield c
    arcs = case["arcs"]
    for i in range(len(arcs)):
        c = dict(case); c["arcs"] = arcs[:i] + arcs[i + 1:]; yield c
    # drop the highest node if nothing refers to it
    n = case["n"]
    used = {x for a in arcs for x in a[:2]} | {case["s"], case["t"]}
    if n > 2 and (n - 1) not in used and (case["multi"] is None or case["multi"][n - 1] == 0):
        c = dict(case); c["n"] = n - 1
        if c["multi"] is not None:
            c["multi"] = c["multi"][: n - 1]
        if c["labels"] is not None:
            c["labels"] = c["labels"][: n - 1]
        yield c
    # compact the node ids (monotone map keeps the relative order of the nodes)
    keep = sorted({x for a in arcs for x in a[:2]} | ({case["s"], case["t"]} - {None}) |
                  {i for i, b in enumerate(case["multi"] or []) if b})
    if 2 <= len(keep) < n and case["labels"] is None:
        mp = {x: i for i, x in enumerate(keep)}
        c = dict(case); c["n"] = len(keep)
        c["arcs"] = [(mp[u], mp[v], cp, w) for u, v, cp, w in arcs]
        c["s"] = mp.get(case["s"]); c["t"] = mp.get(case["t"])
        if c["multi"] is not None:
            c["multi"] = [case["multi"][x] for x in keep]
        yield c
    for i, (u, v, cp, w) in enumerate(arcs):
        if cp > 1:
            c = dict(case); c["arcs"] = arcs[:i] + [(u, v, cp - 1, w)] + arcs[i + 1:]; yield c
    if case["demand"]:
        c = dict(case); c["demand"] = case["demand"] - 1; yield c


def finding_keys(case, obs):
    return set(obs.mech)
