"""C10 — solve_hungarian returns a matching of min(rows, cols) pairs whose reported objective is the sum of
the chosen entries and is the minimum (maximum with minimize=False) over all such matchings.

Deciding step: every Result of the real solve_hungarian (both minimize=True and False on every matrix)
is judged by exact oracles (vf.oracles.assignment: permutation enumeration, subset DP, successive
shortest paths in integer arithmetic - all that fit the size guards must agree).
"""

from fractions import Fraction

ID = "C10"
RULE = ("rectangular cost matrices, each solved with minimize=True and minimize=False: square / wide / tall / 1xn / nx1, "
        "entries from integer, dyadic-rational (k/8, k/1024), {0,1}-tie, all-negative, large-spread pools; structured tie "
        "patterns (constant rows/columns, a_i+b_j potentials matrices with sparse perturbations, product matrices "
        "(i+1)(j+1) and triangular/banded matrices that force long augmenting paths, permuted); medium sizes up to "
        "12x12 (quick) / 24x24 (thorough); a decimal stratum (k/10, k/100 floats) judged with 1e-9 relative tolerance. "
        "non-trivial = at least 2 rows and 2 columns and not all entries equal; distinct = distinct matrix")
ASSUMPTIONS = [
    "matrix has >= 1 row and >= 1 column, rectangular, finite int/float entries ([] and zero-column input return [] - excluded)",
    "exact strata use ints and dyadic rationals of bounded magnitude so the float potentials are exact: equality is demanded; "
    "the decimal stratum allows 1e-9*(1+|opt|) on objective and optimality (DESIGN 2.5)",
    "solvor.utils.helpers.assignment_cost (anchored helper) must agree with the sum of the chosen entries of the returned assignment",
]
QUICK_SCALE = 2.5  # quick-tier multiplier (idle 16-core timing: ~10 s at scale 1)
STRATA = [
    ("square", 2500, 50000),
    ("wide", 1500, 30000),
    ("tall", 1500, 30000),
    ("ties", 1500, 30000),
    ("structured", 1500, 30000),
    ("negative", 600, 12000),
    ("spread", 600, 12000),
    ("tiny-scale", 800, 12000),
    ("line", 300, 3000),
    ("decimal", 600, 12000),
    ("medium", 250, 4000),
    ("exh-01", 1, 1),
]
REQUIRED_EVENTS = {"any": ["hung.shape", "hung.count", "hung.distinct-columns", "hung.objective-sum", "hung.optimal"]}

_h = None
_helpers = None
BUDGET = 1_000_000  # clean tree: < 3 000 steps up to 8x8, < 60 000 at 24x24


def setup():
    global _h, _helpers
    from vf.instrument import mod

    _h = mod("solvor.hungarian")
    _helpers = mod("solvor.utils.helpers")


# ------------------------------------------------------------------ generators

def _pool(rng, kind):
    if kind == "int":
        lo, hi = rng.choice([(0, 9), (-9, 9), (0, 3), (-20, 20), (1, 100)])
        return lambda: rng.randint(lo, hi)
    if kind == "dyadic":
        return lambda: rng.randint(-64, 64) / 8.0
    if kind == "fine":
        return lambda: rng.randint(-4096, 4096) / 1024.0
    if kind == "01":
        return lambda: rng.randint(0, 1)
    if kind == "012":
        return lambda: rng.choice([0, 0, 1, 1, 2])
    if kind == "neg":
        lo = rng.choice([-9, -100, -3])
        return (lambda: rng.randint(lo, -1)) if rng.random() < 0.6 else (lambda: -rng.randint(1, 64) / 8.0)
    if kind == "spread":
        return lambda: rng.choice([1, -1]) * rng.choice([0, 1, 3, 10 ** 3, 10 ** 6, 10 ** 9, 0.125, 7.5, 2 ** 20 + 0.5,
                                                          rng.randint(1, 10 ** 6)])
    if kind == "decimal":
        d = rng.choice([10, 100])
        lo = rng.choice([0, -50])
        return lambda: rng.randint(lo * d // 10, 10 * d) / d
    raise ValueError(kind)


def _mat(rng, r, c, f):
    return [[f() for _ in range(c)] for _ in range(r)]


def _shuffle_rc(rng, M):
    r, c = len(M), len(M[0])
    rp, cp = list(range(r)), list(range(c))
    rng.shuffle(rp)
    rng.shuffle(cp)
    return [[M[i][j] for j in cp] for i in rp]


def _structured(rng, r, c):
    t = rng.choice(["const-rows", "const-cols", "potentials", "potentials+noise", "product", "product-rev", "triangular",
                    "banded", "two-level", "dup-rows", "latin"])
    if t == "const-rows":
        M = [[v] * c for v in (rng.randint(-5, 9) for _ in range(r))]
        for _ in range(rng.randint(0, 2)):
            M[rng.randrange(r)][rng.randrange(c)] += rng.choice([-1, 1, 0.5])
    elif t == "const-cols":
        col = [rng.randint(-5, 9) for _ in range(c)]
        M = [list(col) for _ in range(r)]
        for _ in range(rng.randint(0, 2)):
            M[rng.randrange(r)][rng.randrange(c)] += rng.choice([-1, 1, 0.5])
    elif t in ("potentials", "potentials+noise"):
        a = [rng.randint(-6, 6) for _ in range(r)]
        b = [rng.randint(-6, 6) for _ in range(c)]
        M = [[a[i] + b[j] for j in range(c)] for i in range(r)]
        if t.endswith("noise"):
            for _ in range(rng.randint(1, max(1, r * c // 3))):
                M[rng.randrange(r)][rng.randrange(c)] += rng.choice([1, 1, 2, 0.25, -1])
    elif t == "product":
        M = [[(i + 1) * (j + 1) for j in range(c)] for i in range(r)]
    elif t == "product-rev":
        M = [[(r - i) * (j + 1) + rng.choice([0, 0, 0, 1]) for j in range(c)] for i in range(r)]
    elif t == "triangular":
        big = rng.choice([5, 50])
        M = [[0 if j <= i else big + rng.randint(0, 2) for j in range(c)] for i in range(r)]
    elif t == "banded":
        M = [[abs(i - j) if abs(i - j) <= 1 else rng.randint(3, 9) for j in range(c)] for i in range(r)]
    elif t == "two-level":
        M = [[rng.choice([1, 1, 1, 100]) for _ in range(c)] for _ in range(r)]
    elif t == "dup-rows":
        base = [rng.randint(0, 9) for _ in range(c)]
        M = [list(base) if rng.random() < 0.6 else [rng.randint(0, 9) for _ in range(c)] for _ in range(r)]
    else:  # cyclic latin-square costs: every row a rotation, many optimal matchings
        base = [rng.randint(0, 5) for _ in range(c)]
        M = [[base[(j + i) % c] for j in range(c)] for i in range(r)]
    if rng.random() < 0.7:
        M = _shuffle_rc(rng, M)
    if rng.random() < 0.3:
        M = [[-x for x in row] for row in M]
    return M


def _dims(rng, shape, hi):
    if shape == "square":
        n = rng.randint(2, hi)
        return n, n
    if shape == "wide":
        r = rng.randint(1, hi - 1)
        return r, rng.randint(r + 1, hi)
    if shape == "tall":
        c = rng.randint(1, hi - 1)
        return rng.randint(c + 1, hi), c
    return rng.choice([(rng.randint(1, hi), rng.randint(1, hi))])


def gen(stratum, rng, tier):
    hi = 7 if tier == "quick" else 8
    if stratum in ("square", "wide", "tall"):
        r, c = _dims(rng, stratum, hi)
        M = _mat(rng, r, c, _pool(rng, rng.choice(["int", "int", "dyadic", "fine", "012"])))
    elif stratum == "ties":
        r, c = _dims(rng, rng.choice(["square", "square", "wide", "tall"]), 8 if tier == "quick" else 9)
        M = _mat(rng, r, c, _pool(rng, rng.choice(["01", "01", "012"])))
        if rng.random() < 0.3:
            M = [[-x for x in row] for row in M]
    elif stratum == "structured":
        r, c = _dims(rng, rng.choice(["square", "square", "wide", "tall"]), 8 if tier == "quick" else 9)
        M = _structured(rng, r, c)
    elif stratum == "negative":
        r, c = _dims(rng, rng.choice(["square", "wide", "tall"]), hi)
        M = _mat(rng, r, c, _pool(rng, "neg"))
    elif stratum == "spread":
        r, c = _dims(rng, rng.choice(["square", "wide", "tall"]), hi)
        M = _mat(rng, r, c, _pool(rng, "spread"))
    elif stratum == "tiny-scale":
        # exact dyadic costs whose decisive differences are far below 1e-9: k * 2**-40, or an ordinary magnitude
        # plus k * 2**-40 (all exactly representable; the optimum does not care about the scale of the matrix)
        r, c = _dims(rng, rng.choice(["square", "wide", "tall"]), hi)
        base = rng.choice([0.0, 0.0, 3.0, -7.0])
        # keep every entry and every sum of <= 8 entries exactly representable (53-bit mantissa)
        unit = 2.0 ** -(rng.choice([34, 40, 46, 60]) if base == 0.0 else rng.choice([34, 40]))
        sign = rng.choice([1, 1, -1])
        M = [[base + sign * unit * rng.randint(0, 40) for _ in range(c)] for _ in range(r)]
    elif stratum == "line":
        n = rng.randint(1, 9)
        r, c = rng.choice([(1, n), (n, 1), (1, 1), (2, n), (n, 2)])
        M = _mat(rng, r, c, _pool(rng, rng.choice(["int", "dyadic", "neg", "01"])))
        if rng.random() < 0.04:
            M = [[] for _ in range(rng.randint(0, 4))]  # rows without a single column: nothing can be assigned
    elif stratum == "decimal":
        r, c = _dims(rng, rng.choice(["square", "wide", "tall"]), hi)
        M = _mat(rng, r, c, _pool(rng, "decimal"))
        return {"kind": "h", "matrix": M, "exact": False, "tuple": False}
    elif stratum == "medium":
        top = 12 if tier == "quick" else 24
        r, c = _dims(rng, rng.choice(["square", "square", "wide", "tall"]), top)
        if max(r, c) < 8:
            r, c = max(r, 8), max(c, 8)
        if rng.random() < 0.4:
            M = _structured(rng, r, c)
        else:
            M = _mat(rng, r, c, _pool(rng, rng.choice(["int", "dyadic", "01", "012", "neg", "spread"])))
    elif stratum == "exh-01":
        return {"kind": "exh", "shapes": [(1, 1), (1, 2), (2, 1), (2, 2), (2, 3), (3, 2), (3, 3), (1, 4), (4, 1), (2, 4), (4, 2)]
                + ([(3, 4), (4, 3)] if tier == "thorough" else []), "values": [0, 1]}
    else:
        raise ValueError(stratum)
    return {"kind": "h", "matrix": M, "exact": True, "tuple": rng.random() < 0.15}


# ------------------------------------------------------------------ judging

def _judge(obs, M, minimize, res, exact, opt):
    tag = "min" if minimize else "max"
    r, c = len(M), (len(M[0]) if M else 0)
    a = res.solution
    obs.event("hung.shape")
    if not isinstance(a, (list, tuple)) or len(a) != r or any((not isinstance(x, int)) or isinstance(x, bool) for x in a):
        obs.violate("hungarian.shape", f"[{tag}] assignment {a!r} for a {r}x{c} matrix")
        return
    if any(not (-1 <= x < c) for x in a):
        obs.violate("hungarian.index-range", f"[{tag}] assignment {a!r}: column index outside -1..{c - 1}")
        return
    used = [x for x in a if x != -1]
    obs.event("hung.count")
    if len(used) != min(r, c):
        obs.violate("hungarian.count", f"[{tag}] {len(used)} rows assigned, expected min({r},{c}); assignment {a!r}")
        return
    obs.event("hung.distinct-columns")
    if len(set(used)) != len(used):
        obs.violate("hungarian.column-twice", f"[{tag}] assignment {a!r} uses a column twice")
        return
    chosen = sum((Fraction(M[i][j]) for i, j in enumerate(a) if j != -1), Fraction(0))
    obj = res.objective
    obs.event("hung.objective-sum")
    try:
        fobj = Fraction(obj)
    except (TypeError, ValueError, OverflowError):
        obs.violate("hungarian.objective", f"[{tag}] objective {obj!r} is not a finite number")
        return
    tol = Fraction(0) if exact else Fraction(1, 10 ** 9) * (1 + abs(chosen))
    if abs(fobj - chosen) > tol:
        obs.violate("hungarian.objective", f"[{tag}] objective {obj!r} but the chosen entries sum to {float(chosen)!r}; "
                                           f"assignment {a!r}")
    obs.event("hung.helper-cost")
    hc = _helpers.assignment_cost([list(row) for row in M], list(a))
    if abs(Fraction(hc) - chosen) > tol:
        obs.violate("hungarian.helper-cost", f"[{tag}] assignment_cost(matrix, {a!r}) = {hc!r}, entries sum to {float(chosen)!r}")
    if opt is None:
        obs.mode("certificate_only")
        return
    obs.mode("exact" if exact else "exact+tolerance")
    obs.event("hung.optimal")
    tol = Fraction(0) if exact else Fraction(1, 10 ** 9) * (1 + abs(opt))
    gap = (chosen - opt) if minimize else (opt - chosen)
    if gap > tol:
        obs.violate("hungarian.suboptimal", f"[{tag}] matching {a!r} has value {float(chosen)!r}, optimum is {float(opt)!r}")
    elif gap < -tol:
        obs.inconc(f"oracle inconsistency: returned matching {a!r} value {chosen} beats the oracle optimum {opt}")


def _run_one(obs, M, exact, as_tuple=False):
    from vf.common import call, is_crash
    from vf.oracles import assignment as oa

    # one matrix object for both calls (a caller solves "cheapest" and "dearest" on the same table): a solver that
    # edits its argument in place shows up as a wrong answer of the second call.  The order alternates by case.
    shared = tuple(tuple(r) for r in M) if as_tuple else [list(r) for r in M]
    order = (True, False) if (len(M) + len(M[0]) if M and M[0] else 0) % 2 == 0 else (False, True)
    for minimize in order:
        try:
            opt, how = (Fraction(0), "no-columns") if not (M and M[0]) else oa.optimum(M, minimize)
        except AssertionError as e:
            obs.inconc(str(e))
            return
        obs.event("oracle." + how)
        arg = shared
        if minimize:
            res = call(obs, _h.solve_hungarian, arg, budget=BUDGET, what="solve_hungarian[min]")
        else:
            res = call(obs, _h.solve_hungarian, arg, minimize=False, budget=BUDGET, what="solve_hungarian[max]")
        if is_crash(res):
            continue
        obs.outcome(("min:" if minimize else "max:") + res.status.name)
        _judge(obs, M, minimize, res, exact, opt)


def run(case, obs):
    if case["kind"] == "exh":
        from itertools import product

        cnt = 0
        for r, c in case["shapes"]:
            for bits in product(case["values"], repeat=r * c):
                M = [list(bits[i * c:(i + 1) * c]) for i in range(r)]
                _run_one(obs, M, True)
                cnt += 1
                if obs.violations:
                    obs.violations[-1] = (obs.violations[-1][0], f"matrix={M}: " + obs.violations[-1][1])
                    return
        obs.event("hung.exhaustive.matrices", cnt)
        obs.nontrivial = True
        return
    M = case["matrix"]
    r, c = len(M), (len(M[0]) if M else 0)
    obs.nontrivial = r >= 2 and c >= 2 and len({x for row in M for x in row}) > 1
    obs.outcome(f"shape:{'square' if r == c else 'wide' if r < c else 'tall'}")
    _run_one(obs, M, case["exact"], case.get("tuple", False))


# ------------------------------------------------------------------ minimisation

def shrink(case):
    if case.get("kind") != "h":
        return
    M = case["matrix"]
    r, c = len(M), (len(M[0]) if M else 0)
    if r > 1:
        for i in range(r):
            yield dict(case, matrix=M[:i] + M[i + 1:])
    if c > 1:
        for j in range(c):
            yield dict(case, matrix=[row[:j] + row[j + 1:] for row in M])
    if case.get("tuple"):
        yield dict(case, tuple=False)
    # simplify entries: towards 0 / small ints
    for i in range(r):
        for j in range(c):
            v = M[i][j]
            for nv in (0, 1, int(v) if v == v and abs(v) < 1e15 else 0):
                if nv != v and abs(nv) <= abs(v):
                    M2 = [list(row) for row in M]
                    M2[i][j] = nv
                    yield dict(case, matrix=M2)
                    break
