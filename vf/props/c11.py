"""C11 — shortest-path solvers return true shortest distances and real paths."""

from vf.common import fresh as _fresh

ID = "C11"
RULE = ("composite cases: one seeded digraph (1-9 nodes, 10-16 in the 'bigger' stratum; strata aim at ties and "
        "zero-weight cycles, duplicate arcs with different weights, self loops, detours that beat a direct arc, "
        "chains whose arcs are listed in reverse, negative weights with reachable / unreachable / absent negative "
        "cycles, dyadic float weights, arbitrary hashable labels, goal as value or (multi-node) predicate, max_cost / "
        "max_iter at the decisive boundary) is given to every solver that accepts it (~45 calls: dijkstra, astar with "
        "h=0 / exact / half, dijkstra_edges, bellman_ford, floyd_warshall directed+undirected, bfs, dfs, bfs_edges, "
        "dfs_edges; default and backend='python'; plus a sweep of dijkstra/astar over every other target with a "
        "heuristic built for that target); grid cases (up to 8x8, random obstacles, barrier rows/columns with one "
        "gap, terrain costs >= 1, blocked as int or set, start = goal, blocked and walled-off goals) drive "
        "astar_grid in 4/8-neighbour mode with every admissible built-in heuristic. Every answer is judged against "
        "exact all-pairs distances (Floyd-Warshall on ints/Fractions cross-checked with per-source label "
        "correcting; exact a+b*sqrt2 arithmetic on grids) and every path by a certificate (source, goal, existing "
        "arcs, some choice of parallel weights sums to the objective); raw answers of all solvers to the same query "
        "are also compared pairwise. non-trivial = the goal is reachable, is not the source and at least two "
        "non-loop arcs leave reachable nodes, or the case has a negative arc (grids: goal reachable, not the start, "
        "obstacles or terrain present); distinct = distinct case data")
ASSUMPTIONS = [
    "weights are ints or dyadic rationals (float sums exact): distances are compared with ==; grid costs within 1e-9 relative",
    "dijkstra/astar/dijkstra_edges only see non-negative weights; astar only sees heuristics that are admissible and consistent by construction, weight=1",
    "astar_grid: terrain costs >= 1, start cell not blocked, manhattan heuristic only with 4 directions",
    "max_cost: a goal within the budget must be found at its exact distance; beyond it INFEASIBLE is expected, and a path that is returned as OPTIMAL all the same must have the true shortest distance",
    "max_iter: MAX_ITER is accepted only when the limit is <= the number of nodes reachable from the source; a definitive answer under a limit must still be correct",
    "bfs/dfs with goal=None: the documented reachable set is compared (shared-input agreement)",
]
QUICK_SCALE = 2.5  # quick-tier multiplier (idle 16-core timing: ~10 s at scale 1)
STRATA = [
    ("random", 900, 9000),
    ("zero-ties", 700, 7000),
    ("multi", 700, 7000),
    ("detour", 700, 7000),
    ("negative", 900, 9000),
    ("bf-chain", 500, 5000),
    ("bigger", 500, 5000),
    ("grid4", 1800, 18000),
    ("grid8", 1800, 18000),
    ("scale", 5, 40),
    ("dense", 3000, 40000),
]
BATCH = {"scale": 1}
REQUIRED_EVENTS = {"any": ["sp.distance", "sp.path", "sp.infeasible-iff-unreachable", "sp.unbounded-iff-negcycle",
                           "sp.matrix-entries", "sp.agree", "sp.max_cost", "sp.max_iter", "dfs.path", "reach.set",
                           "grid.distance", "grid.path", "l2.reconstruct_path"]}

_m = {}
_G = None
_l2 = {"n": 0, "bad": []}


def setup():
    global _G
    from vf.instrument import mod, replace
    from vf.oracles import graph

    _G = graph
    for name in ("dijkstra", "a_star", "bfs", "bellman_ford", "floyd_warshall"):
        _m[name] = mod("solvor." + name)

    def factory(orig):
        def reconstruct_path(parent, current):
            path = orig(parent, current)
            _l2["n"] += 1
            try:
                ok = (path[-1] == current and path[0] not in parent and len(set(path)) == len(path)
                      and all(parent[b] == a for a, b in zip(path, path[1:])))
            except Exception:
                ok = False
            if not ok and len(_l2["bad"]) < 5:
                _l2["bad"].append(f"reconstruct_path(.., {current!r}) -> {path!r}"[:300])
            return path

        return reconstruct_path

    replace("solvor.utils.helpers", "reconstruct_path", factory)


# ---------------------------------------------------------------- generators


class _Shared:
    """One list object per edge collection and case, handed to *every* call of that case: callers reuse their edge
    lists, so a solver that edits its input in place shows up as a wrong answer of a later call."""

    def __init__(self):
        self.d = {}

    def reset(self):
        self.d = {}

    def get(self, seq):
        k = id(seq)
        if k not in self.d:
            self.d[k] = (seq, list(seq))
        return self.d[k][1]

    def modified(self):
        return sum(1 for src, cp in self.d.values() if list(src) != cp)


_SH = _Shared()

def _labels(rng, n):
    scheme = rng.choice(["int", "int", "str", "tuple", "mixed", "frozenset", "shuffled", "offset", "falsy"])
    if scheme == "int":
        return list(range(n))
    if scheme == "falsy":
        # None, 0, "", () and frozenset() are ordinary hashable labels ("any node labels"); code that tests
        # `if parent:` / `.get(x) is None` instead of membership breaks on exactly these
        special = [None, 0, "", (), frozenset()]
        rng.shuffle(special)
        labs = [10 + i for i in range(n)]
        for k, pos in enumerate(rng.sample(range(n), min(n, rng.randint(1, len(special))))):
            labs[pos] = special[k]
        return labs
    if scheme == "str":
        return [chr(97 + i) * (1 + i % 2) for i in range(n)]
    if scheme == "tuple":
        return [(i // 3, i % 3) for i in range(n)]
    if scheme == "frozenset":
        return [frozenset({i, i + 100}) for i in range(n)]
    if scheme == "offset":
        return [10 * (i + 1) for i in range(n)]
    if scheme == "shuffled":
        p = list(range(n))
        rng.shuffle(p)
        return p
    pool = [lambda i: i, lambda i: "n%d" % i, lambda i: (i, "x"), lambda i: frozenset({i}), lambda i: (i,)]
    return [rng.choice(pool)(i) for i in range(n)]


def _limits(rng, n, edges, s, goals):
    """max_cost / max_iter aimed at the boundary: computed from the oracle's own distances."""
    from vf.oracles import graph as G

    d, _ = G.bellman_ford_ref(n, edges, [s])
    dg = [d[g] for g in goals if d[g] is not None]
    fin = sorted({x for x in d if x is not None})
    r = rng.random()
    if dg and r < 0.35:
        mc = min(dg) + rng.choice([0, 0, 0, -1, 1, -0.25, 0.5])
    elif fin and r < 0.8:
        mc = rng.choice(fin) + rng.choice([0, 0, 0, 0.5, -0.5])
    else:
        mc = rng.randint(0, 12)
    mc = max(mc, 0)
    if rng.random() < 0.5:
        mc = float(mc)
    elif mc == int(mc):
        mc = int(mc)
    nreach = sum(1 for x in d if x is not None)
    mi = max(1, rng.choice([nreach - 1, nreach, nreach + 1, rng.randint(1, n + 1), rng.randint(1, n + 1)]))
    return mc, mi


def gen(stratum, rng, tier):
    if stratum == "dense":
        # many arcs per node and widely spread weights: a label is improved again and again while its node waits to be
        # processed - plenty of relaxations without any negative cycle (and a few graphs that do have one)
        n = rng.randint(4, 7)
        m = rng.randint(2 * n * n, 3 * n * n)
        hi = rng.choice([20, 20, 50, 9])
        edges = [(rng.randrange(n), rng.randrange(n), rng.randint(0, hi)) for _ in range(m)]
        if rng.random() < 0.25:
            k = rng.randrange(len(edges))
            edges[k] = (edges[k][0], edges[k][1], -rng.randint(1, 5))
        return {"kind": "dense", "n": n, "edges": edges, "s": rng.randrange(n), "t": rng.randrange(n)}
    if stratum == "scale":
        # a corridor of thousands of nodes with dearer shortcuts (true distances known by construction), and a
        # serpentine grid: shortest paths with thousands of nodes, under the interpreter's default recursion limit
        n = rng.randint(1500, 3500)
        order = list(range(n))
        rng.shuffle(order)
        w = [rng.randint(1, 3) for _ in range(n - 1)]
        edges = [(order[i], order[i + 1], w[i]) for i in range(n - 1)]
        for _ in range(rng.randint(0, 8)):
            i = rng.randrange(n - 60)
            j = i + rng.randint(3, 50)
            edges.append((order[i], order[j], sum(w[i:j]) + rng.randint(1, 4)))
        for _ in range(rng.randint(0, 8)):
            i = rng.randrange(1, n)
            edges.append((order[i], order[rng.randrange(i)], rng.randint(0, 3)))  # back arcs never help
        rng.shuffle(edges)
        t = n - 1 - rng.choice([0, 0, 2, 40])
        return {"kind": "scale", "n": n, "edges": edges, "s": order[0], "t": order[t], "dist": sum(w[:t]), "hops": t,
                "grid_rows": rng.choice([21, 31, 41]), "grid_cols": rng.randint(30, 60)}
    if stratum in ("grid4", "grid8"):
        return _gen_grid(rng, 8 if stratum == "grid8" else 4)
    negw = None
    if stratum == "random":
        n = rng.randint(1, 8) if rng.random() < 0.2 else rng.randint(3, 8)
        m = rng.randint(0, int(2.5 * n) + 1) if rng.random() < 0.25 else rng.randint(n, 3 * n)
        dy = rng.random() < 0.25
        pool = [0, 1, 1, 2, 3, 5, 7, 9]
        edges = [(rng.randrange(n), rng.randrange(n), (rng.randint(0, 36) / 4.0) if dy else rng.choice(pool)) for _ in range(m)]
    elif stratum == "bigger":
        # more competing routes: ordering mistakes in the frontier need room to show
        n = rng.randint(10, 16)
        m = rng.randint(2 * n, 4 * n)
        pool = rng.choice([[1, 2, 3, 4, 5, 6, 7, 8, 9], [1, 1, 2, 3], [0, 1, 2, 5, 9], [2, 3, 5, 7, 11]])
        edges = []
        for _ in range(m):
            a = rng.randrange(n)
            b = (a + rng.choice([1, 1, 2, 3, -1, rng.randrange(n)])) % n  # mostly local arcs: long shortest paths
            edges.append((a, b, rng.choice(pool)))
        if rng.random() < 0.5:
            negw = [w if rng.random() < 0.85 else -rng.randint(1, 2) for _, _, w in edges]
    elif stratum == "zero-ties":
        n = rng.randint(2, 8)
        m = rng.randint(n, 3 * n)
        pool = rng.choice([[0, 1], [0, 0, 1, 2], [1], [0, 1, 1, 2], [0, 2, 2, 4]])
        edges = [(rng.randrange(n), rng.randrange(n), rng.choice(pool)) for _ in range(m)]
        # a zero-weight cycle
        k = rng.randint(2, min(4, n))
        cyc = rng.sample(range(n), k)
        edges += [(cyc[i], cyc[(i + 1) % k], 0) for i in range(k)]
    elif stratum == "multi":
        n = rng.randint(1, 7) if rng.random() < 0.2 else rng.randint(3, 7)
        m = rng.randint(1, 2 * n + 1) if rng.random() < 0.25 else rng.randint(n, 2 * n + 1)
        dy = rng.random() < 0.2
        w = (lambda: rng.randint(0, 24) / 4.0) if dy else (lambda: rng.randint(0, 9))
        edges = [(rng.randrange(n), rng.randrange(n), w()) for _ in range(m)]
        for _ in range(rng.randint(1, 6)):
            r = rng.random()
            u, v, _w = rng.choice(edges)
            if r < 0.5:
                edges.append((u, v, w()))  # parallel arc, other weight
            elif r < 0.7:
                edges.append((v, u, w()))  # anti-parallel
            elif r < 0.9:
                edges.append((u, u, rng.choice([0, w()])))  # self loop
            else:
                edges.append((u, v, _w))  # exact duplicate
    elif stratum == "detour":
        # direct arc s->t against a chain s->a1->..->t of k arcs, totals close to each other, plus noise
        n = rng.randint(3, 9)
        nodes = list(range(n))
        rng.shuffle(nodes)
        k = rng.randint(2, n - 1)
        chain = nodes[: k + 1]
        cw = [rng.randint(0, 4) for _ in range(k)]
        direct = max(0, sum(cw) + rng.choice([-2, -1, 0, 0, 1, 1, 2, 5]))
        edges = [(chain[i], chain[i + 1], cw[i]) for i in range(k)]
        edges.append((chain[0], chain[-1], direct))
        for _ in range(rng.randint(0, n)):
            a, b = rng.randrange(n), rng.randrange(n)
            edges.append((a, b, rng.randint(0, 9)))
        # a second intermediate shortcut of competitive length
        if k >= 3:
            i, j = sorted(rng.sample(range(k + 1), 2))
            if j - i >= 2:
                edges.append((chain[i], chain[j], max(0, sum(cw[i:j]) + rng.choice([-1, 0, 1]))))
        rng.shuffle(edges)
        case = _graph_case(rng, n, edges, None, s=chain[0], goal=chain[-1])
        return case
    elif stratum == "negative":
        n = rng.randint(1, 8)
        m = rng.randint(1, int(2.5 * n) + 1)
        edges = [(rng.randrange(n), rng.randrange(n), rng.choice([0, 1, 1, 2, 3, 5, 7])) for _ in range(m)]
        mode = rng.choice(["few-neg", "few-neg", "many-neg", "neg-loop", "dag-neg", "far-cycle"])
        if mode == "few-neg":
            negw = [(-rng.randint(1, 4) if rng.random() < 0.2 else w) for _, _, w in edges]
        elif mode == "many-neg":
            negw = [rng.choice([-3, -1, 0, 1, 2, 4, 6]) for _ in edges]
        elif mode == "neg-loop":
            negw = [w for _, _, w in edges]
            u = rng.choice([n - 1, rng.randrange(n)])
            edges.append((u, u, 1))
            negw.append(-rng.randint(1, 3))
        elif mode == "dag-neg":
            # arcs only forward in a random order: negative weights without any cycle
            order = list(range(n))
            rng.shuffle(order)
            pos = {v: i for i, v in enumerate(order)}
            edges = [(u, v, w) if pos[u] < pos[v] else (v, u, w) for u, v, w in edges if u != v] or [(0, 0, 1)]
            negw = [rng.randint(-6, 4) for _ in edges]
            if edges == [(0, 0, 1)]:
                negw = [1]
        else:  # negative cycle placed on the highest-numbered nodes, often unreachable from the source
            negw = [w for _, _, w in edges]
            if n >= 3:
                a, b = n - 1, n - 2
                edges += [(a, b, 1), (b, a, 1)]
                negw += [rng.choice([-2, 1]), rng.choice([-1, 0])]
                edges = [e for e in edges]
        if rng.random() < 0.3:
            negw = [float(w) if rng.random() < 0.5 else w for w in negw]
    elif stratum == "bf-chain":
        # shortest path with n-1 arcs, arcs listed against the path direction: needs all n-1 rounds
        n = rng.randint(3, 9)
        nodes = list(range(n))
        rng.shuffle(nodes)
        cw = [rng.randint(-2, 3) for _ in range(n - 1)]
        chain = [(nodes[i], nodes[i + 1], cw[i]) for i in range(n - 1)]
        chain.reverse()
        noise = []
        for _ in range(rng.randint(0, n)):
            i, j = sorted(rng.sample(range(n), 2))
            if rng.random() < 0.7:
                noise.append((nodes[i], nodes[j], sum(cw[i:j]) + rng.randint(0, 3)))  # never a shortcut
            else:
                noise.append((nodes[j], nodes[i], -sum(cw[i:j]) + rng.randint(0, 3)))  # back arc, cycle weight >= 0
        r = rng.random()
        if r < 0.25:
            # a negative cycle at the far end, found only in the detection round
            noise.append((nodes[-1], nodes[-2], -cw[-1] - 1))
        negw_edges = noise + chain if rng.random() < 0.8 else chain + noise
        edges = [(u, v, abs(w)) for u, v, w in negw_edges]
        negw = [w for _, _, w in negw_edges]
        return _graph_case(rng, n, edges, negw, s=nodes[0], goal=nodes[-1])
    else:
        raise ValueError(stratum)
    return _graph_case(rng, n, edges, negw)


def _graph_case(rng, n, edges, negw, s=None, goal=None):
    if rng.random() < 0.06:
        # the same graph in tiny units (all weights integer multiples of 2**-40, sums exact): distances are order
        # relations between sums, no absolute epsilon may decide a relaxation or a negative cycle
        unit = 2.0 ** -40
        edges = [(u, v, w * unit) for u, v, w in edges]
        if negw is not None:
            negw = [w * unit for w in negw]
    if s is None or rng.random() < 0.15:
        s = rng.randrange(n)
    if goal is None or rng.random() < 0.15:
        goal = rng.randrange(n) if rng.random() < 0.9 else s
        if rng.random() < 0.7:
            from vf.oracles import graph as G

            far = sorted(G.reachable_from(n, edges, s) - {s})
            if far:
                goal = rng.choice(far)
    goals = [goal]
    if rng.random() < 0.25 and n > 1:
        goals = sorted(set(goals + [rng.randrange(n)]))
    mc, mi = _limits(rng, n, edges, s, goals)
    return {
        "kind": "g", "n": n, "edges": [tuple(e) for e in edges], "negw": negw, "labels": _labels(rng, n),
        "s": s, "goals": goals, "max_cost": mc, "max_iter": mi,
        "nb_style": rng.choice(["list", "gen", "tuple"]), "nb_seed": rng.randrange(1 << 30),
    }


def _gen_grid(rng, directions):
    rows, cols = rng.randint(1, 6), rng.randint(1, 6)
    shape = rng.random()
    if shape < 0.15:
        rows, cols = rng.choice([(1, rng.randint(1, 7)), (rng.randint(1, 7), 1)])
    dens = rng.choice([0.0, 0.15, 0.2, 0.3, 0.3, 0.45])
    terrain = rng.random() < 0.5
    grid = []
    for _ in range(rows):
        row = []
        for _ in range(cols):
            if rng.random() < dens:
                row.append(1)
            else:
                row.append(rng.choice([0, 0, 2, 3]) if terrain else 0)
        grid.append(row)
    bsel = rng.random()
    if bsel < 0.6:
        blocked = 1
    elif bsel < 0.8:
        blocked = [1, 3]
    elif bsel < 0.9:
        blocked = [1]
    else:
        blocked = 3  # then value 1 is ordinary terrain
    bset = {blocked} if isinstance(blocked, int) else set(blocked)
    costs = None
    if terrain and rng.random() < 0.8:
        dy = rng.random() < 0.4
        costs = {}
        for v in (0, 1, 2, 3):
            if rng.random() < 0.6:
                costs[v] = (rng.randint(4, 16) / 4.0) if dy else rng.randint(1, 5)
        if rng.random() < 0.3:
            costs = {k: float(v) for k, v in costs.items()}
    forced = None
    barrier = rng.random() < 0.4
    if barrier:
        rows, cols = rng.randint(3, 8), rng.randint(3, 8)
        grid = [[(1 if rng.random() < dens / 2 else 0) for _ in range(cols)] for _ in range(rows)]
    if barrier:
        # a barrier row between start and goal with a single gap: a wall (detour needed) or a band of
        # expensive terrain (detour pays off only sometimes) -- greedy / overestimating searches go wrong here
        wr = rng.randrange(1, rows - 1)
        gap = rng.choice([0, cols - 1, rng.randrange(cols)])
        band = rng.random() < 0.5
        for c in range(cols):
            grid[wr][c] = 2 if band else (1 if 1 in bset else 3)
        grid[wr][gap] = 0
        if band:
            costs = dict(costs or {})
            costs[2] = rng.choice([2, 3, 4, 5, 7, 9, 2.5])
        far = cols - 1 - gap if gap in (0, cols - 1) and rng.random() < 0.5 else rng.randrange(cols)
        a = (rng.randrange(0, wr), min(cols - 1, max(0, far + rng.choice([-1, 0, 0, 1]))))
        b = (rng.randrange(wr + 1, rows), min(cols - 1, max(0, far + rng.choice([-1, 0, 0, 1]))))
        for p in (a, b):
            if grid[p[0]][p[1]] in bset:
                grid[p[0]][p[1]] = 0
        forced = (a, b) if rng.random() < 0.5 else (b, a)
        if rng.random() < 0.3:  # transpose: barrier column
            grid = [list(col) for col in zip(*grid)]
            rows, cols = cols, rows
            forced = tuple((p[1], p[0]) for p in forced)
    free = [(r, c) for r in range(rows) for c in range(cols) if grid[r][c] not in bset]
    if not free:
        grid[0][0] = 0
        free = [(0, 0)]
    start = rng.choice(free)
    r = rng.random()
    if forced:
        start, goal = forced
    elif r < 0.08:
        goal = start
    elif r < 0.2:
        goal = (rng.randrange(rows), rng.randrange(cols))  # possibly blocked
    else:
        goal = max((rng.choice(free) for _ in range(3)), key=lambda p: abs(p[0] - start[0]) + abs(p[1] - start[1]))
    if rng.random() < 0.1 and goal != start and not forced:
        # wall the goal off
        for dr in (-1, 0, 1):
            for dc in (-1, 0, 1):
                p = (goal[0] + dr, goal[1] + dc)
                if (dr or dc) and 0 <= p[0] < rows and 0 <= p[1] < cols and p != start:
                    if directions == 8 or dr == 0 or dc == 0:
                        grid[p[0]][p[1]] = 1 if 1 in bset else 3
    heur = rng.choice(["auto", "manhattan", "octile", "euclidean", "chebyshev"] if directions == 4
                      else ["auto", "octile", "euclidean", "chebyshev"])
    return {
        "kind": "grid", "grid": grid, "start": start, "goal": goal, "directions": directions, "heuristic": heur,
        "blocked": blocked, "costs": costs, "max_iter": rng.randint(1, rows * cols + 1) if rng.random() < 0.3 else None,
        "as_tuple": rng.random() < 0.3, "explicit_dir": rng.random() < 0.5,
    }


def shrink(case):
    if case["kind"] == "g":
        edges, negw = case["edges"], case["negw"]
        for i in range(len(edges)):
            c = dict(case)
            c["edges"] = edges[:i] + edges[i + 1:]
            if negw is not None:
                c["negw"] = negw[:i] + negw[i + 1:]
            yield c
        n = case["n"]
        used = {x for u, v, _ in edges for x in (u, v)} | {case["s"]} | set(case["goals"])
        if n > 1 and (n - 1) not in used:
            c = dict(case)
            c["n"] = n - 1
            c["labels"] = case["labels"][: n - 1]
            yield c
        if len(case["goals"]) > 1:
            for g in case["goals"]:
                c = dict(case)
                c["goals"] = [g]
                yield c
        if case["labels"] != list(range(n)):
            c = dict(case)
            c["labels"] = list(range(n))
            yield c
        if negw is not None:
            c = dict(case)
            c["negw"] = None
            yield c
    else:
        grid = case["grid"]
        rows, cols = len(grid), len(grid[0])
        pts = (tuple(case["start"]), tuple(case["goal"]))
        if rows > 1 and all(p[0] < rows - 1 for p in pts):
            c = dict(case)
            c["grid"] = [list(r) for r in grid[:-1]]
            yield c
        if cols > 1 and all(p[1] < cols - 1 for p in pts):
            c = dict(case)
            c["grid"] = [list(r[:-1]) for r in grid]
            yield c
        for r in range(rows):
            for cc in range(cols):
                if grid[r][cc] != 0:
                    c = dict(case)
                    g2 = [list(x) for x in grid]
                    g2[r][cc] = 0
                    c["grid"] = g2
                    yield c
        if case["costs"]:
            c = dict(case)
            c["costs"] = None
            yield c


# ---------------------------------------------------------------- judging helpers

_OK = ("OPTIMAL", "FEASIBLE")


def _fmt(x):
    return "unreachable" if x is None else repr(float(x) if not isinstance(x, int) else x)


class _Judge:
    """Per-case bookkeeping: one graph in index space, labels for the callback API."""

    def __init__(self, obs, n, arcs, labels):
        self.obs = obs
        self.n = n
        self.arcs = arcs
        self.labels = labels
        self.back = {lab: i for i, lab in enumerate(labels)}
        self.widx = _G.weight_index(arcs)
        self.reported = {}  # query key -> {who: distance | 'INF' | 'UNB'}

    def note(self, key, who, val):
        self.reported.setdefault(key, {})[who] = val

    def to_idx(self, who, path):
        out = []
        for x in path:
            try:
                out.append(self.back[x])
            except (KeyError, TypeError):
                self.obs.violate("sp.bad-path", f"{who}: path {path!r} contains {x!r} which is not a node of the graph")
                return None
        return out

    def target_query(self, who, res, s, goals, dist, key, *, labelled, shortest=True, beyond_ok=False, limit_ok=False,
                     widx=None):
        """Judge a source->goal answer.  dist: oracle distance (None = unreachable).
        beyond_ok: (max_cost) a goal farther than the budget may be answered INFEASIBLE or by any valid path.
        limit_ok: MAX_ITER is an acceptable status for this call."""
        from vf.common import short, status_name

        obs = self.obs
        st = status_name(res)
        obs.outcome(f"{who.split('[')[0]}:{st}")
        widx = widx or self.widx
        if st == "MAX_ITER":
            obs.event("sp.max_iter")
            if not limit_ok:
                obs.violate("sp.max-iter-status", f"{who}: MAX_ITER although the iteration limit cannot have been reached")
            elif res.solution is not None:
                obs.violate("sp.max-iter-status", f"{who}: MAX_ITER together with a solution {short(res.solution, 100)}")
            return
        if st == "UNBOUNDED":
            obs.event("sp.unbounded-iff-negcycle")
            obs.violate("sp.unbounded-spurious", f"{who}: UNBOUNDED on a graph without a reachable negative cycle")
            return
        obs.event("sp.infeasible-iff-unreachable")
        if st == "INFEASIBLE" or res.solution is None:
            if st in _OK:
                obs.violate("sp.status", f"{who}: status {st} without a path")
            if not beyond_ok and shortest:
                self.note(key, who, "INF")
            if dist is not None and not beyond_ok:
                obs.violate("sp.infeasible-but-reachable", f"{who}: status {st}, but the goal is at distance {_fmt(dist)}")
            return
        if st not in _OK:
            obs.violate("sp.status", f"{who}: unknown status {st} with a path")
        path = list(res.solution) if isinstance(res.solution, (list, tuple)) else res.solution
        if labelled and isinstance(path, list):
            path = self.to_idx(who, path)
            if path is None:
                return
        obs.event("sp.path" if shortest else "dfs.path")
        prob = _G.path_problem(path, s, set(goals), widx, res.objective)
        if prob:
            cls = "sp.bad-path" if shortest else "dfs.bad-path"
            if dist is None:
                cls = "sp.path-on-unreachable" if shortest else "dfs.bad-path"
            obs.violate(cls, f"{who}: {prob}; path={path!r} objective={res.objective!r} (oracle distance {_fmt(dist)})")
            return
        if not shortest:
            return
        obs.event("sp.distance")
        got = _G.exact(res.objective)
        if beyond_ok:
            # a goal beyond the budget: INFEASIBLE is the expected answer; a path that is returned all the same and
            # labelled as the shortest has to *be* a shortest one ("report exactly the shortest-path distance")
            if got != dist and st == "OPTIMAL":
                obs.violate("sp.wrong-distance", f"{who}: reported {res.objective!r} with path {path!r} beyond the budget, "
                                                 f"shortest distance is {_fmt(dist)}")
            return
        self.note(key, who, got)  # what this solver says, right or wrong: compared pairwise in agree()
        if got != dist:
            obs.violate("sp.wrong-distance", f"{who}: reported {res.objective!r} with path {path!r}, shortest distance is {_fmt(dist)}")

    def agree(self):
        for key, rep in self.reported.items():
            if len(rep) < 2:
                continue
            self.obs.event("sp.agree", len(rep) - 1)
            if len(set(rep.values())) > 1:
                self.obs.violate("sp.solvers-disagree", f"query {key}: {rep}")


def _nb_factory(case, labels, arcs, weighted, seed_off=0):
    from random import Random

    n = len(labels)
    adj = [[] for _ in range(n)]
    for u, v, w in arcs:
        adj[u].append((labels[v], w) if weighted else labels[v])
    r = Random(case["nb_seed"] + seed_off)
    for a in adj:
        r.shuffle(a)
    back = {lab: i for i, lab in enumerate(labels)}
    style = case["nb_style"]
    if style == "tuple":
        adj = [tuple(a) for a in adj]
        return lambda x: adj[back[x]]
    if style == "gen":
        return lambda x: (e for e in adj[back[x]])
    return lambda x: list(adj[back[x]])


# ---------------------------------------------------------------- graph cases

def _run_graph(case, obs):
    from vf.common import call, is_crash, short, status_name

    B = 100_000  # observed maximum on the unchanged tree: < 5 000 steps
    n = case["n"]
    labels = case["labels"]
    qlabels = [_fresh(x) for x in labels]  # equal but distinct objects for start/goal arguments
    arcs = [tuple(e) for e in case["edges"]]
    s = case["s"]
    goals = list(case["goals"])
    t = goals[0]
    D, neg, _nr = _G.apsp(n, arcs)
    if neg:
        raise AssertionError("generator produced a negative weight in the non-negative graph")
    J = _Judge(obs, n, arcs, labels)
    dj, astar = _m["dijkstra"].dijkstra, _m["a_star"].astar
    inf = float("inf")

    def dmin(row, gs):
        c = [row[g] for g in gs if row[g] is not None]
        return min(c) if c else None

    d_goal = dmin(D[s], goals)
    d_t = D[s][t]
    nreach = sum(1 for x in D[s] if x is not None)
    glabels = {labels[g] for g in goals}
    pred = lambda x: x in glabels  # noqa: E731
    nb = _nb_factory(case, labels, arcs, True)
    key_multi = ("w", s, tuple(goals))
    key_t = ("w", s, (t,))

    # --- heuristics, admissible and consistent by construction
    to_goal = _G.dist_to_set(n, arcs, goals)
    big = sum(_G.exact(w) for _, _, w in arcs) + 1
    all_int = all(isinstance(w, int) for _, _, w in arcs)

    def h_exact(x):
        v = to_goal[J.back[x]]
        return float(big if v is None else v)

    def h_half(x):
        v = to_goal[J.back[x]]
        v = big if v is None else v
        return float(v // 2) if all_int else float(v) / 2

    heur = [("h0", lambda x: 0), ("hexact", h_exact), ("hhalf", h_half)]

    # --- dijkstra / astar, goal as predicate (possibly several goal nodes) and as value
    goal_forms = [("pred", pred, goals, d_goal, key_multi), ("value", qlabels[t], [t], d_t, key_t)]
    for gname, gobj, gs, dist, key in goal_forms:
        res = call(obs, dj, qlabels[s], gobj, nb, what=f"dijkstra[{gname}]", budget=B)
        if not is_crash(res):
            J.target_query(f"dijkstra[{gname}]", res, s, gs, dist, key, labelled=True)
        for hname, h in heur:
            if gname == "value" and len(goals) > 1 and hname != "h0":
                continue  # the heuristics are built for the whole goal set
            res = call(obs, astar, qlabels[s], gobj, nb, h, what=f"astar[{gname},{hname}]", budget=B)
            if not is_crash(res):
                J.target_query(f"astar[{gname},{hname}]", res, s, gs, dist, key, labelled=True)

    # --- weighted A* (weight > 1): outside the optimality clause, but "any returned path starts at the source, ends at
    # the target, uses only existing edges and its edge weights sum to the reported distance" is judged as a
    # certificate (a path must also be found whenever the goal is reachable)
    from random import Random as _R

    wr = _R(case.get("nb_seed", 0) ^ 0x5A17)
    for wgt in wr.sample([1.5, 2, 3, 5, 20], 2):
        hname, h = wr.choice(heur)
        res = call(obs, astar, qlabels[s], pred, nb, h, weight=wgt, what=f"astar[pred,{hname},weight={wgt}]", budget=B)
        if not is_crash(res):
            obs.event("sp.weighted-astar-certificate")
            J.target_query(f"astar[weight={wgt}]", res, s, goals, d_goal, ("wastar", s, wgt), labelled=True, shortest=False)

    # --- sweep: every other target from the same source ("for every queried pair"), own heuristic per target
    others = [j for j in range(n) if j != t]
    if len(others) > 8:
        from random import Random

        others = sorted(Random(case["nb_seed"]).sample(others, 8))
    for j in others:
        to_j = _G.dist_to_set(n, arcs, [j])

        def hj_exact(x, to_j=to_j):
            v = to_j[J.back[x]]
            return float(big if v is None else v)

        def hj_half(x, to_j=to_j):
            v = to_j[J.back[x]]
            v = big if v is None else v
            return float(v // 2) if all_int else float(v) / 2

        key = ("w", s, (j,))
        res = call(obs, dj, qlabels[s], qlabels[j], nb, what=f"dijkstra[to {j}]", budget=B)
        if not is_crash(res):
            J.target_query(f"dijkstra[to {j}]", res, s, [j], D[s][j], key, labelled=True)
        for hname, h in (("hexact", hj_exact), ("hhalf", hj_half)):
            res = call(obs, astar, qlabels[s], qlabels[j], nb, h, what=f"astar[to {j},{hname}]", budget=B)
            if not is_crash(res):
                J.target_query(f"astar[to {j},{hname}]", res, s, [j], D[s][j], key, labelled=True)

    # --- limits
    mc, mi = case["max_cost"], case["max_iter"]
    if mc is not None:
        within = d_goal is not None and d_goal <= _G.exact(mc)
        for who, fn, extra in [("dijkstra", dj, ()), ("astar[hexact]", astar, (h_exact,)), ("astar[h0]", astar, (heur[0][1],))]:
            res = call(obs, fn, qlabels[s], pred, nb, *extra, max_cost=mc, what=f"{who}[max_cost={mc}]", budget=B)
            if is_crash(res):
                continue
            obs.event("sp.max_cost")
            if within:
                J.target_query(f"{who}[max_cost={mc}]", res, s, goals, d_goal, key_multi, labelled=True)
            else:
                J.target_query(f"{who}[max_cost={mc}]", res, s, goals, d_goal, key_multi, labelled=True,
                               beyond_ok=d_goal is not None)
    if mi is not None:
        lim_ok = mi <= nreach
        for who, fn, extra in [("dijkstra", dj, ()), ("astar[hhalf]", astar, (h_half,))]:
            res = call(obs, fn, qlabels[s], pred, nb, *extra, max_iter=mi, what=f"{who}[max_iter={mi}]", budget=B)
            if not is_crash(res):
                obs.event("sp.max_iter")
                J.target_query(f"{who}[max_iter={mi}]", res, s, goals, d_goal, key_multi, labelled=True, limit_ok=lim_ok)

    # --- edge-list API (index nodes): dijkstra_edges, bellman_ford, floyd_warshall
    de, bf, fw = _m["dijkstra"].dijkstra_edges, _m["bellman_ford"].bellman_ford, _m["floyd_warshall"].floyd_warshall
    for be in (None, "python"):
        kw = {"backend": be} if be else {}
        tag = be or "default"
        res = call(obs, de, n, _SH.get(arcs), s, target=t, what=f"dijkstra_edges[{tag}]", budget=B, **kw)
        if not is_crash(res):
            J.target_query(f"dijkstra_edges[{tag}]", res, s, [t], d_t, key_t, labelled=False)
        res = call(obs, de, n, _SH.get(arcs), s, what=f"dijkstra_edges[{tag},all]", budget=B, **kw)
        if not is_crash(res):
            _judge_dist_map(obs, f"dijkstra_edges[{tag},all]", res, D[s], J, ("w", s))
        _bf_fw(obs, J, bf, fw, n, arcs, s, t, D, False, [False] * n, kw, tag, "w", B)

    # --- unweighted: bfs / dfs / *_edges
    uarcs = [(u, v, 1) for u, v, _ in arcs]
    H = _G.hop_distances(n, uarcs, s)
    reach = {i for i in range(n) if H[i] is not None}
    uwidx = _G.weight_index(uarcs)
    unb = _nb_factory(case, labels, arcs, False, 1)
    bfs, dfs = _m["bfs"].bfs, _m["bfs"].dfs
    h_goal = dmin(H, goals)
    for fname, fn in (("bfs", bfs), ("dfs", dfs)):
        sh = fname == "bfs"
        for gname, gobj, gs, dist, key in [("pred", pred, goals, h_goal, ("u", s, tuple(goals))),
                                           ("value", labels[t], [t], H[t], ("u", s, (t,)))]:
            if gname == "value" and gobj is None:
                # bfs/dfs document goal=None as "no goal: explore everything", so a node labelled None cannot be
                # named as the goal *value* (it can be the start, an inner node, or matched by a predicate)
                obs.event("info.bfs-dfs-none-goal-value-skipped")
                continue
            res = call(obs, fn, qlabels[s], gobj, unb, what=f"{fname}[{gname}]", budget=B)
            if not is_crash(res):
                J.target_query(f"{fname}[{gname}]", res, s, gs, dist, key, labelled=True, shortest=sh, widx=uwidx)
        res = call(obs, fn, qlabels[s], None, unb, what=f"{fname}[None]", budget=B)
        if not is_crash(res):
            obs.event("reach.set")
            want = {labels[i] for i in reach}
            try:
                got = set(res.solution)
            except TypeError:
                got = None
            if got != want or status_name(res) not in _OK:
                obs.violate("reach.set", f"{fname}(goal=None): {short(res.solution, 200)} status {status_name(res)}, reachable set is {want!r}")
        if mi is not None:
            res = call(obs, fn, qlabels[s], pred, unb, max_iter=mi, what=f"{fname}[max_iter={mi}]", budget=B)
            if not is_crash(res):
                obs.event("sp.max_iter")
                J.target_query(f"{fname}[max_iter={mi}]", res, s, goals, h_goal, ("u", s, tuple(goals)), labelled=True,
                               shortest=sh, limit_ok=mi <= len(reach), widx=uwidx)
        fe = getattr(_m["bfs"], fname + "_edges")
        e2 = [(u, v) for u, v, _ in arcs]
        for be in (None, "python"):
            kw = {"backend": be} if be else {}
            tag = be or "default"
            res = call(obs, fe, n, _SH.get(e2), s, target=t, what=f"{fname}_edges[{tag}]", budget=B, **kw)
            if not is_crash(res):
                J.target_query(f"{fname}_edges[{tag}]", res, s, [t], H[t], ("u", s, (t,)), labelled=False, shortest=sh, widx=uwidx)
            res = call(obs, fe, n, _SH.get(e2), s, what=f"{fname}_edges[{tag},all]", budget=B, **kw)
            if not is_crash(res):
                obs.event("reach.set")
                if res.solution != sorted(reach) or status_name(res) not in _OK:
                    obs.violate("reach.set", f"{fname}_edges(no target): {short(res.solution, 200)}, reachable set is {sorted(reach)}")
    # dijkstra on unit weights shares the bfs query
    unit_nb = _nb_factory(case, labels, uarcs, True, 2)
    res = call(obs, dj, qlabels[s], pred, unit_nb, what="dijkstra[unit]", budget=B)
    if not is_crash(res):
        J.target_query("dijkstra[unit]", res, s, goals, h_goal, ("u", s, tuple(goals)), labelled=True, widx=uwidx)

    # --- negative weights: bellman_ford and floyd_warshall only
    has_neg = False
    if case["negw"] is not None:
        narcs = [(u, v, w) for (u, v, _), w in zip(arcs, case["negw"])]
        has_neg = any(w < 0 for _, _, w in narcs)
        Dn, negn, nreach_neg = _G.apsp(n, narcs)
        Jn = _Judge(obs, n, narcs, list(range(n)))
        for be in (None, "python"):
            kw = {"backend": be} if be else {}
            _bf_fw(obs, Jn, bf, fw, n, narcs, s, t, Dn, negn, nreach_neg, kw, be or "default", "n", B)
        Jn.agree()
        obs.mech.add("neg-cycle-reachable" if nreach_neg[s] else ("neg-cycle-elsewhere" if negn else "no-neg-cycle"))
    J.agree()

    if _l2["n"]:
        obs.event("l2.reconstruct_path", _l2["n"])
        _l2["n"] = 0
    if _l2["bad"]:
        obs.event("l2.reconstruct_path.bad", len(_l2["bad"]))
        obs.mech.add("l2.reconstruct_path.bad: " + _l2["bad"][0])
        _l2["bad"].clear()
    # non-trivial: the goal is reachable, not the source itself, and the search has a choice; or negative arcs
    alt = d_goal is not None and goals != [s] and sum(1 for u, v, w in arcs if D[s][u] is not None and u != v) >= 2
    return bool(alt or has_neg)


def _judge_dist_map(obs, who, res, row, J, keyp):
    from vf.common import short, status_name

    st = status_name(res)
    obs.outcome(f"{who.split('[')[0]}:{st}")
    if st not in _OK or not isinstance(res.solution, dict):
        obs.violate("sp.status", f"{who}: status {st}, solution {short(res.solution, 120)}")
        return
    want = {i: d for i, d in enumerate(row) if d is not None}
    obs.event("sp.distance", len(row))
    obs.event("sp.infeasible-iff-unreachable", len(row))
    try:
        got = {k: _G.exact(v) for k, v in res.solution.items() if v != float("inf")}
    except (ValueError, OverflowError, TypeError):
        got = None
    if got is not None:
        for i in range(len(row)):
            J.note(keyp + ((i,),), who, got.get(i, "INF"))  # raw answers, compared pairwise in agree()
    if got != want:
        obs.violate("sp.wrong-distance", f"{who}: distances {res.solution!r}, oracle { {k: float(v) for k, v in want.items()} }")


def _bf_fw(obs, J, bf, fw, n, arcs, s, t, D, neg_any, neg_reach, kw, tag, fam, B):
    """bellman_ford (target / all) and floyd_warshall (directed / undirected) on one weighted graph."""
    from vf.common import call, is_crash, short, status_name

    # bellman_ford
    for target in (t, None):
        who = f"bellman_ford[{tag},{'target' if target is not None else 'all'}]"
        tk = {"target": target} if target is not None else {}
        res = call(obs, bf, s, _SH.get(arcs), n, what=who, budget=B, **tk, **kw)
        if is_crash(res):
            continue
        st = status_name(res)
        obs.event("sp.unbounded-iff-negcycle")
        if neg_reach[s]:
            obs.outcome(f"bellman_ford:{st}")
            if st != "UNBOUNDED":
                obs.violate("sp.unbounded-missed", f"{who}: status {st} although a negative cycle is reachable from {s}")
            continue
        if st == "UNBOUNDED":
            obs.outcome(f"bellman_ford:{st}")
            obs.violate("sp.unbounded-spurious", f"{who}: UNBOUNDED, but no negative cycle is reachable from {s}")
            continue
        if target is None:
            _judge_dist_map(obs, who, res, D[s], J, (fam, s))
        else:
            J.target_query(who, res, s, [t], D[s][t], (fam, s, (t,)), labelled=False)
    # floyd_warshall
    for directed in (True, False):
        who = f"floyd_warshall[{tag},{'directed' if directed else 'undirected'}]"
        res = call(obs, fw, n, _SH.get(arcs), directed=directed, what=who, budget=B, **kw)
        if is_crash(res):
            continue
        st = status_name(res)
        obs.outcome(f"floyd_warshall:{st}")
        if directed:
            M, neg = D, neg_any
        else:
            M, neg = _G.floyd_ref(n, _G.symmetrise(arcs))
            if neg != _G.has_negative_cycle(n, _G.symmetrise(arcs)):
                obs.inconc("oracle disagreement on negative cycle (undirected)")
                continue
        obs.event("sp.unbounded-iff-negcycle")
        if neg:
            if st != "UNBOUNDED":
                obs.violate("sp.unbounded-missed", f"{who}: status {st} although the graph contains a negative cycle")
            continue
        if st == "UNBOUNDED":
            obs.violate("sp.unbounded-spurious", f"{who}: UNBOUNDED, but the graph has no negative cycle")
            continue
        sol = res.solution
        if st not in _OK or not isinstance(sol, (list, tuple)) or len(sol) != n or any(len(r) != n for r in sol):
            obs.violate("sp.status", f"{who}: status {st}, solution {short(sol, 120)}")
            continue
        obs.event("sp.matrix-entries", n * n)
        bad = None
        for i in range(n):
            for j in range(n):
                want = M[i][j]
                got = sol[i][j]
                if want is None:
                    if got != float("inf"):
                        bad = (i, j, got, "unreachable")
                else:
                    try:
                        if _G.exact(got) != want:
                            bad = (i, j, got, float(want))
                    except (ValueError, OverflowError, TypeError):
                        bad = (i, j, got, float(want))
                if bad:
                    break
            if bad:
                break
        if bad:
            cls = "sp.infeasible-but-reachable" if bad[2] == float("inf") else "sp.wrong-distance"
            obs.violate(cls, f"{who}: dist[{bad[0]}][{bad[1]}] = {bad[2]!r}, oracle {bad[3]}")
        if directed:
            for j in range(n):
                try:
                    J.note((fam, s, (j,)), who, "INF" if sol[s][j] == float("inf") else _G.exact(sol[s][j]))
                except (ValueError, OverflowError, TypeError):
                    J.note((fam, s, (j,)), who, repr(sol[s][j]))


# ---------------------------------------------------------------- grid cases

def _run_grid(case, obs):
    from vf.common import call, is_crash, short, status_name

    grid = [list(r) for r in case["grid"]]
    start, goal = tuple(case["start"]), tuple(case["goal"])
    directions = case["directions"]
    blocked = case["blocked"]
    bset = {blocked} if isinstance(blocked, int) else set(blocked)
    costs = dict(case["costs"]) if case["costs"] else {}
    dist = _G.grid_distances(grid, start, directions, bset, costs)
    d = dist.get(goal)
    if goal == start:
        d = (0, 0)
    arg_grid = tuple(tuple(r) for r in grid) if case.get("as_tuple") else [list(r) for r in grid]
    kw = {"heuristic": case["heuristic"]}
    if directions == 8 or case.get("explicit_dir"):
        kw["directions"] = directions
    if blocked != 1:
        kw["blocked"] = blocked if isinstance(blocked, int) else set(blocked)
    if case["costs"]:
        kw["costs"] = dict(case["costs"])
    runs = [(f"astar_grid[{case['heuristic']}]", dict(kw), None)]
    for hname in (("manhattan", "octile", "euclidean", "chebyshev", "auto") if directions == 4
                  else ("octile", "euclidean", "chebyshev", "auto")):
        if hname != case["heuristic"]:
            k2 = dict(kw)
            k2["heuristic"] = hname
            runs.append((f"astar_grid[{hname}]", k2, None))
    if case["max_iter"] is not None:
        k2 = dict(kw)
        k2["max_iter"] = case["max_iter"]
        runs.append((f"astar_grid[max_iter={case['max_iter']}]", k2, case["max_iter"]))
    for who, k, mi in runs:
        res = call(obs, _m["a_star"].astar_grid, arg_grid, start, goal, what=who, budget=100_000, **k)
        if is_crash(res):
            continue
        st = status_name(res)
        obs.outcome(f"astar_grid:{st}")
        if st == "MAX_ITER":
            obs.event("sp.max_iter")
            if mi is None or mi > len(dist) or res.solution is not None:
                obs.violate("sp.max-iter-status", f"{who}: MAX_ITER (limit {mi}, {len(dist)} reachable cells), solution {short(res.solution, 80)}")
            continue
        obs.event("sp.infeasible-iff-unreachable")
        if st == "INFEASIBLE" or res.solution is None:
            if d is not None:
                obs.violate("sp.infeasible-but-reachable", f"{who}: status {st}, goal is at distance {_G.r2_float(d)!r}")
            continue
        if st not in _OK:
            obs.violate("sp.status", f"{who}: status {st} with a path")
        obs.event("grid.path")
        prob, tot = _G.grid_path_problem(grid, res.solution, start, goal, directions, bset, costs, res.objective)
        if prob:
            obs.violate("sp.path-on-unreachable" if d is None else "sp.bad-path",
                        f"{who}: {prob}; path={res.solution!r} objective={res.objective!r}")
            continue
        obs.event("grid.distance")
        want = _G.r2_float(d)
        if not (abs(res.objective - want) <= 1e-9 * (1 + abs(want))):
            obs.violate("sp.wrong-distance", f"{who}: reported {res.objective!r} via {res.solution!r}, shortest is {want!r}")
    if _l2["n"]:
        obs.event("l2.reconstruct_path", _l2["n"])
        _l2["n"] = 0
    if _l2["bad"]:
        obs.event("l2.reconstruct_path.bad", len(_l2["bad"]))
        obs.mech.add("l2.reconstruct_path.bad: " + _l2["bad"][0])
        _l2["bad"].clear()
    has_obstacle = any(v in bset for r in grid for v in r)
    return d is not None and d != (0, 0) and (has_obstacle or bool(costs))


def _run_scale(case, obs):
    from vf.common import call, is_crash, status_name

    n, edges, s, t, dist, hops = case["n"], case["edges"], case["s"], case["t"], case["dist"], case["hops"]
    adj = {}
    wt = {}
    for u, v, w in edges:
        adj.setdefault(u, []).append((v, w))
        wt[(u, v)] = min(w, wt.get((u, v), w))
    B = 60 * (n + len(edges)) + 2_000_000

    def judge(who, res, want, weighted=True, hop_exact=True):
        if is_crash(res):
            return
        obs.event("scale.judged")
        if status_name(res) != "OPTIMAL" and not (who == "dfs" and status_name(res) == "FEASIBLE"):
            obs.violate("scale.status", f"{who}: status {status_name(res)}, a path of {hops} arcs exists (n={n})")
            return
        path = res.solution
        if not isinstance(path, (list, tuple)) or not path or path[0] != s or path[-1] != t:
            obs.violate("scale.path-ends", f"{who}: path of {len(path) if hasattr(path, '__len__') else '?'} nodes does not run {s} -> {t}")
            return
        tot = 0
        for a, b in zip(path, path[1:]):
            if (a, b) not in wt:
                obs.violate("scale.path-edge", f"{who}: {a}->{b} is not an arc")
                return
            tot += wt[(a, b)]
        got = res.objective
        if weighted:
            if got != want or tot != want:
                obs.violate("scale.distance", f"{who}: reported {got}, path weighs {tot}, shortest distance {want}")
        elif hop_exact and (got != len(path) - 1 or got != want):
            obs.violate("scale.hops", f"{who}: reported {got}, path has {len(path) - 1} arcs, fewest {want}")
        elif not hop_exact and got != len(path) - 1:
            obs.violate("scale.hops", f"{who}: reported {got}, path has {len(path) - 1} arcs")

    nb_w = lambda x: adj.get(x, [])
    nb = lambda x: [v for v, _ in adj.get(x, [])]
    dj, ast, bf_mod, bfs_m = _m["dijkstra"], _m["a_star"], _m["bellman_ford"], _m["bfs"]
    judge("dijkstra", call(obs, dj.dijkstra, s, t, nb_w, budget=B, what="dijkstra[scale]"), dist)
    judge("astar[h=0]", call(obs, ast.astar, s, t, nb_w, lambda x: 0, budget=B, what="astar[scale]"), dist)
    judge("dijkstra_edges", call(obs, dj.dijkstra_edges, n, list(edges), s, target=t, backend="python", budget=B,
                                 what="dijkstra_edges[scale]"), dist)
    # fewest arcs: breadth first on the same arcs (shortcuts and back arcs are arcs too)
    from collections import deque

    lev = {s: 0}
    dq = deque([s])
    while dq:
        x = dq.popleft()
        for y in nb(x):
            if y not in lev:
                lev[y] = lev[x] + 1
                dq.append(y)
    judge("bfs", call(obs, bfs_m.bfs, s, t, nb, budget=B, what="bfs[scale]"), lev[t], weighted=False)
    judge("dfs", call(obs, bfs_m.dfs, s, t, nb, budget=B, what="dfs[scale]"), None, weighted=False, hop_exact=False)
    pairs = [(u, v) for u, v, _ in edges]
    judge("bfs_edges", call(obs, bfs_m.bfs_edges, n, pairs, s, target=t, backend="python", budget=B, what="bfs_edges[scale]"),
          lev[t], weighted=False)
    # serpentine grid: one corridor through every second row
    R, C = case["grid_rows"], case["grid_cols"]
    grid = [[0] * C for _ in range(R)]
    for r in range(1, R, 2):
        for c in range(C):
            grid[r][c] = 1
        grid[r][C - 1 if (r // 2) % 2 == 0 else 0] = 0
    want = (R // 2 + 1) * (C - 1) + 2 * (R // 2)
    goal = (R - 1, C - 1 if (R // 2) % 2 == 0 else 0)
    res = call(obs, ast.astar_grid, grid, (0, 0), goal, budget=40 * B, what="astar_grid[scale]")
    if not is_crash(res):
        obs.event("scale.judged")
        p = res.solution
        ok = (status_name(res) == "OPTIMAL" and isinstance(p, (list, tuple)) and p and tuple(p[0]) == (0, 0) and tuple(p[-1]) == goal
              and all(abs(a[0] - b[0]) + abs(a[1] - b[1]) == 1 and grid[b[0]][b[1]] == 0 for a, b in zip(p, p[1:])))
        if not ok or abs(res.objective - want) > 1e-9 or len(p) - 1 != want:
            obs.violate("scale.grid", f"astar_grid {R}x{C} serpentine: status {status_name(res)}, objective {res.objective!r}, "
                        f"{len(p) - 1 if hasattr(p, '__len__') else '?'} steps, shortest {want}")
    return True


def _run_dense(case, obs):
    from vf.common import call, is_crash, status_name

    n, edges, s, t = case["n"], case["edges"], case["s"], case["t"]
    d, neg = _G.bellman_ford_ref(n, edges, [s])
    negany = _G.has_negative_cycle(n, edges)
    wt = {}
    for u, v, w in edges:
        wt[(u, v)] = min(w, wt.get((u, v), w))
    bf, dj, fw = _m["bellman_ford"].bellman_ford, _m["dijkstra"].dijkstra_edges, _m["floyd_warshall"].floyd_warshall
    for tgt in (None, t):
        kw = {} if tgt is None else {"target": tgt}
        r = call(obs, bf, s, list(edges), n, backend="python", budget=20_000_000, what=f"bellman_ford[dense,{kw}]", **kw)
        if is_crash(r):
            continue
        obs.event("dense.judged")
        st = status_name(r)
        if neg != (st == "UNBOUNDED"):
            obs.violate("sp.unbounded-iff-negcycle", f"bellman_ford[dense] start={s} {kw}: status {st}, a negative cycle "
                        f"{'is' if neg else 'is NOT'} reachable from the start (n={n}, {len(edges)} arcs)")
            continue
        if neg:
            continue
        if tgt is None:
            sol = r.solution
            bad = [v for v in range(n) if d[v] is not None and (not isinstance(sol, dict) or sol.get(v) != d[v])]
            if st != "OPTIMAL" or bad:
                obs.violate("sp.distance", f"bellman_ford[dense] start={s}: status {st}, wrong / missing distance for nodes {bad[:4]}")
        elif d[tgt] is None:
            if st != "INFEASIBLE":
                obs.violate("sp.infeasible-iff-unreachable", f"bellman_ford[dense] {s}->{tgt}: status {st}, target unreachable")
        else:
            p = r.solution
            ok = st == "OPTIMAL" and r.objective == d[tgt] and isinstance(p, (list, tuple)) and p and p[0] == s and p[-1] == tgt \
                and all((a, b) in wt for a, b in zip(p, p[1:])) and sum(wt[(a, b)] for a, b in zip(p, p[1:])) == d[tgt]
            if not ok:
                obs.violate("sp.distance", f"bellman_ford[dense] {s}->{tgt}: status {st}, objective {r.objective!r}, shortest distance {d[tgt]}")
    r = call(obs, fw, n, list(edges), backend="python", budget=40_000_000, what="floyd_warshall[dense]")
    if not is_crash(r):
        obs.event("dense.judged")
        if negany != (status_name(r) == "UNBOUNDED"):
            obs.violate("sp.unbounded-iff-negcycle", f"floyd_warshall[dense]: status {status_name(r)}, a negative cycle "
                        f"{'exists' if negany else 'does not exist'}")
        elif not negany and (not isinstance(r.solution, list) or any(
                (r.solution[s][v] != d[v]) if d[v] is not None else (r.solution[s][v] != float("inf")) for v in range(n))):
            obs.violate("sp.matrix-entries", f"floyd_warshall[dense]: row {s} differs from the shortest distances")
    if all(w >= 0 for _, _, w in edges):
        r = call(obs, dj, n, list(edges), s, target=t, backend="python", budget=20_000_000, what="dijkstra_edges[dense]")
        if not is_crash(r):
            obs.event("dense.judged")
            st = status_name(r)
            if (d[t] is None) != (st == "INFEASIBLE") or (d[t] is not None and r.objective != d[t]):
                obs.violate("sp.distance", f"dijkstra_edges[dense] {s}->{t}: status {st}, objective {r.objective!r}, shortest {d[t]}")
    return True


def run(case, obs):
    obs.mode("exact")
    _SH.reset()
    if case["kind"] == "dense":
        obs.nontrivial = _run_dense(case, obs)
        return
    if case["kind"] == "scale":
        obs.nontrivial = _run_scale(case, obs)
        return
    try:
        if case["kind"] == "g":
            obs.nontrivial = _run_graph(case, obs)
            if _SH.modified():
                obs.event("info.edge-list-modified-in-place")
        else:
            obs.nontrivial = _run_grid(case, obs)
    except _G.OracleError as e:
        obs.inconc(f"oracle self-check failed: {e}")
