"""C12 — Rust and Python back-ends of the nine accelerated graph functions are observably equivalent.

Every case is one graph plus a list of jobs (public function + keyword arguments).  Each job is run
with backend="python", backend="rust", the default and (for some cases) backend="auto" on the
extension compiled by the runner from rust/ of the tree under test.  Deciding relation:

* same status and same *meaning* on every back-end (distance matrix / distance dict / distance to the
  target / hop count / reachable set as the documented sorted list / total MST weight and edge count /
  SCC partition and count / acyclicity / PageRank scores within n*tol);
* paths, MST edge lists, topological orders and the SCC order are certificates: each is validated for
  the same problem instead of being compared literally;
* every back-end's answer is also judged against a definitional oracle (vf/oracles/c12_oracles.py), so an
  error common to both implementations is seen too.

Metadata (iterations, evaluations, and `objective` where the documentation gives it no meaning:
floyd_warshall, the no-target modes, topological_sort_edges, pagerank_edges) is not part of the
relation; a difference there is counted as an `info.*` event only.
"""

import os
import sys
import time

ID = "C12"
NEEDS_RUST = True
RULE = ("seeded random and structured small multigraphs (duplicate / anti-parallel arcs with different weights, self "
        "loops, isolated nodes, negative weights with and without negative cycles, ties, disconnected) plus all "
        "digraphs on <=2 nodes and a random sample of those on 3 nodes; per graph a list of jobs over the nine "
        "accelerated functions (directed/undirected, "
        "with/without target, source=target, unreachable target, allow_forest, damping/tol/max_iter at the "
        "convergence boundary); every job runs on python, rust, default (and auto) back-ends; non-trivial = at "
        "least one job whose answer is not the empty/trivial one (an edge is used); distinct = distinct (graph, jobs)")
ASSUMPTIONS = [
    "node indices in range, n_nodes >= 1, max_iter >= 1, 0 < damping < 1 (documented domain)",
    "dijkstra_edges only with non-negative weights",
    "weights are ints or dyadic rationals (exact in floats) except in the 'approx' cases (multiples of 0.1), "
    "which are compared with 1e-9 relative tolerance",
    "a Rust-side endless loop or abort is detected by running the rust jobs of every case first in a forked child "
    "(limit 5 s of the child's CPU time, 2 GB address space); the fuel meter cannot see native code",
    "iterations/evaluations and undocumented objectives are metadata",
]
STRATA = [
    ("fw", 220, 2600),
    ("bf", 220, 2600),
    ("dij", 200, 2400),
    ("trav", 220, 2600),
    ("mst", 220, 2600),
    ("pr", 160, 1500),
    ("scc-topo", 220, 2600),
    ("shapes", 40, 400),
    ("scale", 6, 40),
    ("exh", 7, 14),
]
BATCH = {"exh": 1, "scale": 1}

FUNCS = {
    # public name -> (short, module, rust kernel)
    "floyd_warshall": ("fw", "solvor.floyd_warshall", "floyd_warshall"),
    "bellman_ford": ("bf", "solvor.bellman_ford", "bellman_ford"),
    "dijkstra_edges": ("dij", "solvor.dijkstra", "dijkstra"),
    "bfs_edges": ("bfs", "solvor.bfs", "bfs"),
    "dfs_edges": ("dfs", "solvor.bfs", "dfs"),
    "kruskal": ("mst", "solvor.mst", "kruskal"),
    "pagerank_edges": ("pr", "solvor.pagerank", "pagerank"),
    "strongly_connected_components_edges": ("scc", "solvor.scc", "strongly_connected_components"),
    "topological_sort_edges": ("topo", "solvor.scc", "topological_sort"),
}
SHORTS = [v[0] for v in FUNCS.values()]
REQUIRED_EVENTS = {"any": [f"eq.{s}" for s in SHORTS] + [f"oracle.{s}" for s in SHORTS] + [f"kernel.{s}" for s in SHORTS]}

INF = float("inf")
_fn = {}
_kcount = {}
_problem = None
_O = None
PREFLIGHT_CPU_S = 5.0  # the rust jobs of a case take milliseconds of CPU
PREFLIGHT_WALL_S = 120.0  # only for a child that neither finishes nor burns CPU
PREFLIGHT_AS_BYTES = 2 << 30
RUST_PATH_BUDGET = 400_000  # Python steps of an adapter (path/dict conversion of <= 400 nodes); the kernel is native
PY_PATH_BUDGET = 30_000_000
NATIVE_FAILURE_LIMIT = 3  # after that many native hangs/aborts a worker stops exploring (each costs seconds)
_native_failures = 0
_last_native = False  # did the most recent graph execution end in a native failure
_culprit = None


# ---------------------------------------------------------------- setup

def setup():
    global _problem, _O
    from vf.instrument import mod
    from vf.oracles import c12_oracles

    _O = c12_oracles
    so = os.environ.get("VERIF_RUST_SO")
    ext = sys.modules.get("solvor._solvor_rust")
    rust = mod("solvor.rust")
    if not so:
        _problem = "VERIF_RUST_SO not set: no freshly built extension"
    elif ext is None:
        _problem = "solvor._solvor_rust is blocked / not loaded"
    elif os.path.realpath(getattr(ext, "__file__", "") or "") != os.path.realpath(so):
        _problem = f"loaded extension {getattr(ext, '__file__', None)} is not the freshly built {so}"
    elif not rust.rust_available():
        _problem = "solvor.rust.rust_available() is False although the extension is loaded"
    elif rust.get_rust_module() is not ext:
        _problem = "solvor.rust.get_rust_module() does not return the freshly built extension"
    for name, (short, module, kernel) in FUNCS.items():
        _fn[name] = getattr(mod(module), name)
        _kcount[kernel] = 0
        if _problem is None:
            orig = getattr(ext, kernel, None)
            if orig is None:
                _problem = f"extension has no kernel {kernel}"
                continue
            if getattr(orig, "_vf_counted", False):
                continue

            def mk(orig, kernel):
                def counted(*a, **k):
                    _kcount[kernel] += 1
                    return orig(*a, **k)

                counted._vf_counted = True
                return counted

            setattr(ext, kernel, mk(orig, kernel))
    if _problem is None:
        adapters = getattr(rust, "_adapters", {})
        missing = [n for n in FUNCS if n not in adapters]
        if missing:
            # not fatal here: the kernel.* required events / per-case routing test report it
            pass


# ---------------------------------------------------------------- generators

def _pairs(rng, n, m, dup=0.25, anti=0.2, loops=0.1):
    k = n if rng.random() < 0.6 else max(1, n - rng.randint(1, max(1, n // 3)))
    nodes = rng.sample(range(n), k)  # the others stay isolated
    out = []
    for _ in range(m):
        r = rng.random()
        if out and r < dup:
            out.append(rng.choice(out))
        elif out and r < dup + anti:
            u, v = rng.choice(out)
            out.append((v, u))
        elif r < dup + anti + loops:
            u = rng.choice(nodes)
            out.append((u, u))
        else:
            out.append((rng.choice(nodes), rng.choice(nodes)))
    return out


def _weights(rng, n, pairs, mode):
    """returns (edges, approx)"""
    if mode == "nonneg":
        return [(u, v, rng.randint(0, 9)) for u, v in pairs], False
    if mode == "pos":
        return [(u, v, rng.randint(1, 9)) for u, v in pairs], False
    if mode == "ties":
        return [(u, v, rng.choice([1, 1, 1, 2, 2, 3])) for u, v in pairs], False
    if mode == "zero-heavy":
        return [(u, v, rng.choice([0, 0, 0, 1, 2])) for u, v in pairs], False
    if mode == "dyadic":
        return [(u, v, rng.randint(0, 36) / 4.0) for u, v in pairs], False
    if mode == "dyadic-neg":
        return [(u, v, rng.randint(-12, 36) / 4.0) for u, v in pairs], False
    if mode == "float-int":
        return [(u, v, float(rng.randint(0, 9))) for u, v in pairs], False
    if mode == "neg":
        return [(u, v, rng.randint(-4, 9)) for u, v in pairs], False
    if mode == "neg-mild":
        return [(u, v, rng.choice([-1, 0, 1, 2, 3, 4, 5, 7])) for u, v in pairs], False
    if mode == "potential":  # negative arcs, but every cycle has non-negative weight
        p = [rng.randint(0, 6) for _ in range(n)]
        return [(u, v, rng.randint(0, 5) + p[v] - p[u]) for u, v in pairs], False
    if mode == "decimal":
        return [(u, v, rng.randint(0, 40) / 10.0) for u, v in pairs], True
    if mode == "tiny-neg":
        # multiples of 2**-40 (exactly representable, sums exact): a negative cycle of total weight -2**-40 is as much a
        # negative cycle as one of weight -1; no absolute tolerance may hide it
        unit = 2.0 ** -40
        return [(u, v, rng.choice([-2, -1, 0, 1, 1, 2, 3, 5]) * unit) for u, v in pairs], False
    raise ValueError(mode)


def _src(rng, n, pairs):
    tails = [u for u, v in pairs if u != v]
    if tails and rng.random() < 0.8:
        return rng.choice(tails)
    return rng.randrange(n)


def _targets(rng, n, src):
    ts = [None, rng.randrange(n)]
    if rng.random() < 0.5:
        ts.append(src)
    if rng.random() < 0.6:
        ts.append(rng.randrange(n))
    seen = []
    for t in ts:
        if t not in seen:
            seen.append(t)
    return seen


def _case(kind, n, edges, src, jobs, approx=False, auto=False, kwcall=False):
    return {"kind": kind, "n": n, "edges": [tuple(e) for e in edges], "src": src, "jobs": jobs, "approx": approx,
            "auto": auto, "kwcall": kwcall}


def gen(stratum, rng, tier):
    auto = rng.random() < 0.25
    if stratum not in ("exh",):
        case = _gen(stratum, rng, tier, auto)
        case["kwcall"] = rng.random() < 0.15  # all parameters passed by keyword
        return case
    return _gen(stratum, rng, tier, auto)


def _gen(stratum, rng, tier, auto):
    if stratum == "fw":
        n = rng.randint(1, 7)
        pairs = _pairs(rng, n, rng.randint(0, 2 * n + 3), dup=0.3, anti=0.25)
        mode = rng.choice(["nonneg", "pos", "dyadic", "potential", "potential", "neg", "neg-mild", "ties", "decimal",
                           "float-int", "tiny-neg"])
        edges, approx = _weights(rng, n, pairs, mode)
        jobs = [("floyd_warshall", {"directed": True}), ("floyd_warshall", {"directed": False}), ("floyd_warshall", {})]
        return _case("fw", n, edges, 0, jobs, approx, auto)
    if stratum == "bf":
        n = rng.randint(1, 8)
        pairs = _pairs(rng, n, rng.randint(0, 2 * n + 3))
        mode = rng.choice(["potential", "potential", "potential", "neg", "neg-mild", "neg-mild", "nonneg", "dyadic-neg",
                           "decimal", "zero-heavy", "tiny-neg"])
        edges, approx = _weights(rng, n, pairs, mode)
        src = _src(rng, n, pairs)
        jobs = [("bellman_ford", {} if t is None else {"target": t}) for t in _targets(rng, n, src)]
        return _case("bf", n, edges, src, jobs, approx, auto)
    if stratum == "dij":
        n = rng.randint(1, 9)
        pairs = _pairs(rng, n, rng.randint(0, 2 * n + 4))
        mode = rng.choice(["nonneg", "nonneg", "pos", "dyadic", "ties", "zero-heavy", "decimal", "float-int"])
        edges, approx = _weights(rng, n, pairs, mode)
        src = _src(rng, n, pairs)
        jobs = [("dijkstra_edges", {} if t is None else {"target": t}) for t in _targets(rng, n, src)]
        return _case("dij", n, edges, src, jobs, approx, auto)
    if stratum == "trav":
        n = rng.randint(1, 9)
        pairs = _pairs(rng, n, rng.randint(0, 2 * n + 2))
        src = _src(rng, n, pairs)
        jobs = []
        for t in _targets(rng, n, src):
            kw = {} if t is None else {"target": t}
            jobs.append(("bfs_edges", dict(kw)))
            jobs.append(("dfs_edges", dict(kw)))
        return _case("trav", n, [(u, v, 1) for u, v in pairs], src, jobs, False, auto)
    if stratum == "scale":
        # thousands of nodes under the default recursion limit: a path taken in ascending weight order (components that
        # grow one node at a time) plus heavy chords for kruskal; a long corridor with dearer shortcuts for the path
        # reconstruction of the traversal / shortest-path functions.  Both back-ends have to return, and agree.
        n = rng.randint(1500, 3500)
        order = list(range(n))
        if rng.random() < 0.5:
            rng.shuffle(order)
        if rng.random() < 0.5:
            k = n - 1 - rng.choice([1, 1, 3, 0])  # mostly one or more nodes short: the heavy edges below are needed
            edges = [(order[i], order[i + 1], i + 1) if rng.random() < 0.8 else (order[i + 1], order[i], i + 1) for i in range(k)]
            top = n + 5
            edges.append((order[0], order[n - 1], top))
            for _ in range(rng.randint(2, 10)):
                a, b = rng.sample(range(n), 2)
                top += 1
                edges.append((order[a], order[b], top))
            if rng.random() < 0.5:
                rng.shuffle(edges)
            return _case("mst", n, edges, 0, [("kruskal", {}), ("kruskal", {"allow_forest": True})], False, auto)
        edges = [(order[i], order[i + 1], 1) for i in range(n - 1)]
        for _ in range(rng.randint(0, 6)):
            i = rng.randrange(n - 60)
            j = i + rng.randint(5, 50)
            edges.append((order[i], order[j], (j - i) + rng.randint(1, 3)))  # dearer than walking the corridor
        t = order[n - 1 - rng.choice([0, 0, 1, 7])]
        if rng.random() < 0.5:
            jobs = [("dijkstra_edges", {"target": t}), ("bellman_ford", {"target": t})]
            return _case("dij", n, edges, order[0], jobs, False, auto)
        jobs = [("bfs_edges", {"target": t}), ("dfs_edges", {"target": t})]
        return _case("trav", n, [(u, v, 1) for u, v, _ in edges[: n - 1]], order[0], jobs, False, auto)
    if stratum == "mst" and rng.random() < 0.35:
        # merge plan: distinct increasing weights dictate which components meet when (equal sizes preferred: maximal
        # union-find ranks); the joining edge touches arbitrary members in either orientation, heavier cycle-closing
        # edges must be refused - this is what drives the union-find of either back-end through its rare branches
        n = rng.randint(4, 16)
        comps = [[i] for i in range(n)]
        rng.shuffle(comps)
        edges, step = [], 1
        stop_at = 1 if rng.random() < 0.8 else 2
        while len(comps) > stop_at:
            comps.sort(key=len)
            if rng.random() < 0.7:
                i = rng.randrange(len(comps) - 1)
                c1, c2 = comps[i], comps[i + 1]
            else:
                c1, c2 = rng.sample(comps, 2)
            a = c1[-1] if rng.random() < 0.5 else rng.choice(c1)
            b = c2[-1] if rng.random() < 0.5 else rng.choice(c2)
            edges.append((a, b, step) if rng.random() < 0.5 else (b, a, step))
            merged = c1 + c2
            comps = [c for c in comps if c is not c1 and c is not c2] + [merged]
            step += 1
            if len(merged) >= 3 and rng.random() < 0.5:
                x, y = rng.sample(merged, 2)
                edges.append((x, y, step))
                step += 1
        rng.shuffle(edges)
        jobs = [("kruskal", {}), ("kruskal", {"allow_forest": True}), ("kruskal", {"allow_forest": False})]
        return _case("mst", n, edges, 0, jobs, False, auto)
    if stratum == "mst":
        n = rng.randint(1, 8)
        pairs = []
        if rng.random() < 0.55 and n > 1:  # guaranteed connected: random spanning tree first
            order = list(range(n))
            rng.shuffle(order)
            for i in range(1, n):
                a, b = order[i], order[rng.randrange(i)]
                pairs.append((a, b) if rng.random() < 0.5 else (b, a))
        pairs += _pairs(rng, n, rng.randint(0, n + 4), dup=0.3, anti=0.25)
        rng.shuffle(pairs)
        mode = rng.choice(["ties", "ties", "neg", "dyadic", "dyadic-neg", "nonneg", "decimal", "float-int"])
        edges, approx = _weights(rng, n, pairs, mode)
        jobs = [("kruskal", {}), ("kruskal", {"allow_forest": True}), ("kruskal", {"allow_forest": False})]
        return _case("mst", n, edges, 0, jobs, approx, auto)
    if stratum == "pr":
        n = rng.randint(1, 9)
        pairs = _pairs(rng, n, rng.randint(0, 2 * n + 3), dup=0.2, anti=0.2, loops=0.1)
        edges = [(u, v, 1) for u, v in pairs]
        damping = rng.choice([0.5, 0.85, 0.85, 0.95])
        tol = rng.choice([1e-6, 1e-6, 1e-3, 1e-8, 1e-10, 0.0])
        from vf.oracles import c12_oracles as O

        if tol == 0.0:
            # "use the whole budget": max_diff < 0 never holds, both back-ends must come back MAX_ITER after max_iter rounds
            its = {1, rng.choice([5, 30, 100, 300]), rng.choice([20, 60, 150])}
        else:
            K, _, _, conv = O.pagerank_iterates(n, pairs, damping, tol, 2000)
            its = {K, K + 1, rng.choice([1, 2, 3, 100])}
            if K > 1:
                its.add(K - 1)
        jobs = [("pagerank_edges", {"damping": damping, "tol": tol, "max_iter": mi}) for mi in sorted(its)]
        if rng.random() < 0.5:
            jobs.append(("pagerank_edges", {}))
        if rng.random() < 0.3:
            jobs.append(("pagerank_edges", {"damping": damping}))
        return _case("pr", n, edges, 0, jobs, False, auto)
    if stratum == "scc-topo":
        n = rng.randint(1, 9)
        r = rng.random()
        if r < 0.45:  # DAG under a hidden order
            order = list(range(n))
            rng.shuffle(order)
            pairs = []
            for _ in range(rng.randint(0, 2 * n + 2)):
                i, j = rng.randrange(n), rng.randrange(n)
                if i != j:
                    a, b = min(i, j), max(i, j)
                    pairs.append((order[a], order[b]))
            if r < 0.12 and pairs:  # one back arc or a self loop
                u, v = rng.choice(pairs)
                pairs.append((v, u) if rng.random() < 0.6 else (u, u))
        else:
            pairs = _pairs(rng, n, rng.randint(0, 2 * n + 2), dup=0.15, anti=0.15, loops=0.08)
        jobs = [("strongly_connected_components_edges", {}), ("topological_sort_edges", {})]
        return _case("scc-topo", n, [(u, v, 1) for u, v in pairs], 0, jobs, False, auto)
    if stratum == "shapes":
        return _gen_shape(rng, tier, auto)
    if stratum == "exh":
        return _gen_exh(rng, tier)
    raise ValueError(stratum)


def _all_jobs(rng, n, src, nonneg, targets):
    jobs = [("floyd_warshall", {"directed": True}), ("floyd_warshall", {"directed": False})]
    for t in targets:
        kw = {} if t is None else {"target": t}
        jobs.append(("bellman_ford", dict(kw)))
        jobs.append(("dijkstra_edges", dict(kw, _abs=True) if not nonneg else dict(kw)))
        jobs.append(("bfs_edges", dict(kw)))
        jobs.append(("dfs_edges", dict(kw)))
    jobs += [("kruskal", {}), ("kruskal", {"allow_forest": True}), ("strongly_connected_components_edges", {}),
             ("topological_sort_edges", {}), ("pagerank_edges", {}),
             ("pagerank_edges", {"damping": 0.5, "tol": 1e-4, "max_iter": 12})]
    return jobs


def _gen_shape(rng, tier, auto):
    shape = rng.choice(["path", "cycle", "star", "complete", "grid", "two-comp", "layered", "deep-path", "random-mid",
                        "bipartite", "wheel-neg"])
    pairs = []
    if shape == "path":
        n = rng.randint(2, 30)
        pairs = [(i, i + 1) for i in range(n - 1)]
        if rng.random() < 0.5:
            pairs += [(i + 1, i) for i in range(n - 1)]
    elif shape == "cycle":
        n = rng.randint(2, 24)
        pairs = [(i, (i + 1) % n) for i in range(n)]
        if rng.random() < 0.4:
            pairs.append((rng.randrange(n), rng.randrange(n)))
    elif shape == "star":
        n = rng.randint(2, 25)
        c = rng.randrange(n)
        for i in range(n):
            if i != c:
                pairs.append((c, i) if rng.random() < 0.6 else (i, c))
    elif shape == "complete":
        n = rng.randint(2, 9)
        pairs = [(i, j) for i in range(n) for j in range(n) if i != j]
    elif shape == "grid":
        a, b = rng.randint(2, 5), rng.randint(2, 6)
        n = a * b
        for i in range(a):
            for j in range(b):
                if j + 1 < b:
                    pairs.append((i * b + j, i * b + j + 1))
                if i + 1 < a:
                    pairs.append((i * b + j, (i + 1) * b + j))
        if rng.random() < 0.5:
            pairs += [(v, u) for u, v in pairs]
    elif shape == "two-comp":
        n1, n2 = rng.randint(1, 8), rng.randint(1, 8)
        n = n1 + n2 + rng.randint(0, 2)
        pairs = [(rng.randrange(n1), rng.randrange(n1)) for _ in range(2 * n1)]
        pairs += [(n1 + rng.randrange(n2), n1 + rng.randrange(n2)) for _ in range(2 * n2)]
    elif shape == "layered":
        L, wd = rng.randint(2, 6), rng.randint(1, 4)
        n = L * wd
        for l in range(L - 1):
            for i in range(wd):
                for j in range(wd):
                    if rng.random() < 0.7:
                        pairs.append((l * wd + i, (l + 1) * wd + j))
    elif shape == "deep-path":
        n = rng.randint(100, 400)
        perm = list(range(n))
        rng.shuffle(perm)
        pairs = [(perm[i], perm[i + 1]) for i in range(n - 1)]
        if rng.random() < 0.5:
            pairs.append((perm[-1], perm[rng.randrange(n)]))
        if n <= 140:
            rng.shuffle(pairs)  # Bellman-Ford then needs many rounds
        src = perm[0]
        edges, approx = _weights(rng, n, pairs, rng.choice(["pos", "ties"]))
        t = perm[rng.randrange(n)]
        jobs = [("strongly_connected_components_edges", {}), ("topological_sort_edges", {}),
                ("bfs_edges", {}), ("dfs_edges", {"target": t}), ("bfs_edges", {"target": t}),
                ("dijkstra_edges", {"target": t}), ("dijkstra_edges", {}), ("bellman_ford", {"target": t}),
                ("kruskal", {}), ("kruskal", {"allow_forest": True})]
        return _case("shapes", n, edges, src, jobs, approx, auto)
    elif shape == "random-mid":
        n = rng.randint(10, 30)
        pairs = _pairs(rng, n, rng.randint(n, 4 * n))
    elif shape == "bipartite":
        a, b = rng.randint(1, 6), rng.randint(1, 6)
        n = a + b
        pairs = [(i, a + j) for i in range(a) for j in range(b) if rng.random() < 0.6]
        pairs += [(a + j, i) for i in range(a) for j in range(b) if rng.random() < 0.2]
    else:  # wheel-neg
        n = rng.randint(3, 12)
        pairs = [(i, (i + 1) % (n - 1)) for i in range(n - 1)] + [(n - 1, i) for i in range(n - 1)]
    mode = rng.choice(["nonneg", "pos", "ties", "potential", "neg-mild", "dyadic", "zero-heavy"])
    if shape == "wheel-neg":
        mode = rng.choice(["neg-mild", "neg", "potential"])
    edges, approx = _weights(rng, n, pairs, mode)
    src = rng.randrange(n)
    nonneg = all(e[2] >= 0 for e in edges)
    targets = [None, rng.randrange(n)]
    return _case("shapes", n, edges, src, _all_jobs(rng, n, src, nonneg, targets), approx, auto)


def _gen_exh(rng, tier):
    # every case: all digraphs (self loops included) on 1 and 2 nodes and a random sample of the 512 on 3 nodes
    k = 48 if tier == "quick" else 96
    graphs = [(1, m) for m in range(2)] + [(2, m) for m in range(16)] + [(3, m) for m in sorted(rng.sample(range(512), k))]
    return {"kind": "exh", "graphs": graphs, "wseed": rng.randrange(6), "auto": False}


def _exh_graph(n, mask, wseed):
    table = [1, 2, -1, 0, 3, 1, -2, 2, 4, 1, 0, 5]
    arcs = [(u, v) for u in range(n) for v in range(n)]
    edges = []
    for i, (u, v) in enumerate(arcs):
        if mask >> i & 1:
            edges.append((u, v, table[(mask * 5 + i * 7 + wseed * 3) % len(table)]))
    if wseed % 2 and edges:
        u, v, w = edges[0]
        edges.append((v, u, w - 1 if wseed % 4 == 1 else w + 2))  # anti-parallel duplicate, lighter or heavier
    if wseed % 3 == 0 and edges:
        u, v, w = edges[-1]
        edges.append((u, v, w - 2))  # parallel duplicate, lighter, later in the list
    return edges


# ---------------------------------------------------------------- running jobs

class _Panic:
    def __init__(self, e):
        self.e = e


_SHL = {}  # per-case shared argument lists (reset by run): callers reuse their edge lists across calls


def _args_for(name, case, kw, shared=True):
    n, src = case["n"], case["src"]
    kw = dict(kw)
    edges = case["edges"]
    ab = bool(kw.pop("_abs", False))
    if ab:
        edges = [(u, v, abs(w)) for u, v, w in edges]
    # shared=True: the same list object goes to every call of the case that takes this edge collection: a back-end
    # (or adapter) that edits its input in place then shows up as a wrong answer of a later call.
    # shared=False: pristine copies (what the judge and its oracle work from).
    if not shared:
        we, ue = list(edges), [(u, v) for u, v, _ in edges]
    else:
        key = (id(case), ab)  # (the exhaustive stratum runs many small sub-cases inside one case)
        if key not in _SHL:
            _SHL[key] = (case, list(edges), [(u, v) for u, v, _ in edges])
        _c, we, ue = _SHL[key]
    if name == "floyd_warshall":
        return (n, we), kw
    if name == "bellman_ford":
        return (src, we, n), kw
    if name == "dijkstra_edges":
        return (n, we, src), kw
    if name in ("bfs_edges", "dfs_edges"):
        return (n, ue, src), kw
    if name == "kruskal":
        return (n, we), kw
    return (n, ue), kw


_PARAMS = {"floyd_warshall": ("n_nodes", "edges"), "bellman_ford": ("start", "edges", "n_nodes"),
           "dijkstra_edges": ("n_nodes", "edges", "source"), "bfs_edges": ("n_nodes", "edges", "source"),
           "dfs_edges": ("n_nodes", "edges", "source"), "kruskal": ("n_nodes", "edges"),
           "pagerank_edges": ("n_nodes", "edges"), "strongly_connected_components_edges": ("n_nodes", "edges"),
           "topological_sort_edges": ("n_nodes", "edges")}


def _invoke(obs, name, args, kw, backend, kwcall=False):
    """returns Result | Crash; a Rust panic is a violation crash:PanicException"""
    from vf.common import Crash, call

    fn = _fn[name]
    kw = dict(kw)
    if backend != "default":
        kw["backend"] = backend
    if kwcall:
        kw.update(zip(_PARAMS[name], args))
        args = ()

    def guarded():
        try:
            return fn(*args, **kw)
        except BaseException as e:  # pyo3's PanicException derives from BaseException
            if type(e).__name__ == "PanicException":
                return _Panic(e)
            raise

    r = call(obs, guarded, budget=PY_PATH_BUDGET if backend == "python" else RUST_PATH_BUDGET, what=f"{name}[{backend}]")
    if isinstance(r, _Panic):
        obs.violate("crash:PanicException", f"{name}[{backend}] args={_short((args, kw))}: {r.e!r}")
        return Crash("crash", r.e)
    return r


def _short(x, n=700):
    s = repr(x)
    return s if len(s) <= n else s[: n - 3] + "..."


def _preflight(case_jobs):
    """Run the rust calls of this case in a forked child first: a native endless loop / abort / allocation
    blow-up cannot be stopped from inside the process.  Returns None or (class, detail)."""
    import signal

    pid = os.fork()
    if pid == 0:
        code = 0
        try:
            try:
                import resource

                resource.setrlimit(resource.RLIMIT_AS, (PREFLIGHT_AS_BYTES, PREFLIGHT_AS_BYTES))
            except Exception:
                pass
            from vf.common import Obs, call

            scratch = Obs()
            for name, args, kw in case_jobs:
                try:
                    # same fuel budget as the real run: an endless *Python* loop in an adapter ends here quickly
                    # and is reported by the in-process run as `hang`
                    call(scratch, _fn[name], *args, budget=RUST_PATH_BUDGET, backend="rust", **kw)
                except BaseException:
                    pass
        finally:
            os._exit(code)
    t0 = time.time()
    delay = 0.0005
    tick = os.sysconf("SC_CLK_TCK")
    while True:
        got, status = os.waitpid(pid, os.WNOHANG)
        if got == pid:
            break
        wall = time.time() - t0
        if wall > 1.0:
            # judged on the child's own CPU time, so a loaded machine cannot cause an accusation
            try:
                f = open(f"/proc/{pid}/stat").read().rsplit(")", 1)[1].split()
                cpu = (int(f[11]) + int(f[12])) / tick
            except Exception:
                cpu = wall
            if cpu > PREFLIGHT_CPU_S or wall > PREFLIGHT_WALL_S:
                try:
                    os.kill(pid, signal.SIGKILL)
                except OSError:
                    pass
                os.waitpid(pid, 0)
                return ("rust.no-return", f"rust back-end did not return after {cpu:.1f}s CPU / {wall:.1f}s wall "
                                          f"(forked pre-flight; such calls take milliseconds)")
        time.sleep(delay)
        delay = min(delay * 2, 0.05)
    if os.WIFSIGNALED(status):
        return ("rust.abort", f"rust back-end killed the process: signal {os.WTERMSIG(status)} (forked pre-flight)")
    return None


# ---------------------------------------------------------------- interpretation of one result

def _st(res):
    return getattr(getattr(res, "status", None), "name", str(getattr(res, "status", None)))


def _num_same(a, b, approx, tol=1e-9):
    if a == b:
        return True
    if not approx or not isinstance(a, (int, float)) or not isinstance(b, (int, float)):
        return False
    if a in (INF, -INF) or b in (INF, -INF) or a != a or b != b:
        return False
    return abs(a - b) <= tol * (1 + abs(a) + abs(b))


def _orc_same(val, ex, approx):
    """val: number returned by the library; ex: oracle number (int/Fraction) or None for 'no path'"""
    if not isinstance(val, (int, float)) or isinstance(val, bool) or val != val:
        return False
    if ex is None:
        return val == INF
    if val in (INF, -INF):
        return False
    if approx:
        return abs(val - float(ex)) <= 1e-9 * (1 + abs(float(ex)))
    return _O.exact(val) == ex


class _Judge:
    """judges the results of one job; v(cls, msg) records a violation tagged with the back-end"""

    def __init__(self, obs, case, name, args, kw):
        self.obs, self.case, self.name, self.args, self.kw = obs, case, name, args, kw
        self.short = FUNCS[name][0]
        self.approx = case.get("approx", False)
        self.ctx = None
        self.nontrivial = False

    def v(self, backend, what, msg):
        self.obs.violate(f"{self.short}.{backend}.{what}",
                         f"{self.name}{_short(self.args, 500)} {self.kw} backend={backend}: {msg}")

    def ev(self, what, n=1):
        self.obs.event(f"{what}.{self.short}", n)

    # each interp_* returns a comparable 'meaning' (status name first) or None when the answer is malformed
    def interp(self, backend, res):
        return getattr(self, "interp_" + self.short)(backend, res)

    # ---- floyd_warshall
    def interp_fw(self, be, res):
        n, edges = self.args
        directed = self.kw.get("directed", True)
        if self.ctx is None:
            self.ctx = _O.apsp(n, edges, directed) if n <= _O.APSP_MAX_N else (None, None)
            self.obs.mode("exact" if n <= _O.APSP_MAX_N else "certificate_only")
        D, neg = self.ctx
        st = _st(res)
        if st == "UNBOUNDED":
            if res.solution is not None or res.objective != -INF:
                self.v(be, "malformed", f"UNBOUNDED with solution={_short(res.solution, 100)} objective={res.objective}")
            if D is not None:
                self.ev("oracle")
                if not neg:
                    self.v(be, "oracle-status", "UNBOUNDED but there is no negative cycle")
            return ("UNBOUNDED",)
        if st != "OPTIMAL":
            self.v(be, "status", f"unexpected status {st}")
            return (st,)
        sol = res.solution
        if not isinstance(sol, list) or len(sol) != n or any(not isinstance(r, list) or len(r) != n for r in sol):
            self.v(be, "malformed", f"solution is not an n x n list: {_short(sol, 200)}")
            return None
        if D is not None:
            self.ev("oracle")
            if neg:
                self.v(be, "oracle-status", "OPTIMAL although a negative cycle exists")
            else:
                for i in range(n):
                    for j in range(n):
                        if not _orc_same(sol[i][j], D[i][j], self.approx):
                            self.v(be, "oracle-dist", f"dist[{i}][{j}]={sol[i][j]!r}, definition gives {D[i][j]}")
                            return ("OPTIMAL", tuple(tuple(r) for r in sol))
        if edges:
            self.nontrivial = True
        return ("OPTIMAL", tuple(tuple(r) for r in sol))

    # ---- single-source shortest paths (bellman_ford, dijkstra_edges)
    def _sssp_ctx(self, n, edges, src):
        if self.ctx is None:
            if n <= _O.SSSP_MAX_N:
                d, neg = _O.sssp(n, edges, src)
                self.ctx = (d, neg, _O.min_arcs(n, edges))
                self.obs.mode("exact")
            else:
                self.ctx = (None, None, _O.min_arcs(n, edges))
                self.obs.mode("certificate_only")
        return self.ctx

    def _interp_sssp(self, be, res, n, edges, src, may_neg):
        d, neg, arcw = self._sssp_ctx(n, edges, src)
        tgt = self.kw.get("target")
        st = _st(res)
        if d is not None:
            self.ev("oracle")
        if st == "UNBOUNDED":
            if res.solution is not None or res.objective != -INF:
                self.v(be, "malformed", f"UNBOUNDED with solution={_short(res.solution, 100)} objective={res.objective}")
            if not may_neg or (d is not None and not neg):
                self.v(be, "oracle-status", "UNBOUNDED but no negative cycle is reachable from the source")
            self.nontrivial = True
            return ("UNBOUNDED",)
        if d is not None and neg:
            self.v(be, "oracle-status", f"{st} although a negative cycle is reachable from the source")
            return (st, "neg-missed")
        if tgt is None:
            if st != "OPTIMAL":
                self.v(be, "status", f"unexpected status {st}")
                return (st,)
            sol = res.solution
            if not isinstance(sol, dict):
                self.v(be, "malformed", f"solution is not a dict: {_short(sol, 200)}")
                return None
            if d is not None:
                want = {i for i in range(n) if d[i] is not None}
                if set(sol) != want:
                    self.v(be, "oracle-reach", f"keys {sorted(sol)} but reachable set is {sorted(want)}")
                else:
                    for i in want:
                        if not _orc_same(sol[i], d[i], self.approx):
                            self.v(be, "oracle-dist", f"dist[{i}]={sol[i]!r}, definition gives {d[i]}")
                            break
            if len(sol) > 1:
                self.nontrivial = True
            return ("OPTIMAL", tuple(sorted(sol.items())))
        # with target
        if st == "INFEASIBLE":
            if res.solution is not None or res.objective != INF:
                self.v(be, "malformed", f"INFEASIBLE with solution={_short(res.solution, 100)} objective={res.objective}")
            if d is not None and d[tgt] is not None:
                self.v(be, "oracle-status", f"INFEASIBLE but target {tgt} is reachable at distance {d[tgt]}")
            return ("INFEASIBLE",)
        if st != "OPTIMAL":
            self.v(be, "status", f"unexpected status {st}")
            return (st,)
        if d is not None and d[tgt] is None:
            self.v(be, "oracle-status", f"OPTIMAL but target {tgt} is unreachable")
            return ("OPTIMAL", res.objective)
        why = _O.check_walk(res.solution, src, tgt, arcw)
        self.ev("cert")
        if why:
            self.v(be, "path", f"path {_short(res.solution, 200)}: {why}")
        else:
            w = _O.walk_weight(res.solution, arcw)
            if not _orc_same(res.objective, w, self.approx):
                self.v(be, "path-weight", f"path {_short(res.solution, 200)} weighs {w}, objective says {res.objective!r}")
        if d is not None and not _orc_same(res.objective, d[tgt], self.approx):
            self.v(be, "oracle-dist", f"objective {res.objective!r}, definition gives {d[tgt]}")
        if tgt != src:
            self.nontrivial = True
        return ("OPTIMAL", res.objective)

    def interp_bf(self, be, res):
        src, edges, n = self.args
        return self._interp_sssp(be, res, n, edges, src, True)

    def interp_dij(self, be, res):
        n, edges, src = self.args
        return self._interp_sssp(be, res, n, edges, src, False)

    # ---- bfs_edges / dfs_edges
    def _interp_trav(self, be, res, shortest):
        n, pairs, src = self.args
        if self.ctx is None:
            self.ctx = (_O.reachable(n, pairs, src), _O.hops(n, pairs, src) if n <= _O.SSSP_MAX_N else None, set(pairs))
            self.obs.mode("exact" if n <= _O.SSSP_MAX_N else "certificate_only")
        reach, hop, arcs = self.ctx
        tgt = self.kw.get("target")
        st = _st(res)
        self.ev("oracle")
        if tgt is None:
            if st != "OPTIMAL":
                self.v(be, "status", f"unexpected status {st}")
                return (st,)
            sol = res.solution
            if not isinstance(sol, list):
                self.v(be, "malformed", f"solution is not a list: {_short(sol, 200)}")
                return None
            if sol != sorted(reach):
                self.v(be, "oracle-reach", f"solution {_short(sol, 200)} is not the sorted reachable set {_short(sorted(reach), 200)}")
            if len(sol) > 1:
                self.nontrivial = True
            return ("OPTIMAL", tuple(sol))
        if st == "INFEASIBLE":
            if res.solution is not None or res.objective != INF:
                self.v(be, "malformed", f"INFEASIBLE with solution={_short(res.solution, 100)} objective={res.objective}")
            if tgt in reach:
                self.v(be, "oracle-status", f"INFEASIBLE but target {tgt} is reachable")
            return ("INFEASIBLE",)
        want = "OPTIMAL" if shortest else "FEASIBLE"
        if st != want:
            self.v(be, "status", f"status {st}, documented {want} for a found path")
            return (st,)
        if tgt not in reach:
            self.v(be, "oracle-status", f"{st} but target {tgt} is unreachable")
            return (st, res.objective)
        self.ev("cert")
        why = _O.check_walk(res.solution, src, tgt, arcs)
        if why:
            self.v(be, "path", f"path {_short(res.solution, 200)}: {why}")
        else:
            if res.objective != len(res.solution) - 1:
                self.v(be, "path-weight", f"objective {res.objective!r} but the path has {len(res.solution) - 1} arcs")
            if not shortest and len(set(res.solution)) != len(res.solution):
                self.v(be, "path", f"path {_short(res.solution, 200)} repeats a node")
        if shortest and hop is not None and res.objective != hop[tgt]:
            self.v(be, "oracle-dist", f"objective {res.objective!r}, fewest arcs is {hop[tgt]}")
        if tgt != src:
            self.nontrivial = True
        # a DFS path is any path: only the status and 'found' are meaning
        return (st, res.objective) if shortest else (st, "found")

    def interp_bfs(self, be, res):
        return self._interp_trav(be, res, True)

    def interp_dfs(self, be, res):
        return self._interp_trav(be, res, False)

    # ---- kruskal
    def interp_mst(self, be, res):
        n, edges = self.args
        forest_ok = self.kw.get("allow_forest", False)
        if self.ctx is None:
            W, k = _O.msf_weight(n, edges)
            if len(edges) <= _O.MST_BRUTE_MAX_M:
                Wb, kb = _O.msf_weight_brute(n, edges)
                self.obs.mode("exact")
                if (Wb, kb) != (W, k):
                    self.obs.inconc(f"C12 oracle self-check failed: greedy {(W, k)} vs brute force {(Wb, kb)} on {_short(self.args)}")
            else:
                self.obs.mode("exact-greedy")
            self.ctx = (W, k)
        W, k = self.ctx
        connected = k == n - 1
        st = _st(res)
        self.ev("oracle")
        if st == "INFEASIBLE":
            if res.solution is not None or res.objective != INF:
                self.v(be, "malformed", f"INFEASIBLE with solution={_short(res.solution, 100)} objective={res.objective}")
            if connected:
                self.v(be, "oracle-status", "INFEASIBLE but the graph is connected")
            elif forest_ok:
                self.v(be, "oracle-status", "INFEASIBLE although allow_forest=True")
            return ("INFEASIBLE",)
        want = "OPTIMAL" if connected else "FEASIBLE"
        if st != want:
            self.v(be, "oracle-status", f"status {st}, expected {want} (connected={connected}, allow_forest={forest_ok})")
            return (st,)
        if not connected and not forest_ok:
            self.v(be, "oracle-status", "a forest was returned for a disconnected graph without allow_forest")
        sol = res.solution
        if not isinstance(sol, list):
            self.v(be, "malformed", f"solution is not a list: {_short(sol, 200)}")
            return None
        self.ev("cert")
        why = _O.check_forest(n, edges, sol)
        if why:
            self.v(be, "forest", f"{_short(sol, 300)}: {why}")
        elif len(sol) != k:
            self.v(be, "forest", f"{len(sol)} edges, a spanning forest has {k}")
        else:
            tot = sum((_O.exact(e[2]) for e in sol), 0)
            if not _orc_same(res.objective, tot, self.approx):
                self.v(be, "forest-weight", f"edges weigh {tot}, objective says {res.objective!r}")
        if not _orc_same(res.objective, W, self.approx):
            self.v(be, "oracle-weight", f"objective {res.objective!r}, minimum spanning forest weighs {W}")
        if k >= 1:
            self.nontrivial = True
        return (st, res.objective, len(sol))

    # ---- SCC
    def interp_scc(self, be, res):
        n, pairs = self.args
        if self.ctx is None:
            if n <= 60:
                self.ctx = _O.scc_classes(n, pairs)
                self.obs.mode("exact")
            else:
                self.ctx = False
                self.obs.mode("certificate_only")
        classes = self.ctx
        st = _st(res)
        if st != "OPTIMAL":
            self.v(be, "status", f"unexpected status {st}")
            return (st,)
        sol = res.solution
        if not isinstance(sol, list) or any(not isinstance(c, list) for c in sol):
            self.v(be, "malformed", f"solution is not a list of lists: {_short(sol, 200)}")
            return None
        flat = [x for c in sol for x in c]
        part = frozenset(frozenset(c) for c in sol)
        self.ev("cert")
        if sorted(flat) != list(range(n)):
            self.v(be, "partition", f"components {_short(sol, 300)} do not partition range({n})")
            return ("OPTIMAL", part, res.objective)
        if res.objective != len(sol):
            self.v(be, "count", f"objective {res.objective!r} but {len(sol)} components")
        pos = {x: i for i, c in enumerate(sol) for x in c}
        for u, v in pairs:
            if pos[u] < pos[v]:
                self.v(be, "order", f"arc {(u, v)} goes from component #{pos[u]} to the later #{pos[v]}: not sinks-first")
                break
        if classes is not False:
            self.ev("oracle")
            if set(part) != classes:
                self.v(be, "oracle-partition", f"components {_short(sol, 300)}, mutual-reachability classes are "
                                              f"{_short(sorted(map(sorted, classes)), 300)}")
        else:
            self.ev("oracle")  # certificate part only; counted under mode certificate_only
        if pairs:
            self.nontrivial = True
        return ("OPTIMAL", part, res.objective)

    # ---- topological sort
    def interp_topo(self, be, res):
        n, pairs = self.args
        if self.ctx is None:
            if n <= 60:
                self.ctx = _O.is_acyclic(n, pairs)
                self.obs.mode("exact")
            else:
                self.ctx = "big"
                self.obs.mode("certificate_only")
        acyc = self.ctx
        st = _st(res)
        self.ev("oracle")
        if st == "INFEASIBLE":
            if res.solution is not None:
                self.v(be, "malformed", f"INFEASIBLE with solution={_short(res.solution, 100)}")
            if acyc is True:
                self.v(be, "oracle-status", "INFEASIBLE but the graph is acyclic")
            self.nontrivial = True
            return ("INFEASIBLE",)
        if st != "OPTIMAL":
            self.v(be, "status", f"unexpected status {st}")
            return (st,)
        if acyc is False:
            self.v(be, "oracle-status", "an order was returned for a graph with a cycle")
        sol = res.solution
        self.ev("cert")
        if not isinstance(sol, list) or sorted(sol) != list(range(n)):
            self.v(be, "order", f"order {_short(sol, 300)} is not a permutation of range({n})")
            return ("OPTIMAL",)
        pos = {x: i for i, x in enumerate(sol)}
        for u, v in pairs:
            if pos[u] >= pos[v]:
                self.v(be, "order", f"arc {(u, v)} points backwards in the order {_short(sol, 300)}")
                break
        if pairs:
            self.nontrivial = True
        return ("OPTIMAL",)

    # ---- pagerank
    def interp_pr(self, be, res):
        from math import fsum

        n, pairs = self.args
        d = self.kw.get("damping", 0.85)
        tol = self.kw.get("tol", 1e-6)
        mi = self.kw.get("max_iter", 100)
        if self.ctx is None:
            k, x, steps, conv = _O.pagerank_iterates(n, pairs, d, tol, mi)
            tie = any(abs(s - tol) <= 1e-6 * tol for s in steps)
            pstar = _O.pagerank_exact(n, pairs, d) if n <= _O.PAGERANK_EXACT_MAX_N else None
            self.ctx = (k, x, conv, tie, pstar, _O.pagerank_operator(n, pairs, d))
            self.obs.mode("exact" if pstar is not None else "certificate_only")
            if tie:
                self.obs.event("pr.boundary-tie")
        k, x, conv, tie, pstar, T = self.ctx
        st = _st(res)
        if st not in ("OPTIMAL", "MAX_ITER"):
            self.v(be, "status", f"unexpected status {st}")
            return (st,)
        sol = res.solution
        if not isinstance(sol, dict) or sorted(sol) != list(range(n)):
            self.v(be, "malformed", f"solution keys {_short(sol, 200)}")
            return None
        sc = [sol[i] for i in range(n)]
        self.ev("oracle")
        if any((not isinstance(s, float)) or s != s or s < 0 for s in sc):
            self.v(be, "oracle-range", f"scores {_short(sc, 300)} contain a negative / non-number")
            return (st, tuple(sc))
        if abs(fsum(sc) - 1.0) > 1e-9:
            self.v(be, "oracle-sum", f"scores sum to {fsum(sc)!r}")
        if st == "OPTIMAL":
            y = T(sc)
            resid = max(abs(a - b) for a, b in zip(sc, y))
            if resid > d * n * tol + 1e-12:
                self.v(be, "oracle-fixed-point", f"|T(x)-x|_inf = {resid:.3e} > d*n*tol = {d * n * tol:.3e}")
            if pstar is not None:
                err = max(abs(a - float(b)) for a, b in zip(sc, pstar))
                bound = d * n * tol / (1 - d) + 1e-12
                if err > bound:
                    self.v(be, "oracle-stationary", f"distance to the exact stationary vector {err:.3e} > {bound:.3e}")
        elif pstar is not None:
            err = max(abs(a - float(b)) for a, b in zip(sc, pstar))
            bound = 2 * d ** mi + 1e-12
            if err > bound:
                self.v(be, "oracle-stationary", f"after {mi} rounds the distance to the stationary vector is {err:.3e} > 2*d^k = {bound:.3e}")
        if not tie:
            if (st == "OPTIMAL") != conv:
                self.v(be, "oracle-status", f"status {st}; the documented iteration from the uniform vector "
                                            f"{'converges at round ' + str(k) if conv else 'does not converge within ' + str(mi) + ' rounds'} (tol={tol}, max_iter={mi})")
            else:
                dev = max(abs(a - b) for a, b in zip(sc, x))
                if dev > 1e-9:
                    self.v(be, "oracle-iterate", f"scores differ from iterate {k} of the documented iteration by {dev:.3e}")
        if pairs:
            self.nontrivial = True
        return (st, tuple(sc))


def _same_meaning(short, a, b, approx, n, kw):
    """a, b: meanings with equal status"""
    if short == "pr":
        tol = kw.get("tol", 1e-6)
        return all(abs(x - y) <= max(n * tol, 1e-9) for x, y in zip(a[1], b[1]))
    if len(a) != len(b):
        return False
    for x, y in zip(a[1:], b[1:]):
        if short == "fw":
            if any(not _num_same(p, q, approx) for r1, r2 in zip(x, y) for p, q in zip(r1, r2)):
                return False
        elif short in ("bf", "dij") and isinstance(x, tuple):
            if len(x) != len(y) or any(i != j or not _num_same(p, q, approx) for (i, p), (j, q) in zip(x, y)):
                return False
        elif isinstance(x, (int, float)) and isinstance(y, (int, float)):
            if not _num_same(x, y, approx):
                return False
        elif x != y:
            return False
    return True


# objectives the documentation gives no meaning to: compared for information only
_INFO_OBJECTIVE = {"fw", "topo", "pr"}


def _run_job(obs, case, name, kw):
    from vf.common import is_crash

    short, _, kernel = FUNCS[name]
    args, kw2 = _args_for(name, case, kw)
    pristine, _kw = _args_for(name, case, kw, shared=False)
    J = _Judge(obs, case, name, pristine, kw2)
    backends = ["python", "rust", "default"] + (["auto"] if case.get("auto") else [])
    meanings = {}
    results = {}
    for be in backends:
        k0 = _kcount[kernel]
        a2 = args  # the caller's own (shared) objects, not copies
        res = _invoke(obs, name, a2, kw2, be, case.get("kwcall", False))
        used = _kcount[kernel] - k0
        if be == "python":
            if used:
                obs.inconc(f"{name}(backend='python') reached the Rust kernel: the two paths cannot be told apart")
        else:
            if used == 1:
                obs.event(f"kernel.{short}")
            elif not is_crash(res):
                obs.inconc(f"{name}(backend={be!r}) did not reach the Rust kernel {kernel} ({used} calls): nothing to compare")
        if is_crash(res):
            continue
        if not all(hasattr(res, f) for f in ("solution", "objective", "status")):
            obs.violate(f"{short}.{be}.malformed", f"{name}{_short(args, 500)} {kw2}: returned {_short(res, 200)}, not a Result")
            continue
        if a2[1] != pristine[1]:
            obs.event(f"info.{short}.input-mutated")
        results[be] = res
        meanings[be] = J.interp(be, res)
    obs.outcome(f"{short}:" + "/".join(_st(results[b]) if b in results else "crash" for b in ("python", "rust")))
    ref = meanings.get("python")
    if ref is not None:
        for be in backends[1:]:
            m = meanings.get(be)
            if m is None:
                continue
            obs.event(f"eq.{short}")
            if m[0] != ref[0]:
                obs.violate(f"{short}.status-differs",
                            f"{name}{_short(args, 500)} {kw2}: python -> {ref[0]}, {be} -> {m[0]}")
            elif not _same_meaning(short, ref, m, case.get("approx", False), case["n"], kw2):
                obs.violate(f"{short}.answer-differs",
                            f"{name}{_short(args, 500)} {kw2}: python -> {_short(ref, 400)}, {be} -> {_short(m, 400)}")
            else:
                ro, mo = results["python"].objective, results[be].objective
                if not _num_same(ro, mo, True) and (short in _INFO_OBJECTIVE or "target" not in kw2):
                    obs.event(f"info.{short}.objective-differs")
                    obs.mech.add(f"info.{short}.objective-differs")
    return J.nontrivial


def _run_graph_case(case, obs):
    global _native_failures, _culprit, _last_native
    _culprit = None
    _last_native = False
    if _native_failures >= NATIVE_FAILURE_LIMIT:
        obs.event("skipped.after-native-failures")
        return
    jobs = [(name, kw) for name, kw in case["jobs"]]
    pre = []
    for name, kw in jobs:
        args, kw2 = _args_for(name, case, kw)
        pre.append((name, args, kw2))
    bad = _preflight(pre)
    obs.event("preflight.cases")
    if bad:
        # find the job (each one alone) so that the witness names it
        culprit = None
        _native_failures += 1
        _last_native = True
        if len(pre) == 1:
            culprit = pre[0]
        else:
            for (j, jk) in zip(pre, jobs):
                if _preflight([j]):
                    culprit = j
                    _culprit = jk
                    break
        obs.violate(bad[0], f"{bad[1]}; job={_short(culprit if culprit else pre, 900)}")
        return
    nt = False
    for name, kw in jobs:
        nt = _run_job(obs, case, name, kw) or nt
    obs.nontrivial = nt


def run(case, obs):
    _SHL.clear()
    if _problem:
        obs.inconc("C12 setup: " + _problem)
        return
    if os.environ.get("VERIF_RUST_PROFILE") == "debug":
        obs.event("profile.debug-build")
    else:
        obs.event("profile.release-build")
    if case.get("kwcall"):
        obs.event("style.keyword-call")
    if case.get("auto"):
        obs.event("style.backend-auto")
    if case["kind"] == "exh":
        cnt = 0
        for n, mask in case["graphs"]:
            edges = _exh_graph(n, mask, case["wseed"])
            for src in ([0] if n < 3 else [0, 2]):
                nonneg = all(e[2] >= 0 for e in edges)
                targets = [None, n - 1, 0] if src == 0 else [1]
                jobs = _all_jobs(None, n, src, nonneg, targets)
                if src != 0:
                    jobs = [j for j in jobs if j[0] in ("bellman_ford", "dijkstra_edges", "bfs_edges", "dfs_edges")]
                sub = _case("exh-sub", n, edges, src, jobs)
                before = len(obs.violations)
                _run_graph_case(sub, obs)
                cnt += 1
                if len(obs.violations) > before:
                    obs.violations[before:] = [(c, f"[exh n={n} mask={mask} src={src} edges={edges}] " + d)
                                               for c, d in obs.violations[before:]]
                    obs.event("exh.graphs", cnt)
                    return
        obs.event("exh.graphs", cnt)
        obs.nontrivial = True
        return
    _run_graph_case(case, obs)


# ---------------------------------------------------------------- shrinking

def shrink(case):
    if case["kind"] == "exh":
        g = case["graphs"]
        if len(g) > 1 and not _last_native:
            mid = len(g) // 2
            yield dict(case, graphs=g[:mid])
            yield dict(case, graphs=g[mid:])
        return
    jobs = case["jobs"]
    if _last_native:
        # a native hang/abort costs seconds per re-execution: only isolate the job
        if _culprit is not None and len(jobs) > 1:
            yield dict(case, jobs=[_culprit])
        return
    if len(jobs) > 1:
        for i in range(len(jobs)):
            yield dict(case, jobs=[jobs[i]])
    edges = case["edges"]
    m = len(edges)
    size = m // 2
    while size >= 2:
        for lo in range(0, m, size):
            yield dict(case, edges=edges[:lo] + edges[lo + size:])
        size //= 2
    if m <= 48:
        for i in range(m):
            yield dict(case, edges=edges[:i] + edges[i + 1:])
    n = case["n"]
    used = {case["src"]} | {e[0] for e in edges} | {e[1] for e in edges} | {kw.get("target") for _, kw in jobs}
    if n > 1 and (n - 1) not in used:
        yield dict(case, n=n - 1)
    if case.get("auto"):
        yield dict(case, auto=False)
