"""C13 — kruskal and prim return minimum spanning trees (or say why not)."""

from itertools import product

from vf.common import fresh as _fresh

ID = "C13"
RULE = ("seeded undirected multigraphs (ties, negative/dyadic weights, duplicate pairs with different weights, "
        "self loops, isolated nodes, 2-4 components, arbitrary hashable labels and any start for prim) plus every "
        "simple graph on <=4 nodes with weights {absent,1,2} (thorough: {absent,1,2,3}); each result of kruskal (default and backend='python', "
        "allow_forest off/on) and prim (two label schemes, given/implicit start) is judged by an exact certificate: "
        "edges are input edges, acyclic, spanning, objective = sum, cycle property (=> minimum, any size), total = "
        "the oracle's own Kruskal, kruskal = prim; UnionFind contracts (C20) stay attached inside kruskal. "
        "non-trivial = the graph has a non-loop edge outside some spanning forest, or is disconnected; distinct = "
        "distinct (n, edge list, labels, start)")
ASSUMPTIONS = [
    "weights are ints or dyadic rationals (float sums exact), so objective equality is exact",
    "prim receives the undirected graph as a symmetric adjacency dict that has every node as a key",
    "n_nodes >= 1 (documented ValueError otherwise is not generated)",
    "FEASIBLE is the flag that tells a spanning forest from a spanning tree (statement: 'a minimum spanning forest flagged "
    "FEASIBLE'), so a complete minimum spanning tree of a connected graph has to come back OPTIMAL, with or without "
    "allow_forest (a tree flagged FEASIBLE could not be told from a forest)",
]
QUICK_SCALE = 2.5  # quick-tier multiplier (idle 16-core timing: ~10 s at scale 1)
STRATA = [
    ("ties", 1800, 28000),
    ("spread", 1400, 21000),
    ("multigraph", 1800, 28000),
    ("disconnected", 1800, 28000),
    ("larger", 240, 3500),
    ("merge-plan", 900, 12000),
    ("tiny-scale", 700, 9000),
    ("scale", 5, 40),
    ("exhaustive-small", 1, 1),
]
BATCH = {"exhaustive-small": 1, "scale": 1}
REQUIRED_EVENTS = {"any": ["mst.cycle-property", "mst.spanning", "mst.acyclic", "mst.objective", "mst.weight-vs-ref",
                           "mst.kruskal-vs-prim", "mst.infeasible-iff-disconnected", "mst.forest-status",
                           "uf.post.union", "uf.inv.forest", "uf.inv.count", "uf.inv.rank"]}

_mst = None
_mon = None
_G = None
_Status = None


def setup():
    global _mst, _mon, _G, _Status
    from vf.instrument import mod
    from vf.monitors import ds as mon
    from vf.oracles import graph

    mon.attach()
    _mon = mon
    _G = graph
    _mst = mod("solvor.mst")
    _Status = mod("solvor.types").Status


# ---------------------------------------------------------------- generators

def _labels(rng, n):
    scheme = rng.choice(["int", "str", "tuple", "mixed", "frozenset", "negint", "shuffled"])
    if scheme == "int":
        return list(range(n))
    if scheme == "str":
        return [chr(97 + i) * (1 + i % 2) for i in range(n)]
    if scheme == "tuple":
        return [(i // 3, i % 3) for i in range(n)]
    if scheme == "frozenset":
        return [frozenset({i, i + 100}) for i in range(n)]
    if scheme == "negint":
        return [-(i + 1) * 7 for i in range(n)]
    if scheme == "shuffled":
        p = list(range(n))
        rng.shuffle(p)
        return p
    pool = [lambda i: i, lambda i: "n%d" % i, lambda i: (i, "x"), lambda i: frozenset({i}), lambda i: (i,)]
    return [rng.choice(pool)(i) for i in range(n)]


def _weight_fn(rng, kind):
    if kind == "ties":
        vals = rng.choice([[1], [0, 1], [1, 2], [0, 1, 2], [-1, 0, 1], [2, 2, 3]])
        return lambda: rng.choice(vals)
    if kind == "dyadic":
        return lambda: rng.randint(-24, 40) / 4.0
    if kind == "neg":
        return lambda: rng.randint(-9, 3)
    if kind == "tiny":
        # multiples of 2**-44 (~5.7e-14): exact in floats, differences far below any absolute epsilon
        lo = rng.choice([0, 0, -12])
        return lambda: rng.randint(lo, 40) * 2.0 ** -44
    return lambda: rng.randint(-3, 12)


def _spanning_skeleton(rng, nodes, w):
    """random spanning tree edges over `nodes` (connects them)."""
    order = list(nodes)
    rng.shuffle(order)
    out = []
    for i in range(1, len(order)):
        a, b = order[i], rng.choice(order[:i])
        if rng.random() < 0.5:
            a, b = b, a
        out.append((a, b, w()))
    return out


def gen(stratum, rng, tier):
    if stratum == "exhaustive-small":
        return {"kind": "exh", "max_n": 4, "weights": (0, 1, 2) if tier == "quick" else (0, 1, 2, 3)}
    if stratum == "ties":
        n = rng.randint(1, 9)
        w = _weight_fn(rng, "ties")
        connected = True
    elif stratum == "spread":
        n = rng.randint(2, 9)
        w = _weight_fn(rng, rng.choice(["dyadic", "neg", "int"]))
        connected = True
    elif stratum == "multigraph":
        n = rng.randint(1, 7)
        w = _weight_fn(rng, rng.choice(["ties", "int", "neg", "dyadic"]))
        connected = rng.random() < 0.8 or n < 2
    elif stratum == "disconnected":
        n = rng.randint(2, 10)
        w = _weight_fn(rng, rng.choice(["ties", "int", "neg", "dyadic"]))
        connected = False
    elif stratum == "tiny-scale":
        n = rng.randint(2, 9)
        w = _weight_fn(rng, "tiny")
        connected = rng.random() < 0.85
    elif stratum == "merge-plan":
        # the union-find under kruskal is driven through a chosen merge order: distinct increasing weights dictate
        # which components meet when (equal sizes preferred: maximal ranks), the joining edge touches arbitrary
        # members (not the representatives), in either orientation; heavier edges inside a component must be refused
        n = rng.randint(4, 18)
        comps = [[i] for i in range(n)]
        rng.shuffle(comps)
        edges, step = [], 1
        stop_at = 1 if rng.random() < 0.8 else rng.randint(2, 3)
        while len(comps) > stop_at:
            comps.sort(key=len)
            i = rng.randrange(len(comps) - 1) if rng.random() < 0.7 else None
            if i is None:
                c1, c2 = rng.sample(comps, 2)
            else:
                c1, c2 = comps[i], comps[i + 1]
            a = c1[-1] if rng.random() < 0.5 else rng.choice(c1)
            b = c2[-1] if rng.random() < 0.5 else rng.choice(c2)
            edges.append((a, b, step) if rng.random() < 0.5 else (b, a, step))
            merged = c1 + c2
            comps = [c for c in comps if c is not c1 and c is not c2] + [merged]
            step += 1
            if len(merged) >= 3 and rng.random() < 0.5:
                x, y = rng.sample(merged, 2)
                edges.append((x, y, step))  # closes a cycle, heavier than every edge on the path: never a tree edge
                step += 1
        rng.shuffle(edges)
        return {"kind": "g", "n": n, "edges": edges, "labels": _labels(rng, n), "start": rng.randrange(n),
                "adj_seed": rng.randrange(1 << 30), "tuple_adj": rng.random() < 0.3}
    elif stratum == "scale":
        # thousands of nodes under the interpreter's default recursion limit: components that grow one node at a time
        # (ascending weights along a path), then edges touching the far ends - the shape on which a union-find that lost
        # its height bound, or anything recursive per node, stops returning
        n = rng.randint(1500, 4000)
        order = list(range(n))
        if rng.random() < 0.5:
            rng.shuffle(order)
        k = n - 1 - rng.choice([0, 0, 1, 3])
        edges = [(order[i], order[i + 1], i + 1) if rng.random() < 0.8 else (order[i + 1], order[i], i + 1) for i in range(k)]
        top = n + 5
        edges.append((order[0], order[n - 1], top))
        for _ in range(rng.randint(2, 12)):
            a, b = rng.sample(range(n), 2)
            top += 1
            edges.append((order[a], order[b], top))
        if rng.random() < 0.5:
            rng.shuffle(edges)
        return {"kind": "g", "n": n, "edges": edges, "labels": list(range(n)), "start": rng.randrange(n),
                "adj_seed": rng.randrange(1 << 30), "tuple_adj": False}
    elif stratum == "larger":
        n = rng.randint(15, 40)
        w = _weight_fn(rng, rng.choice(["ties", "int", "dyadic"]))
        connected = rng.random() < 0.8
    else:
        raise ValueError(stratum)

    edges = []
    if connected:
        groups = [list(range(n))]
    else:
        k = rng.randint(2, min(4, n))
        nodes = list(range(n))
        rng.shuffle(nodes)
        cuts = sorted(rng.sample(range(1, n), k - 1))
        groups = [nodes[a:b] for a, b in zip([0] + cuts, cuts + [n])]
    for g in groups:
        edges += _spanning_skeleton(rng, g, w)
        if len(g) >= 2:
            extra = rng.randint(0, 2 * len(g)) if stratum != "larger" else rng.randint(len(g), 4 * len(g))
            for _ in range(extra):
                a, b = rng.sample(g, 2)
                edges.append((a, b, w()))
    if stratum == "multigraph":
        for _ in range(rng.randint(1, 6)):
            r = rng.random()
            if r < 0.45 and edges:
                u, v, _ = rng.choice(edges)  # duplicate pair, other weight, either orientation
                if rng.random() < 0.5:
                    u, v = v, u
                edges.append((u, v, w()))
            elif r < 0.8:
                u = rng.randrange(n)
                edges.append((u, u, rng.choice([w(), -5, 0])))  # self loop, possibly the cheapest edge
            elif edges:
                edges.append(rng.choice(edges))  # exact duplicate
    elif rng.random() < 0.15:
        u = rng.randrange(n)
        edges.append((u, u, w()))
    rng.shuffle(edges)
    return {
        "kind": "g",
        "n": n,
        "edges": edges,
        "labels": _labels(rng, n),
        "start": rng.randrange(n),
        "adj_seed": rng.randrange(1 << 30),
        "tuple_adj": rng.random() < 0.3,
    }


def shrink(case):
    if case.get("kind") != "g":
        return
    edges = case["edges"]
    n = case["n"]
    for i in range(len(edges)):
        c = dict(case)
        c["edges"] = edges[:i] + edges[i + 1:]
        yield c
    # drop the last node when nothing refers to it
    if n > 1 and all(u != n - 1 and v != n - 1 for u, v, _ in edges):
        c = dict(case)
        c["n"] = n - 1
        c["labels"] = case["labels"][: n - 1]
        c["start"] = min(case["start"], n - 2)
        yield c
    if case["labels"] != list(range(n)):
        c = dict(case)
        c["labels"] = list(range(n))
        yield c


# ---------------------------------------------------------------- judging

def _drain(obs):
    # the UnionFind conditions look at the representation: anomalies (mechanism evidence), never verdicts (DESIGN 2)
    for name, detail in _mon.drain():
        obs.event("anomaly.contract:" + name)
        obs.mech.add("contract:" + name)
    for k, v in _mon.take_counts().items():
        obs.event(k, v)


def _judge(obs, who, res, n, edges, ref, forest_allowed, back=None):
    """edges / ref are in index space; `back` maps a returned label to its index (prim)."""
    from vf.common import short, status_name

    ref_w, ref_cnt, ref_comp = ref
    connected = ref_comp == 1
    st = status_name(res)
    obs.outcome(f"{who}:{st}")
    obs.event("mst.infeasible-iff-disconnected")
    if not connected and not forest_allowed:
        if st != "INFEASIBLE" or res.solution is not None:
            obs.violate("mst.disconnected-not-infeasible",
                        f"{who}: graph has {ref_comp} components, status {st}, solution {short(res.solution, 200)}")
        return None
    if st == "INFEASIBLE" or res.solution is None:
        obs.violate("mst.infeasible-on-valid", f"{who}: status {st} solution {short(res.solution, 100)} although "
                    f"{'the graph is connected' if connected else 'allow_forest=True'}")
        return None
    obs.event("mst.forest-status")
    if not connected:
        if st != "FEASIBLE":
            obs.violate("mst.forest-status", f"{who}: disconnected graph with allow_forest must be flagged FEASIBLE, got {st}")
    elif st != "OPTIMAL":
        obs.violate("mst.tree-status", f"{who}: connected graph (a complete minimum spanning tree exists), status {st}; "
                    "FEASIBLE is the flag of a forest on a disconnected graph")
    tree = list(res.solution)
    if back is not None:
        mapped = []
        for e in tree:
            try:
                u, v, w = e
                mapped.append((back[u], back[v], w))
            except (KeyError, TypeError, ValueError):
                obs.violate("mst.edge-not-in-input", f"{who}: returned edge {e!r} does not join two nodes of the graph")
                return None
        tree = mapped
    obs.event("mst.count")
    if len(tree) != ref_cnt:
        obs.violate("mst.edge-count", f"{who}: {len(tree)} edges, a spanning {'tree' if connected else 'forest'} has {ref_cnt}")
    counts = {}
    probs = _G.forest_problems(n, edges, tree, counts)
    for k, v in counts.items():
        obs.event(k, v)
    for cls, detail in probs:
        obs.violate("mst." + cls, f"{who}: {detail}")
    if probs:
        return None
    total = sum(_G.exact(w) for _, _, w in tree)
    obs.event("mst.objective")
    try:
        obj = _G.exact(res.objective)
    except (ValueError, OverflowError, TypeError):
        obj = None
    if obj != total:
        obs.violate("mst.objective", f"{who}: objective {res.objective!r}, edge weights sum to {total}")
    obs.event("mst.weight-vs-ref")
    if total != ref_w:
        if len(tree) == ref_cnt:
            obs.inconc(f"oracle disagreement: cycle property holds but weight {total} != own Kruskal {ref_w}")
    return total


def _run_graph(case, obs, budget=100_000):  # observed maximum on the unchanged tree: ~1 300 steps
    from random import Random

    from vf.common import call, is_crash

    n, edges, labels = case["n"], [tuple(e) for e in case["edges"]], case["labels"]
    budget = max(budget, 400 * (n + len(edges)))
    ref = _G.kruskal_ref(n, edges)
    totals = {}
    for be in (None, "python"):
        for af in (False, True):
            kw = {"allow_forest": af}
            if be:
                kw["backend"] = be
            who = f"kruskal[{be or 'default'},forest={af}]"
            given = list(edges)
            res = call(obs, _mst.kruskal, n, given, what=who, budget=budget, **kw)
            if given != list(edges):
                # not part of the statement (every answer is still judged on the graph that was passed): recorded only
                obs.event("info.callers-edge-list-modified")
            _drain(obs)
            if is_crash(res):
                continue
            t = _judge(obs, who, res, n, edges, ref, af)
            if t is not None:
                totals[who] = t
    # prim: symmetric adjacency dict over arbitrary labels
    r = Random(case["adj_seed"])
    back = {lab: i for i, lab in enumerate(labels)}
    for scheme, labs in (("labels", labels), ("index", list(range(n)))):
        if scheme == "index" and labs == labels:
            continue
        bk = {lab: i for i, lab in enumerate(labs)}
        order = list(range(n))
        r.shuffle(order)
        adj = {labs[i]: [] for i in order}
        for u, v, w in edges:
            adj[labs[u]].append((_fresh(labs[v]), w))  # equal-but-distinct label objects
            if u != v:
                adj[labs[v]].append((_fresh(labs[u]), w))
        for k in adj:
            r.shuffle(adj[k])
            if case.get("tuple_adj"):
                adj[k] = tuple(adj[k])
        if ref[2] == 1 and n >= 3 and r.random() < 0.2:
            # a pendant node that is listed only where it hangs (no key of its own): still a node of the graph
            deg = {}
            for u, v, w in edges:
                if u != v:
                    deg[u] = deg.get(u, 0) + 1
                    deg[v] = deg.get(v, 0) + 1
            leaves = [i for i in range(n) if deg.get(i) == 1 and i != case["start"] and labs[i] != next(iter(adj))]
            if leaves:
                adj.pop(labs[r.choice(leaves)])
                obs.event("mst.prim-node-only-as-neighbour")
        shared_adj = dict(adj)  # one dict object for both prim calls: callers try several start nodes on one graph
        for start in ("given", "none"):
            kw = {"start": _fresh(labs[case["start"]])} if start == "given" else {}
            who = f"prim[{scheme},start={start}]"
            res = call(obs, _mst.prim, shared_adj, what=who, budget=budget, **kw)
            if is_crash(res):
                continue
            t = _judge(obs, who, res, n, edges, ref, False, back=bk)
            if t is not None:
                totals[who] = t
    del back
    if totals:
        obs.event("mst.kruskal-vs-prim", len(totals))
        if len(set(totals.values())) > 1:
            obs.violate("mst.solvers-disagree", f"total weights differ: {totals}")
    _drain(obs)
    nonloop = [e for e in edges if e[0] != e[1]]
    return ref[2] > 1 or len(nonloop) > ref[1]


def run(case, obs):
    obs.mode("exact")
    if case["kind"] == "g":
        obs.nontrivial = bool(_run_graph(case, obs))
        return
    # every simple graph on n <= max_n nodes, each pair absent / weight 1 / weight 2
    cnt = 0
    for n in range(1, case["max_n"] + 1):
        pairs = [(a, b) for a in range(n) for b in range(a + 1, n)]
        for ws in product(tuple(case.get("weights", (0, 1, 2))), repeat=len(pairs)):
            edges = [(a, b, w) for (a, b), w in zip(pairs, ws) if w]
            sub = {"kind": "g", "n": n, "edges": edges, "labels": list(range(n)), "start": cnt % n, "adj_seed": cnt}
            _run_graph(sub, obs)
            cnt += 1
            if obs.violations:
                obs.violations[-1] = (obs.violations[-1][0], f"n={n} edges={edges}: " + obs.violations[-1][1])
                return
    obs.event("mst.exhaustive.graphs", cnt)
    obs.nontrivial = True
