"""C14 — strongly_connected_components, topological_sort and condense match their definitions."""

from itertools import permutations
from random import Random

ID = "C14"
RULE = ("directed graphs as (node iterable, neighbour callback) built by stratified seeded generators (random, "
        "block blueprints = strongly connected blocks joined along a DAG, DAGs with duplicate arcs, DAGs plus one or "
        "two back arcs / self loops, neighbours outside the node set incl. outside labels that point back inside, "
        "node subsets of a larger graph, several weak components, str/tuple/frozenset/mixed labels, deep paths and "
        "cycles up to 400 nodes, and ALL digraphs on 3 nodes (with loops) and on 4 nodes (without) under several "
        "node/neighbour orders); every result of the three public functions and the two *_edges variants is judged "
        "against the definitions evaluated on the graph restricted to the node set (pairwise mutual reachability by "
        "closure for n<=80, plus the complete linear certificate: partition + every block strongly connected + no arc "
        "from an earlier to a later block); non-trivial = at least 2 nodes and one arc inside the node set; distinct = "
        "distinct (node order, neighbour lists, hand-over kinds)")
ASSUMPTIONS = ["node iterable yields distinct hashable labels (duplicates in `nodes` are not generated)",
               "the neighbour callback is a pure function of its argument; it may be called on any label it returned",
               "*_edges variants only on 0..n-1 graphs whose arcs stay inside range(n)",
               "every library call runs under the default recursion limit (1000 frames from the call, vf.common.call); deepest generated DFS path 400"]
QUICK_SCALE = 2.5  # quick-tier multiplier (idle 16-core timing: ~10 s at scale 1)
STRATA = [
    ("random-small", 6000, 60000),
    ("edited", 1500, 15000),
    ("too-deep", 3, 30),
    ("blueprint", 6000, 60000),
    ("dag", 2200, 22000),
    ("near-dag", 2200, 22000),
    ("outside", 4500, 45000),
    ("subset", 2200, 22000),
    ("labels", 2200, 22000),
    ("multi-weak", 1800, 18000),
    ("deep", 150, 1500),
    ("exh-n3", 1, 1),
    ("exh-n4-p0", 1, 1),
    ("exh-n4-p1", 1, 1),
    ("exh-n4-p2", 1, 1),
    ("exh-n4-p3", 1, 1),
]
BATCH = {"exh-n3": 1, "exh-n4-p0": 1, "exh-n4-p1": 1, "exh-n4-p2": 1, "exh-n4-p3": 1}
REQUIRED_EVENTS = {"any": ["scc.partition", "scc.classes.exact", "scc.cert.strong", "scc.order",
                           "topo.acyclic.order", "topo.cyclic.infeasible", "cond.nodes", "cond.edges",
                           "cond.acyclic", "exh.graphs"]}

_scc = None
_G = None
_Status = None


def setup():
    global _scc, _G, _Status
    from vf.instrument import mod
    from vf.oracles import graphdefs

    _scc = mod("solvor.scc")
    _Status = mod("solvor.types").Status
    _G = graphdefs


# ---------------------------------------------------------------- generators


def _pick_kinds(rng):
    from vf.gen.graphcases import AS_KINDS, RET_KINDS

    # "list-dup": the caller's node list names some node twice (e.g. built by concatenating edge endpoints) - still
    # the same node set
    return rng.choice(RET_KINDS), (rng.choice(AS_KINDS) if rng.random() > 0.08 else "list-dup")


def _node_arg(nodes, kind):
    from vf.gen.graphcases import node_iterable

    if kind == "list-dup":
        out = list(nodes)
        if out:
            out.insert(len(out) // 2, out[-1])
            out.append(out[0])
        return out
    return node_iterable(nodes, kind)


def _mk(rng, n, edges, label_kind, **kw):
    from vf.gen import graphcases as gc

    nodes, adj = gc.decorate(rng, n, gc.int_adj(n, edges), label_kind, **kw)
    ret, as_ = _pick_kinds(rng)
    return {"kind": "graph", "nodes": nodes, "adj": adj, "ret": ret, "as": as_}


def gen(stratum, rng, tier):
    from vf.gen import graphcases as gc

    lab = rng.choice(["int", "int", "int", "int-sparse", "str", "tuple"])
    if stratum == "random-small":
        n = rng.randint(1, 9) if rng.random() > 0.02 else 0  # the empty graph is a graph
        p = rng.choice([0.08, 0.15, 0.25, 0.4, 0.6])
        e = gc.gnp(rng, n, p, loops=rng.choice([0, 0, 0.15]))
        return _mk(rng, n, e, lab, dup=rng.choice([0, 0.2, 0.5]))
    if stratum == "too-deep":
        # a path deeper than the recursion limit behind a small component that is finished first.  The module documents
        # that such graphs need a higher recursion limit: RecursionError is the documented answer - but an answer that is
        # returned has to be right
        n = rng.randint(1300, 1800)
        k = rng.randint(2, 4)
        cyc = [f"c{i}" for i in range(k)]
        chain = list(range(n))
        adj = {cyc[i]: [cyc[(i + 1) % k]] for i in range(k)}
        for i in range(n - 1):
            adj[i] = [i + 1]
        adj[n - 1] = [cyc[0]]
        if rng.random() < 0.5:
            adj[rng.randrange(n // 2, n)] .append(rng.randrange(0, n // 2))  # one long back arc: a big SCC as well
        return {"kind": "too-deep", "nodes": cyc + chain, "adj": adj}
    if stratum == "edited":
        # one graph object, edited between calls, queried through ONE neighbour function (a module-level def, a bound
        # method of a long-lived object): every call is about the graph as it is now
        a = gen("random-small", rng, tier)
        steps = []
        adj = {k: list(v) for k, v in a["adj"].items()}
        nodes = list(a["nodes"])
        for _ in range(rng.randint(1, 3)):
            adj = {k: list(v) for k, v in adj.items()}
            for _e in range(rng.randint(1, 3)):
                if not nodes:
                    break
                u = rng.choice(nodes)
                r = rng.random()
                if r < 0.5:
                    adj.setdefault(u, []).append(rng.choice(nodes))
                elif adj.get(u):
                    adj[u].pop(rng.randrange(len(adj[u])))
                else:
                    adj.setdefault(u, []).append(rng.choice(nodes))
            steps.append(adj)
        a["kind"] = "edited"
        a["steps"] = steps
        return a
    if stratum == "blueprint":
        total = rng.randint(2, 14)
        n, e = gc.blueprint(rng, gc.random_sizes(rng, total, rng.choice([1, 2, 3, 5, 8])),
                            p_intra=rng.choice([0, 0.3, 0.8]), p_inter=rng.choice([0.15, 0.35, 0.7]))
        return _mk(rng, n, e, lab, dup=rng.choice([0, 0.2]), loops=rng.choice([0, 0, 0.1]))
    if stratum == "dag":
        n = rng.randint(1, 12)
        e = gc.dag(rng, n, rng.choice([0.1, 0.25, 0.5, 0.9]))
        return _mk(rng, n, e, lab, dup=rng.choice([0, 0.3, 0.7]))
    if stratum == "near-dag":
        n = rng.randint(1, 10)
        e = gc.dag(rng, n, rng.choice([0.2, 0.4, 0.8]))
        r = rng.random()
        if r < 0.3 or not e:
            v = rng.randrange(n)
            e.append((v, v))  # a self loop is the only cycle
        elif r < 0.8:
            u, v = rng.choice(e)
            e.append((v, u))  # 2-cycle on an existing arc
        else:
            for _ in range(rng.randint(1, 2)):
                u, v = rng.choice(e)
                e.append((v, rng.choice([a for a, _ in e])))
        return _mk(rng, n, e, lab, dup=rng.choice([0, 0.3]))
    if stratum == "outside":
        shape = rng.random()
        if shape < 0.4:
            n = rng.randint(1, 8)
            e = gc.gnp(rng, n, rng.choice([0.1, 0.2, 0.4]), loops=rng.choice([0, 0.1]))
        elif shape < 0.7:
            n = rng.randint(1, 10)
            e = gc.dag(rng, n, rng.choice([0.2, 0.5]))
        else:
            n, e = gc.blueprint(rng, gc.random_sizes(rng, rng.randint(2, 10), 4))
        return _mk(rng, n, e, lab, dup=rng.choice([0, 0.2]), outside=rng.choice([0.2, 0.5, 1.0]),
                   outside_bridge=rng.random() < 0.6)
    if stratum == "subset":
        # the node set is a subset of a larger graph whose other labels keep their neighbour lists
        if rng.random() < 0.5:
            n = rng.randint(3, 10)
            e = gc.gnp(rng, n, rng.choice([0.15, 0.3, 0.5]))
        else:
            n, e = gc.blueprint(rng, gc.random_sizes(rng, rng.randint(3, 12), 5))
        c = _mk(rng, n, e, lab, dup=rng.choice([0, 0.2]))
        keep = rng.randint(1, n - 1)
        c["nodes"] = c["nodes"][:keep]
        return c
    if stratum == "labels":
        lk = rng.choice(["mixed", "with-none", "frozenset", "tuple", "str"])
        if rng.random() < 0.5:
            n = rng.randint(1, 8)
            e = gc.gnp(rng, n, rng.choice([0.15, 0.3, 0.5]), loops=rng.choice([0, 0.1]))
        else:
            n, e = gc.blueprint(rng, gc.random_sizes(rng, rng.randint(2, 9), 4))
        return _mk(rng, n, e, lk, dup=rng.choice([0, 0.3]), outside=rng.choice([0, 0, 0.4]),
                   outside_bridge=rng.random() < 0.2)
    if stratum == "multi-weak":
        parts = rng.randint(2, 4)
        e = []
        n = 0
        for _ in range(parts):
            k = rng.randint(1, 5)
            kind = rng.choice(["cycle", "dag", "gnp", "single", "loop"])
            if kind == "cycle":
                sub = [(i, (i + 1) % k) for i in range(k)] if k > 1 else []
            elif kind == "dag":
                sub = gc.dag(rng, k, 0.5)
            elif kind == "gnp":
                sub = gc.gnp(rng, k, 0.4)
            elif kind == "loop":
                sub = [(0, 0)]
            else:
                sub = []
            e += [(u + n, v + n) for u, v in sub]
            n += k
        return _mk(rng, n, e, lab, dup=rng.choice([0, 0.3]))
    if stratum == "deep":
        n = rng.randint(100, 400)
        ids = list(range(n))
        shape = rng.choice(["path", "cycle", "path+back", "two-cycles", "lollipop", "path+chords"])
        e = [(i, i + 1) for i in range(n - 1)]
        if shape == "cycle":
            e.append((n - 1, 0))
        elif shape == "path+back":
            a = rng.randrange(n)
            b = rng.randrange(a + 1) if rng.random() < 0.7 else a
            e.append((a, b))
        elif shape == "two-cycles":
            m = rng.randint(2, n - 2)
            e += [(m, 0), (n - 1, m)]
        elif shape == "lollipop":
            m = rng.randint(1, n - 1)
            e.append((n - 1, m))
        elif shape == "path+chords":
            for _ in range(rng.randint(1, 8)):
                a = rng.randrange(n - 1)
                e.append((a, rng.randrange(a + 1, n)))  # forward chords: still acyclic
        order = rng.choice(["fwd", "rev", "shuffle"])
        c = _mk(rng, n, e, rng.choice(["int", "int", "str"]), shuffle_nodes=(order == "shuffle"))
        if order == "rev":
            c["nodes"] = c["nodes"][::-1]
        return c
    if stratum == "exh-n3":
        return {"kind": "exh", "n": 3, "loops": True, "perms": list(range(6)), "orders": [0, 1]}
    if stratum.startswith("exh-n4-p"):
        k = int(stratum[-1])
        per = 3 if tier == "quick" else 6
        return {"kind": "exh", "n": 4, "loops": False, "perms": list(range(k * 6, k * 6 + per)), "orders": [k % 2]}
    raise ValueError(stratum)


def shrink(case):
    if case.get("kind") != "graph":
        return
    from vf.gen.graphcases import shrink_graph

    yield from shrink_graph(case)


# ---------------------------------------------------------------- judging


class Truth:
    def __init__(self, nodes, adj):
        G = _G
        self.nodes = list(nodes)
        self.ns = set(self.nodes)
        self.radj = G.restrict(self.nodes, adj)
        self.exact = len(self.nodes) <= G.EXACT_DIRECTED_MAX_N
        self.cycle = G.find_cycle(self.nodes, self.radj)
        if self.exact:
            self.reach = G.reach_sets(self.nodes, self.radj)
            self.classes = G.mutual_classes(self.nodes, self.reach)
            self.walk = G.on_closed_walk(self.nodes, self.radj, self.reach)
        else:
            self.reach = self.classes = self.walk = None
        self.arcs = sum(len(ws) for ws in self.radj.values())


def _s(x, n=300):
    r = repr(x)
    return r if len(r) <= n else r[:n] + "..."


def judge_scc(obs, res, T, who):
    G = _G
    comps = getattr(res, "solution", None)
    try:
        comps = [list(c) for c in comps]
    except TypeError:
        obs.violate("scc.shape", f"{who}: solution is not a list of node lists: {_s(comps)}")
        return
    obs.event("scc.partition")
    flat = [x for c in comps for x in c]
    foreign = [x for x in flat if x not in T.ns]
    if foreign:
        obs.violate("scc.foreign-node", f"{who}: components contain labels that are not in the node set: "
                                        f"{_s(foreign)}; components={_s(comps)}")
        return
    if len(flat) != len(set(flat)) or set(flat) != T.ns or any(not c for c in comps):
        obs.violate("scc.partition", f"{who}: components are not a partition of the node set into non-empty blocks: "
                                     f"{_s(comps)} nodes={_s(T.nodes)}")
        return
    if T.exact:
        obs.event("scc.classes.exact")
        obs.mode("exact")
        got = {frozenset(c) for c in comps}
        if got != T.classes:
            obs.violate("scc.classes", f"{who}: blocks {_s(sorted(map(sorted_safe, got), key=repr))} are not the "
                                       f"mutual-reachability classes {_s(sorted(map(sorted_safe, T.classes), key=repr))}")
    else:
        obs.mode("certificate_only")
    # complete certificate (independent of the closure): blocks strongly connected + sinks first
    obs.event("scc.cert.strong", len(comps))
    for c in comps:
        if len(c) > 1 and not G.strongly_connected_inside(c, T.radj):
            obs.violate("scc.block-not-strongly-connected", f"{who}: block {_s(c)} is not strongly connected")
            break
    obs.event("scc.order")
    pos = {x: i for i, c in enumerate(comps) for x in c}
    for u in T.nodes:
        for w in T.radj[u]:
            if pos[u] < pos[w]:
                obs.violate("scc.order", f"{who}: arc {u!r}->{w!r} goes from block #{pos[u]} to the later block "
                                         f"#{pos[w]} (not sinks-first, or a class was split): {_s(comps)}")
                return


def sorted_safe(c):
    try:
        return sorted(c)
    except TypeError:
        return sorted(c, key=repr)


def judge_topo(obs, res, T, who):
    st = getattr(res, "status", None)
    if T.exact and (T.cycle is None) != (T.walk is None):
        obs.violate("oracle.self-check", f"cycle search and closure disagree: {T.cycle} / {T.walk}")
        return
    if T.cycle is not None:
        obs.event("topo.cyclic.infeasible")
        if st != _Status.INFEASIBLE:
            obs.violate("topo.order-on-cyclic", f"{who}: status {st!r}, solution {_s(res.solution)} although the graph "
                                                f"has the cycle {_s(T.cycle)}")
        return
    obs.event("topo.acyclic.order")
    if st == _Status.INFEASIBLE or not getattr(res, "ok", False):
        obs.violate("topo.infeasible-on-dag", f"{who}: status {st!r} on an acyclic graph")
        return
    order = res.solution
    try:
        order = list(order)
    except TypeError:
        obs.violate("topo.shape", f"{who}: solution {_s(order)}")
        return
    if len(order) != len(T.nodes) or set(order) != T.ns:
        obs.violate("topo.not-permutation", f"{who}: {_s(order)} is not an ordering of all nodes {_s(T.nodes)}")
        return
    pos = {x: i for i, x in enumerate(order)}
    for u in T.nodes:
        for w in T.radj[u]:
            if pos[u] >= pos[w]:
                obs.violate("topo.backward-edge", f"{who}: arc {u!r}->{w!r} points backward in {_s(order)}")
                return


def judge_condense(obs, res, T, who):
    G = _G
    sol = getattr(res, "solution", None)
    try:
        cn, cadj = sol
        cn = list(cn)
        keys = list(cadj.keys())
    except Exception:
        obs.violate("cond.shape", f"{who}: solution is not (nodes, adjacency dict): {_s(sol)}")
        return
    obs.event("cond.nodes")
    if any(not isinstance(c, frozenset) for c in cn):
        obs.violate("cond.shape", f"{who}: condensed nodes are not frozensets: {_s(cn)}")
        return
    flat = [x for c in cn for x in c]
    if any(x not in T.ns for x in flat):
        obs.violate("cond.foreign-node", f"{who}: condensed nodes contain labels outside the node set: {_s(cn)}")
        return
    if len(flat) != len(T.nodes) or set(flat) != T.ns or any(not c for c in cn) or len(set(cn)) != len(cn):
        obs.violate("cond.partition", f"{who}: condensed nodes are not a partition of the node set: {_s(cn)}")
        return
    if T.exact:
        if set(cn) != T.classes:
            obs.violate("cond.classes", f"{who}: condensed nodes {_s(cn)} are not the mutual-reachability classes")
            return
    else:
        for c in cn:
            if len(c) > 1 and not G.strongly_connected_inside(c, T.radj):
                obs.violate("cond.block-not-strongly-connected", f"{who}: {_s(c)}")
                return
    obs.event("cond.edges")
    if set(keys) != set(cn) or len(keys) != len(cn):
        obs.violate("cond.keys", f"{who}: adjacency keys {_s(keys)} differ from the condensed nodes {_s(cn)}")
        return
    comp_of = {x: c for c in cn for x in c}
    expect = {c: set() for c in cn}
    for u in T.nodes:
        for w in T.radj[u]:
            if comp_of[u] != comp_of[w]:
                expect[comp_of[u]].add(comp_of[w])
    for c in cn:
        succ = list(cadj[c])
        if len(succ) != len(set(succ)):
            obs.violate("cond.duplicate-successor", f"{who}: successors of {_s(c)}: {_s(succ)}")
            return
        if set(succ) != expect[c]:
            obs.violate("cond.edges", f"{who}: successors of {_s(c)} are {_s(succ)}, but original arcs join it to "
                                      f"exactly {_s(expect[c])}")
            return
    obs.event("cond.acyclic")
    cyc = G.find_cycle(cn, {c: list(cadj[c]) for c in cn})
    if cyc is not None:
        obs.violate("cond.cyclic", f"{who}: the condensation has the cycle {_s(cyc)}")


# ---------------------------------------------------------------- running


def _budget(T):
    return 200_000 + 400 * (len(T.nodes) + T.arcs)


def _run_graph(case, obs):
    from vf.common import call, is_crash
    from vf.gen.graphcases import Neighbors, node_iterable

    nodes, adj = case["nodes"], case["adj"]
    T = Truth(nodes, adj)
    obs.nontrivial = len(nodes) >= 2 and T.arcs >= 1
    budget = _budget(T)
    outside_calls = 0
    for name, judge in (("strongly_connected_components", judge_scc), ("topological_sort", judge_topo),
                        ("condense", judge_condense)):
        nb = Neighbors(nodes, adj, case["ret"])
        r = call(obs, getattr(_scc, name), _node_arg(nodes, case["as"]), nb, budget=budget, what=name)
        outside_calls += nb.outside_calls
        obs.event("call." + name)
        if is_crash(r):
            continue
        if name == "topological_sort":
            obs.outcome("topo:" + getattr(r.status, "name", str(r.status)))
        judge(obs, r, T, name)
    if outside_calls:
        # not a violation by itself: asking for the neighbours of a label outside the node set is not forbidden
        obs.event("l2.neighbors-called-on-outside-label", outside_calls)
        obs.mech.add("neighbors-called-outside-node-set")
    # edge-list variants: only for graphs on 0..n-1 whose arcs stay inside
    n = len(nodes)
    if set(nodes) == set(range(n)) and all(isinstance(x, int) for x in nodes) and set(adj) <= set(nodes) and all(
            w in T.ns for ws in adj.values() for w in ws):
        edges = [(u, w) for u in nodes for w in adj.get(u, ())]
        Random(len(edges) * 7919 + n).shuffle(edges)
        T2 = Truth(list(range(n)), {u: [w for a, w in edges if a == u] for u in range(n)})
        for kw in ({}, {"backend": "python"}):
            tag = "(backend=python)" if kw else "(default)"
            r = call(obs, _scc.strongly_connected_components_edges, n, list(edges), budget=budget,
                     what="strongly_connected_components_edges" + tag, **kw)
            obs.event("call.strongly_connected_components_edges")
            if not is_crash(r):
                judge_scc(obs, r, T2, "strongly_connected_components_edges" + tag)
            r = call(obs, _scc.topological_sort_edges, n, list(edges), budget=budget,
                     what="topological_sort_edges" + tag, **kw)
            obs.event("call.topological_sort_edges")
            if not is_crash(r):
                judge_topo(obs, r, T2, "topological_sort_edges" + tag)
    obs.outcome("cyclic" if T.cycle is not None else "acyclic")


def _three(nodes, nb):
    return (_scc.strongly_connected_components(list(nodes), nb), _scc.topological_sort(list(nodes), nb),
            _scc.condense(list(nodes), nb))


def _run_exh(case, obs):
    from vf.common import call, is_crash

    n = case["n"]
    pairs = [(u, v) for u in range(n) for v in range(n) if case["loops"] or u != v]
    perms = list(permutations(range(n)))
    perms = [perms[i] for i in case["perms"]]
    count = 0
    for mask in range(1 << len(pairs)):
        base = {u: [] for u in range(n)}
        for i, (u, v) in enumerate(pairs):
            if mask >> i & 1:
                base[u].append(v)
        T = Truth(list(range(n)), base)
        for perm in perms:
            for order in case["orders"]:
                adj = {u: (ws if order == 0 else ws[::-1]) for u, ws in base.items()}
                nodes = list(perm)
                r = call(obs, _three, nodes, lambda v, adj=adj: adj[v], what="scc/topo/condense (exhaustive)")
                count += 1
                if not is_crash(r):
                    T.nodes = nodes
                    judge_scc(obs, r[0], T, "strongly_connected_components")
                    judge_topo(obs, r[1], T, "topological_sort")
                    judge_condense(obs, r[2], T, "condense")
                if obs.violations:
                    c, d = obs.violations[0]
                    obs.violations[0] = (c, f"nodes={nodes} adj={adj}: {d}")
                    return
    obs.event("exh.graphs", count)
    obs.nontrivial = True
    obs.outcome(f"exhaustive-n{n}")


def _run_edited(case, obs):
    from vf.common import call, is_crash

    nodes = case["nodes"]
    holder = {"adj": case["adj"]}

    def neighbours(v):  # the one function object every call receives
        return list(holder["adj"].get(v, ()))

    obs.nontrivial = len(nodes) >= 2
    for k, adj in enumerate([case["adj"]] + list(case["steps"])):
        holder["adj"] = adj
        T = Truth(nodes, adj)
        for name, judge in (("strongly_connected_components", judge_scc), ("topological_sort", judge_topo),
                            ("condense", judge_condense)):
            r = call(obs, getattr(_scc, name), list(nodes), neighbours, budget=_budget(T), what=f"{name}[edit {k}]")
            obs.event("call.edited." + name)
            if not is_crash(r):
                judge(obs, r, T, f"{name} (same neighbour function, graph after edit {k})")
        if obs.violations:
            return


def _run_too_deep(case, obs):
    from vf.common import call, is_crash

    nodes, adj = case["nodes"], case["adj"]
    ns = set(nodes)
    # reference: iterative Kosaraju (the oracle module's exact routines are sized for small graphs)
    order, seen = [], set()
    for r in nodes:
        if r in seen:
            continue
        st = [(r, iter(adj.get(r, ())))]
        seen.add(r)
        while st:
            v, it = st[-1]
            for w in it:
                if w in ns and w not in seen:
                    seen.add(w)
                    st.append((w, iter(adj.get(w, ()))))
                    break
            else:
                order.append(v)
                st.pop()
    radj = {v: [] for v in nodes}
    for v in nodes:
        for w in adj.get(v, ()):
            if w in ns:
                radj[w].append(v)
    comp = {}
    for r in reversed(order):
        if r in comp:
            continue
        comp[r] = r
        st = [r]
        while st:
            v = st.pop()
            for w in radj[v]:
                if w not in comp:
                    comp[w] = r
                    st.append(w)
    classes = {}
    for v, r in comp.items():
        classes.setdefault(r, set()).add(v)
    want = {frozenset(c) for c in classes.values()}
    obs.nontrivial = True
    r = call(obs, _scc.strongly_connected_components, list(nodes), lambda v: list(adj.get(v, ())), budget=200_000_000,
             what="strongly_connected_components[deeper than the recursion limit]", expect=(RecursionError,))
    if is_crash(r):
        obs.event("scc.too-deep.recursion-error")  # documented: "you may need to increase the recursion limit"
        return
    obs.event("scc.too-deep.answered")
    comps = r.solution
    got = [frozenset(c) for c in comps] if isinstance(comps, (list, tuple)) else None
    if got is None or len(got) != len(set(got)) or set(got) != want or sum(len(c) for c in got) != len(nodes):
        obs.violate("scc.partition", f"{len(nodes)} nodes, {len(want)} strongly connected components; returned "
                    f"{len(got) if got is not None else None} components covering {sum(len(c) for c in got) if got else 0} node slots")
    elif r.objective != len(want):
        obs.violate("scc.count", f"objective {r.objective!r}, {len(want)} components")


def run(case, obs):
    if case["kind"] == "too-deep":
        return _run_too_deep(case, obs)
    if case["kind"] == "edited":
        return _run_edited(case, obs)
    if case["kind"] == "exh":
        _run_exh(case, obs)
    else:
        _run_graph(case, obs)
