"""C15 — articulation_points, bridges, kcore_decomposition, kcore, pagerank, louvain obey their definitions."""

from random import Random

ID = "C15"
RULE = ("graphs as (node iterable, neighbour callback) built by stratified seeded generators: symmetric and one-sided "
        "neighbour lists, block trees (cliques / cycles / paths glued at cut vertices or joined by bridges), trees, "
        "cycles with chords, several components and isolated nodes, self loops and duplicate neighbours, neighbours "
        "outside the node set, str/tuple/sparse-int labels, labels without a total order (frozenset, mixed) for the "
        "functions that do not promise an ordering, a node labelled None, planted communities x resolution grid, directed multigraphs x "
        "damping/tol/max_iter grid, paths and cycles up to 300 nodes, and ALL simple graphs on <=5 nodes (6 in the "
        "thorough tier) under random one-sided presentations; every result is judged against the definition evaluated "
        "naively and exactly on the simple undirected graph (resp. directed multigraph for PageRank) restricted to the "
        "node set: removal+recount of components for cut vertices and bridges, repeated deletion for core numbers, "
        "one exact (Fraction) application of the PageRank operator to the returned scores, the exact modularity sum; "
        "non-trivial = at least 2 nodes and one edge inside the node set; distinct = distinct (node order, neighbour "
        "lists, hand-over kinds, parameters)")
ASSUMPTIONS = ["node iterable yields distinct hashable labels",
               "bridges is only called with mutually orderable labels: its documented contract orders each pair with '<', so "
               "frozenset / mixed-type labels and a None label next to other types are outside its domain (the other "
               "five functions are run on those labels too)",
               "damping in (0,1), tol in [1e-12,1e-3], max_iter >= 1, resolution > 0, k >= 0",
               "PageRank tolerance: |sum-1| <= 1e-9; when status is OPTIMAL the residual of the damped equation is at "
               "most n*tol in the max norm (DESIGN 2.5); a MAX_ITER answer is only checked for non-negativity and sum",
               "Louvain objective compared with the exact modularity to 1e-9*(1+|Q|); for an edgeless graph (modularity "
               "undefined) only the partition is checked",
               "pagerank_edges only on 0..n-1 graphs whose arcs stay inside range(n)"]
QUICK_SCALE = 1.5  # quick-tier multiplier (idle 16-core timing: ~10 s at scale 1)
STRATA = [
    ("sym-random", 2000, 24000),
    ("asym-random", 3000, 36000),
    ("blocks", 3000, 36000),
    ("trees", 1000, 12000),
    ("cycles", 1000, 12000),
    ("directed-random", 1600, 20000),
    ("outside", 1600, 20000),
    ("labels", 1200, 14000),
    ("louvain-unordered-labels", 1200, 14000),
    ("none-label", 400, 5000),
    ("pagerank-grid", 2000, 24000),
    ("louvain-res", 1600, 20000),
    ("deep", 40, 400),
    ("exh-n4", 1, 1),
    ("exh-n5", 1, 1),
    ("exh-n6-q0", 0, 1),
    ("exh-n6-q1", 0, 1),
    ("exh-n6-q2", 0, 1),
    ("exh-n6-q3", 0, 1),
]
BATCH = {"exh-n4": 1, "exh-n5": 1, "exh-n6-q0": 1, "exh-n6-q1": 1, "exh-n6-q2": 1, "exh-n6-q3": 1, "deep": 2}
REQUIRED_EVENTS = {"any": ["ap.set", "bridge.set", "core.numbers", "kcore.set", "pr.distribution", "pr.residual",
                           "louvain.partition", "louvain.modularity", "exh.graphs"]}

DAMPINGS = [0.05, 0.3, 0.5, 0.85, 0.85, 0.85, 0.9, 0.95, 0.99]
RESOLUTIONS = [0.25, 0.5, 1.0, 1.0, 1.0, 2.0, 4.0, 0.1, 1.5, 3.0]

_m = {}
_G = None
_Status = None


def setup():
    global _G, _Status
    from vf.instrument import mod
    from vf.oracles import graphdefs

    for name in ("articulation", "kcore", "pagerank", "community"):
        _m[name] = mod("solvor." + name)
    _Status = mod("solvor.types").Status
    _G = graphdefs


# ---------------------------------------------------------------- generators


def _params(rng, grid=False):
    p = {"damping": 0.85, "tol": 1e-6, "max_iter": 100, "resolution": 1.0, "defaults": True}
    if grid or rng.random() < 0.5:
        p = {"damping": rng.choice(DAMPINGS), "tol": rng.choice([1e-3, 1e-6, 1e-6, 1e-9, 1e-12]),
             "max_iter": rng.choice([100, 100, 1000, 1000, 20, 3, 1]), "resolution": rng.choice(RESOLUTIONS),
             "defaults": False}
    return p


def _mk(rng, n, adj_int, label_kind, grid=False, **kw):
    from vf.gen import graphcases as gc

    nodes, adj = gc.decorate(rng, n, adj_int, label_kind, **kw)
    return {"kind": "graph", "nodes": nodes, "adj": adj, "ret": rng.choice(gc.RET_KINDS), "as": rng.choice(gc.AS_KINDS),
            "ordered": gc.totally_ordered(nodes), "params": _params(rng, grid)}


def _present(rng, n, edges, modes=("sym", "asym", "one-sided", "low-to-high", "high-to-low")):
    from vf.gen.graphcases import present_undirected

    return present_undirected(rng, n, edges, rng.choice(modes))


def _cycles_shape(rng):
    from vf.gen import graphcases as gc

    shape = rng.choice(["cycle", "chord", "shared-vertex", "bridge-joined", "theta", "cycle+tail"])
    a = rng.randint(3, 7)
    e = gc.und_cycle(list(range(a)))
    n = a
    if shape == "chord" and a >= 4:
        u = rng.randrange(a)
        e.append((u, (u + rng.randint(2, a - 2)) % a))
    elif shape == "shared-vertex":
        b = rng.randint(3, 6)
        ids = [rng.randrange(a)] + list(range(n, n + b - 1))
        n += b - 1
        e += gc.und_cycle(ids)
    elif shape == "bridge-joined":
        b = rng.randint(3, 6)
        ids = list(range(n, n + b))
        n += b
        e += gc.und_cycle(ids)
        mid = rng.randint(0, 2)  # length of the connecting path
        chain = [rng.randrange(a)] + list(range(n, n + mid)) + [rng.choice(ids)]
        n += mid
        e += [(chain[i], chain[i + 1]) for i in range(len(chain) - 1)]
    elif shape == "theta":
        u, v = 0, a // 2
        mid = rng.randint(1, 3)
        chain = [u] + list(range(n, n + mid)) + [v]
        n += mid
        e += [(chain[i], chain[i + 1]) for i in range(len(chain) - 1)]
    elif shape == "cycle+tail":
        t = rng.randint(1, 3)
        chain = [rng.randrange(a)] + list(range(n, n + t))
        n += t
        e += [(chain[i], chain[i + 1]) for i in range(len(chain) - 1)]
    return n, e


def _planted(rng):
    """k dense groups with sparse links between them."""
    k = rng.randint(2, 5)
    sizes = [rng.randint(2, 6) for _ in range(k)]
    groups = []
    n = 0
    for s in sizes:
        groups.append(list(range(n, n + s)))
        n += s
    p_in = rng.choice([0.6, 0.8, 1.0])
    p_out = rng.choice([0.02, 0.05, 0.15])
    e = []
    for gi, g in enumerate(groups):
        for i in range(len(g)):
            for j in range(i + 1, len(g)):
                if rng.random() < p_in:
                    e.append((g[i], g[j]))
        for h in groups[gi + 1:]:
            for u in g:
                for v in h:
                    if rng.random() < p_out:
                        e.append((u, v))
    return n, e


def gen(stratum, rng, tier):
    from vf.gen import graphcases as gc

    lab = rng.choice(["int", "int", "int", "int-sparse", "str", "tuple"])
    noise = dict(dup=rng.choice([0, 0, 0.3]), loops=rng.choice([0, 0, 0.15]))
    if stratum == "sym-random":
        n = rng.randint(1, 10) if rng.random() > 0.02 else 0  # the empty graph is a graph
        e = gc.und_gnp(rng, n, rng.choice([0.1, 0.2, 0.35, 0.5, 0.8]))
        return _mk(rng, n, _present(rng, n, e, ("sym",)), lab, **noise)
    if stratum == "asym-random":
        n = rng.randint(2, 10)
        e = gc.und_gnp(rng, n, rng.choice([0.1, 0.2, 0.35, 0.5, 0.8]))
        return _mk(rng, n, _present(rng, n, e, ("asym", "one-sided", "low-to-high", "high-to-low")), lab, **noise)
    if stratum == "blocks":
        n, e = gc.und_blocks(rng, rng.randint(3, 16))
        return _mk(rng, n, _present(rng, n, e), lab, **noise)
    if stratum == "trees":
        n = rng.randint(2, 14)
        e = gc.und_tree(rng, n)
        if rng.random() < 0.3 and n >= 3:
            u, v = rng.sample(range(n), 2)
            e.append((min(u, v), max(u, v)))  # one extra edge: exactly one cycle (or a duplicate edge)
        return _mk(rng, n, _present(rng, n, e), lab, **noise)
    if stratum == "cycles":
        n, e = _cycles_shape(rng)
        return _mk(rng, n, _present(rng, n, e), lab, **noise)
    if stratum == "directed-random":
        n = rng.randint(1, 10)
        e = gc.gnp(rng, n, rng.choice([0.05, 0.15, 0.3, 0.5]), loops=rng.choice([0, 0.2]))
        if rng.random() < 0.5:
            sink = rng.randrange(n)
            e = [(u, v) for u, v in e if u != sink]  # a dangling node
        return _mk(rng, n, gc.int_adj(n, e), lab, dup=rng.choice([0, 0.3, 0.6]))
    if stratum == "outside":
        if rng.random() < 0.5:
            n = rng.randint(2, 9)
            e = gc.und_gnp(rng, n, rng.choice([0.15, 0.3, 0.5]))
        else:
            n, e = gc.und_blocks(rng, rng.randint(3, 12))
        return _mk(rng, n, _present(rng, n, e), lab, outside=rng.choice([0.2, 0.5, 1.0]),
                   outside_bridge=rng.random() < 0.6, **noise)
    if stratum == "labels":
        if rng.random() < 0.5:
            n = rng.randint(2, 9)
            e = gc.und_gnp(rng, n, rng.choice([0.2, 0.4, 0.6]))
        else:
            n, e = gc.und_blocks(rng, rng.randint(3, 12))
        return _mk(rng, n, _present(rng, n, e), rng.choice(["str", "tuple", "int-sparse"]), **noise)
    if stratum in ("louvain-unordered-labels", "none-label"):
        r = rng.random()
        if r < 0.4:
            n = rng.randint(2, 9)
            e = gc.und_gnp(rng, n, rng.choice([0.2, 0.4, 0.6]))
        elif r < 0.7:
            n, e = _planted(rng)
        else:
            n, e = gc.und_blocks(rng, rng.randint(3, 12))
        n = min(n, 20)
        e = [(u, v) for u, v in e if u < n and v < n]
        kind = "with-none" if stratum == "none-label" else rng.choice(["frozenset", "mixed"])
        return _mk(rng, n, _present(rng, n, e), kind, **noise)
    if stratum == "pagerank-grid":
        n = rng.randint(1, 25)
        shape = rng.random()
        if shape < 0.6:
            e = gc.gnp(rng, n, rng.choice([0.03, 0.08, 0.15, 0.3]), loops=rng.choice([0, 0.1]))
        elif shape < 0.8:
            e = gc.dag(rng, n, rng.choice([0.1, 0.3]))  # many dangling nodes, mass flows to the sinks
        else:
            e = [(i, (i + 1) % n) for i in range(n)] + gc.gnp(rng, n, 0.03)  # a periodic chain: slow convergence
        return _mk(rng, n, gc.int_adj(n, e), rng.choice(["int", "int", "str"]), grid=True, dup=rng.choice([0, 0.3]),
                   outside=rng.choice([0, 0, 0.3]))
    if stratum == "louvain-res":
        n, e = _planted(rng)
        return _mk(rng, n, _present(rng, n, e), lab, grid=True, **noise)
    if stratum == "deep":
        n = rng.randint(100, 300)
        shape = rng.choice(["path", "cycle", "cycle+tail", "caterpillar"])
        if shape == "path":
            e = [(i, i + 1) for i in range(n - 1)]
        elif shape == "cycle":
            e = gc.und_cycle(list(range(n)))
        elif shape == "cycle+tail":
            m = rng.randint(3, n - 1)
            e = gc.und_cycle(list(range(m))) + [(i - 1, i) for i in range(m, n)]
        else:
            spine = n // 2
            e = [(i, i + 1) for i in range(spine - 1)] + [(rng.randrange(spine), i) for i in range(spine, n)]
        c = _mk(rng, n, _present(rng, n, e), rng.choice(["int", "str"]), shuffle_nodes=rng.random() < 0.3)
        return c
    if stratum in ("exh-n4", "exh-n5"):
        n = int(stratum[-1])
        reps = {("exh-n4", "quick"): 4, ("exh-n4", "thorough"): 12, ("exh-n5", "quick"): 4, ("exh-n5", "thorough"): 8}
        return {"kind": "exh", "n": n, "reps": reps[(stratum, tier)], "mod": 1, "rem": 0, "seed": rng.randrange(10**9)}
    if stratum.startswith("exh-n6-q"):
        return {"kind": "exh", "n": 6, "reps": 1, "mod": 4, "rem": int(stratum[-1]), "seed": rng.randrange(10**9)}
    raise ValueError(stratum)


def shrink(case):
    if case.get("kind") != "graph":
        return
    from vf.gen.graphcases import shrink_graph, totally_ordered

    for c in shrink_graph(case):
        c["ordered"] = totally_ordered(c["nodes"])
        yield c
    if not case["params"].get("defaults"):
        c = dict(case)
        c["params"] = {"damping": 0.85, "tol": 1e-6, "max_iter": 100, "resolution": 1.0, "defaults": True}
        yield c


# ---------------------------------------------------------------- judging


def _s(x, n=300):
    r = repr(x)
    return r if len(r) <= n else r[:n] + "..."


class Truth:
    def __init__(self, nodes, adj):
        G = _G
        self.nodes = list(nodes)
        self.ns = set(self.nodes)
        self.und = G.undirected(self.nodes, adj)
        self.radj = G.restrict(self.nodes, adj)  # directed multigraph for PageRank
        self.edges = sum(len(s) for s in self.und.values()) // 2
        self._cut = self._bridges = self._core = None

    @property
    def cut(self):
        if self._cut is None:
            self._cut = _G.cut_vertices(self.nodes, self.und)
        return self._cut

    @property
    def bridges(self):
        if self._bridges is None:
            self._bridges = _G.cut_edges(self.nodes, self.und)
        return self._bridges

    @property
    def core(self):
        if self._core is None:
            self._core = _G.core_numbers(self.nodes, self.und)
        return self._core


def judge_ap(obs, res, T):
    obs.event("ap.set")
    try:
        got = set(res.solution)
    except TypeError:
        obs.violate("ap.shape", f"solution {_s(res.solution)}")
        return
    missing = T.cut - got
    extra = got - T.cut
    if missing:
        obs.violate("ap.missing", f"cut vertices {_s(missing)} not reported; returned {_s(got)}, definition gives {_s(T.cut)}")
    if extra:
        obs.violate("ap.spurious", f"{_s(extra)} reported but removing them does not increase the number of components; "
                                   f"definition gives {_s(T.cut)}")


def judge_bridges(obs, res, T):
    obs.event("bridge.set")
    try:
        lst = [tuple(e) for e in res.solution]
    except TypeError:
        obs.violate("bridge.shape", f"solution {_s(res.solution)}")
        return
    if any(len(e) != 2 for e in lst):
        obs.violate("bridge.shape", f"solution {_s(lst)}")
        return
    for u, v in lst:
        if not u < v:
            obs.violate("bridge.pair-order", f"pair ({u!r}, {v!r}) is not in canonical (smaller, larger) order: {_s(lst)}")
            break
    if len(set(map(frozenset, lst))) != len(lst):
        obs.violate("bridge.duplicate", f"{_s(lst)}")
    got = set(map(frozenset, lst))
    missing = T.bridges - got
    extra = got - T.bridges
    if missing:
        obs.violate("bridge.missing", f"bridges {_s([tuple(e) for e in missing])} not reported; returned {_s(lst)}")
    if extra:
        obs.violate("bridge.spurious", f"{_s([tuple(e) for e in extra])} reported but removal does not disconnect "
                                       f"anything (or is no edge); definition gives {_s([tuple(e) for e in T.bridges])}")


def judge_core(obs, res, T):
    obs.event("core.numbers")
    sol = res.solution
    if not isinstance(sol, dict) or set(sol) != T.ns or len(sol) != len(T.nodes):
        obs.violate("core.keys", f"core-number dict keys differ from the node set: {_s(sol)}")
        return
    if len(T.nodes) <= 12:
        if _G.core_numbers_from_scratch(T.nodes, T.und) != T.core:
            obs.violate("oracle.self-check", "the two core-number oracles disagree")
            return
    bad = {v: (sol[v], T.core[v]) for v in T.nodes if sol[v] != T.core[v]}
    if bad:
        obs.violate("core.number", f"(returned, definition) per node: {_s(bad)}")


def judge_kcore(obs, res, T, k):
    obs.event("kcore.set")
    try:
        got = set(res.solution)
    except TypeError:
        obs.violate("kcore.shape", f"solution {_s(res.solution)}")
        return
    want = {v for v in T.nodes if T.core[v] >= k}
    if got != want:
        obs.violate("kcore.set", f"kcore(k={k}) returned {_s(got)}, nodes with core number >= k are {_s(want)}")


def judge_pagerank(obs, res, T, p, who):
    import math

    obs.event("pr.distribution")
    sol = res.solution
    n = len(T.nodes)
    if not isinstance(sol, dict) or set(sol) != T.ns or len(sol) != n:
        obs.violate("pr.keys", f"{who}: score dict keys differ from the node set: {_s(sol)}")
        return
    vals = [sol[v] for v in T.nodes]
    if any((not isinstance(x, (int, float))) or math.isnan(x) or math.isinf(x) for x in vals):
        obs.violate("pr.not-finite", f"{who}: {_s(sol)}")
        return
    if any(x < 0 for x in vals):
        obs.violate("pr.negative", f"{who}: {_s(sol)}")
    total = math.fsum(vals)
    if vals and abs(total - 1.0) > 1e-9:  # (no node: no score, nothing to sum)
        obs.violate("pr.sum", f"{who}: scores sum to {total!r} (damping={p['damping']}, tol={p['tol']}, "
                              f"max_iter={p['max_iter']}, status={res.status!r})")
    st = res.status
    obs.outcome("pagerank:" + getattr(st, "name", str(st)))
    if st == _Status.OPTIMAL:
        obs.event("pr.residual")
        r = _G.pagerank_residual(T.nodes, T.radj, sol, p["damping"])
        bound = n * p["tol"]
        if r > bound:
            obs.violate("pr.residual", f"{who}: status OPTIMAL but max-norm residual of the damped PageRank equation is "
                                       f"{float(r):.3e} > n*tol = {bound:.3e} (damping={p['damping']}, tol={p['tol']}, "
                                       f"max_iter={p['max_iter']}, iterations={res.iterations})")
        elif r > p["tol"]:
            obs.event("pr.residual.between-tol-and-n-tol")
    elif st != _Status.MAX_ITER:
        obs.violate("pr.status", f"{who}: unexpected status {st!r}")


def judge_louvain(obs, res, T, p):
    obs.event("louvain.partition")
    try:
        comms = [set(c) for c in res.solution]
    except TypeError:
        obs.violate("louvain.shape", f"solution {_s(res.solution)}")
        return
    flat = [x for c in comms for x in c]
    if any(not c for c in comms) or len(flat) != len(T.nodes) or set(flat) != T.ns:
        obs.violate("louvain.partition", f"communities are not a partition of the node set into non-empty sets: "
                                         f"{_s(comms)} nodes={_s(T.nodes)}")
        return
    q = _G.modularity(T.nodes, T.und, comms, p["resolution"])
    if q is None:
        obs.event("louvain.edgeless")
        return
    obs.event("louvain.modularity")
    got = res.objective
    if not isinstance(got, (int, float)) or abs(got - float(q)) > 1e-9 * (1 + abs(float(q))):
        obs.violate("louvain.modularity", f"reported modularity {got!r}, modularity of the returned partition "
                                          f"{_s(comms)} with resolution {p['resolution']} is {float(q)!r}")
    obs.outcome(f"louvain:{len(comms)}-communities" if len(comms) <= 3 else "louvain:>3-communities")


# ---------------------------------------------------------------- running


def _run_graph(case, obs):
    from vf.common import call, is_crash
    from vf.gen.graphcases import Neighbors, node_iterable

    nodes, adj, p = case["nodes"], case["adj"], case["params"]
    T = Truth(nodes, adj)
    n = len(nodes)
    arcs = sum(len(ws) for ws in T.radj.values())
    obs.nontrivial = n >= 2 and T.edges >= 1
    base = 300_000 + 600 * (n + arcs)
    stats = {"outside": 0}

    def go(fn, *extra, what, budget=base, **kw):
        nb = Neighbors(nodes, adj, case["ret"])
        r = call(obs, fn, node_iterable(nodes, case["as"]), nb, *extra, budget=budget, what=what, **kw)
        stats["outside"] += nb.outside_calls
        obs.event("call." + what.split("(")[0])
        return r

    r = go(_m["articulation"].articulation_points, what="articulation_points")
    if not is_crash(r):
        judge_ap(obs, r, T)
    if case["ordered"]:
        r = go(_m["articulation"].bridges, what="bridges")
        if not is_crash(r):
            judge_bridges(obs, r, T)
    r = go(_m["kcore"].kcore_decomposition, what="kcore_decomposition")
    if not is_crash(r):
        judge_core(obs, r, T)
    top = max(T.core.values(), default=0)
    for k in sorted({0, 1, top, top + 1, Random(n * 31 + arcs).randint(0, top + 1)}):
        r = go(_m["kcore"].kcore, k, what=f"kcore(k={k})")
        if not is_crash(r):
            judge_kcore(obs, r, T, k)
    # PageRank: the neighbour lists read as successor lists
    pr_budget = 300_000 + (60 + 12 * (n + arcs)) * (p["max_iter"] + 2)
    kw = {} if p["defaults"] else {"damping": p["damping"], "tol": p["tol"], "max_iter": p["max_iter"]}
    r = go(_m["pagerank"].pagerank, what="pagerank", budget=pr_budget, **kw)
    if not is_crash(r):
        judge_pagerank(obs, r, T, p, "pagerank")
    if set(nodes) == set(range(n)) and all(isinstance(x, int) for x in nodes) and set(adj) <= T.ns and all(
            w in T.ns for ws in adj.values() for w in ws):
        edges = [(u, w) for u in nodes for w in adj.get(u, ())]
        Random(len(edges) * 7919 + n).shuffle(edges)
        T2 = Truth(list(range(n)), {u: [w for a, w in edges if a == u] for u in range(n)})
        for bk in ({}, {"backend": "python"}):
            tag = "pagerank_edges(backend=python)" if bk else "pagerank_edges(default)"
            r = call(obs, _m["pagerank"].pagerank_edges, n, list(edges), budget=pr_budget, what=tag, **kw, **bk)
            obs.event("call.pagerank_edges")
            if not is_crash(r):
                judge_pagerank(obs, r, T2, p, tag)
    # Louvain (an endless 'while improved' loop shows up as class 'hang')
    kw = {} if p["defaults"] else {"resolution": p["resolution"]}
    r = go(_m["community"].louvain, what="louvain", budget=1_000_000 + 1000 * (n + arcs), **kw)
    if not is_crash(r):
        judge_louvain(obs, r, T, p)
    # one neighbour function, a graph that changes between calls (an adjacency dict behind a callback is edited, the
    # same callable is passed again): every call must answer for the graph as it is *now*.  Same node tuple, so a
    # result remembered across calls under (nodes, callable) would be exposed.
    if n >= 3 and T.edges >= 2 and case["as"] in ("list", "tuple"):
        live = {u: list(ws) for u, ws in adj.items()}
        nb = Neighbors(nodes, live, "list")
        seq = tuple(nodes) if case["as"] == "tuple" else list(nodes)
        top = max(T.core.values(), default=0)
        ks = sorted({1, top})
        for k in ks:
            r = call(obs, _m["kcore"].kcore, seq, nb, k, budget=base, what=f"kcore(k={k}) [live graph, before edit]")
            if not is_crash(r):
                judge_kcore(obs, r, T, k)
        victim = max(nodes, key=lambda v: (T.core.get(v, 0), len(T.radj.get(v, ())), repr(v)))
        for u in live:
            live[u] = [w for w in live[u] if w != victim] if u != victim else []
        T3 = Truth(nodes, live)
        obs.event("seq.same-callable-graph-edited")
        for k in ks:
            r = call(obs, _m["kcore"].kcore, seq, nb, k, budget=base, what=f"kcore(k={k}) [live graph, after edit]")
            if not is_crash(r):
                judge_kcore(obs, r, T3, k)
        r = call(obs, _m["kcore"].kcore_decomposition, seq, nb, budget=base, what="kcore_decomposition [after edit]")
        if not is_crash(r):
            judge_core(obs, r, T3)
        r = call(obs, _m["articulation"].articulation_points, seq, nb, budget=base, what="articulation_points [after edit]")
        if not is_crash(r):
            judge_ap(obs, r, T3)
    if stats["outside"]:
        obs.event("l2.neighbors-called-on-outside-label", stats["outside"])
    if not case["ordered"]:
        obs.outcome("labels-without-total-order")


def _six(nodes, nb, ks):
    a, k, p, c = _m["articulation"], _m["kcore"], _m["pagerank"], _m["community"]
    return (a.articulation_points(list(nodes), nb), a.bridges(list(nodes), nb), k.kcore_decomposition(list(nodes), nb),
            [k.kcore(list(nodes), nb, kk) for kk in ks], p.pagerank(list(nodes), nb), c.louvain(list(nodes), nb))


def _run_exh(case, obs):
    from vf.common import call, is_crash
    from vf.gen.graphcases import present_undirected

    n = case["n"]
    rng = Random(case["seed"])
    pairs = [(u, v) for u in range(n) for v in range(u + 1, n)]
    P = {"damping": 0.85, "tol": 1e-6, "max_iter": 100, "resolution": 1.0}
    count = 0
    for mask in range(1 << len(pairs)):
        if mask % case["mod"] != case["rem"]:
            continue
        edges = [e for i, e in enumerate(pairs) if mask >> i & 1]
        T = Truth(list(range(n)), present_undirected(rng, n, edges, "sym"))
        top = max(T.core.values(), default=0)
        ks = list(range(0, top + 2))
        for _ in range(case["reps"]):
            adj = present_undirected(rng, n, edges, rng.choice(["asym", "one-sided", "sym", "low-to-high", "high-to-low"]))
            for ws in adj.values():
                rng.shuffle(ws)
            nodes = list(range(n))
            rng.shuffle(nodes)
            r = call(obs, _six, nodes, lambda v, adj=adj: adj[v], ks, budget=5_000_000, what="all six (exhaustive)")
            count += 1
            if not is_crash(r):
                T.nodes = nodes
                T.radj = _G.restrict(nodes, adj)
                judge_ap(obs, r[0], T)
                judge_bridges(obs, r[1], T)
                judge_core(obs, r[2], T)
                for kk, rr in zip(ks, r[3]):
                    judge_kcore(obs, rr, T, kk)
                judge_pagerank(obs, r[4], T, P, "pagerank")
                judge_louvain(obs, r[5], T, P)
            if obs.violations:
                c, d = obs.violations[0]
                obs.violations[0] = (c, f"nodes={nodes} adj={adj}: {d}")
                return
    obs.event("exh.graphs", count)
    obs.nontrivial = True
    obs.outcomes = {k: v for k, v in obs.outcomes.items() if not k.startswith("louvain:")}
    obs.outcome(f"exhaustive-n{n}")


def run(case, obs):
    if case["kind"] == "exh":
        _run_exh(case, obs)
    else:
        _run_graph(case, obs)
