"""C16 — knapsack / bin packing answers are feasible, scored faithfully, labelled right.

Boundary contracts on the real `solve_knapsack` / `solve_bin_pack`; every answer is judged on
exact integers (decimal inputs k/10**p are re-scaled by 10**p, i.e. the rational value of the
decimal literal) against exhaustive oracles in vf/oracles/packing.py.
"""

from fractions import Fraction

ID = "C16"
RULE = ("seeded item lists (ints, or decimals k/10**p with p<=3, a few p=4 / capacity>100 in the approximate regime); "
        "knapsack is run maximise and minimise, bin packing with the default, the four heuristics and two alias "
        "spellings; non-trivial = knapsack: some but not all items fit together, bin packing: >=2 positive items; "
        "distinct = distinct (data, configuration)")
ASSUMPTIONS = [
    "values, weights, sizes non-negative; capacity >= 0 (knapsack) / > 0 and >= every size (bin packing)",
    "the weight/load relation is judged on the exact rational value of the decimal literals (load <= C*(1+1e-9))",
    "OPTIMAL of solve_knapsack is judged against the exact optimum for integer data and for decimals with <= 3 "
    "places and capacity <= 100 (scale 1000, DP exact by design); coarser scales are 'approximate-regime': "
    "feasibility, distinctness and objective only",
    "exact oracles: knapsack 2^n (n<=16) or integer DP; bins exact B&B n<=12 positive items, or OPT known by "
    "construction (perfect packings); above the guards certificate_only",
]
QUICK_SCALE = 2  # quick-tier multiplier (idle 16-core timing: ~10 s at scale 1)
STRATA = [
    ("knap-int", 700, 14000),
    ("knap-dec", 500, 10000),
    ("knap-trunc", 400, 8000),
    ("knap-zero", 300, 6000),
    ("knap-fill", 300, 6000),
    ("knap-large", 60, 1200),
    ("knap-approx", 400, 8000),
    ("knap-fallback", 200, 3000),
    ("knap-tiny-values", 300, 5000),
    ("knap-huge-values", 300, 5000),
    ("bin-int", 500, 10000),
    ("bin-dec", 400, 8000),
    ("bin-straddle", 400, 8000),
    ("bin-zero", 150, 3000),
    ("bin-perfect-large", 150, 3000),
    ("bin-dup-runs", 600, 10000),
    ("bin-huge-int", 400, 6000),
    ("bin-large", 40, 800),
]
REQUIRED_EVENTS = {"any": ["knap.feasible.checked", "knap.objective.checked", "knap.optimal.exact-compared",
                           "bin.assignment.checked", "bin.load.checked", "bin.lb.checked", "bin.ffd-bound.checked",
                           "bin.optimal.exact-compared"]}

_ks = None
_bp = None
_Status = None
_orc = None

ALGOS = ["first-fit", "best-fit", "first-fit-decreasing", "best-fit-decreasing"]
ALIASES = ["ff", "bf", "ff-decreasing", "bf-decreasing", "first_fit", "best_fit", "first_fit_decreasing",
           "best_fit_decreasing", "FIRST-FIT", "Best-Fit-Decreasing", "FF_DECREASING", "BF"]

# k such that the float (k/1000)*1000 lies below k: int() of it truncates to k-1 (the float-scaling mechanism)
_TRUNC = [k for k in range(1, 100001) if int((k / 1000) * 1000) != k]
_TRUNC_SMALL = [k for k in _TRUNC if k <= 20000]


def setup():
    global _ks, _bp, _Status, _orc
    from vf.instrument import mod
    from vf.oracles import packing

    _ks = mod("solvor.knapsack")
    _bp = mod("solvor.bin_pack")
    _Status = mod("solvor.types").Status
    _orc = packing


def _num(k, p, as_float=False):
    if p == 0:
        return float(k) if as_float else k
    if isinstance(p, str):  # "b40": units of 2**-40 (exactly representable, sums of a few dozen stay exact)
        return k * 2.0 ** -int(p[1:])
    return k / 10 ** p


# ---------------------------------------------------------------- generators

def _knap_case(v, vp, w, p, cap, fl=False):
    return {"kind": "knap", "v": list(v), "vp": vp, "w": list(w), "p": p, "cap": cap, "fl": fl}


def _bin_case(s, p, cap, aliases, fl=False):
    return {"kind": "bin", "s": list(s), "p": p, "cap": cap, "aliases": list(aliases), "fl": fl}


def _partition(total, parts, rng):
    """total (int >= 1) split into min(parts, total) positive ints."""
    parts = max(1, min(parts, total))
    if parts == 1:
        return [total]
    cuts = sorted(rng.sample(range(1, total), parts - 1))
    out, prev = [], 0
    for c in cuts + [total]:
        out.append(c - prev)
        prev = c
    return out


def gen(stratum, rng, tier):
    if stratum == "knap-int":
        n = rng.randint(1, 11)
        style = rng.choice(["plain", "ties", "subsetsum", "small"])
        hi = rng.choice([5, 12, 30])
        w = [rng.randint(0 if rng.random() < 0.2 else 1, hi) for _ in range(n)]
        if style == "ties":
            pool = [rng.randint(1, hi) for _ in range(3)]
            w = [rng.choice(pool) for _ in range(n)]
            v = [rng.choice([1, 2, 2, 3]) for _ in range(n)]
        elif style == "subsetsum":
            v = list(w)
        elif style == "small":
            v = [rng.randint(0, 3) for _ in range(n)]
        else:
            v = [rng.randint(0, 40) for _ in range(n)]
        tot = sum(w)
        cap = rng.choice([rng.randint(0, max(1, tot)), rng.randint(0, max(1, tot // 2)), rng.randint(0, hi)])
        return _knap_case(v, 0, w, 0, cap, fl=rng.random() < 0.25)
    if stratum == "knap-dec":
        n = rng.randint(1, 10)
        p = rng.randint(1, 3)
        unit = 10 ** p
        hi = rng.choice([2, 5, 20]) * unit
        w = [rng.randint(0 if rng.random() < 0.15 else 1, hi) for _ in range(n)]
        if rng.random() < 0.3:  # coarse decimals inside a finer grid (0.5, 1.25 ...)
            step = rng.choice([unit // 2 or 1, unit // 4 or 1, unit // 10 or 1])
            w = [max(0, (x // step) * step) for x in w]
        vp = rng.choice([0, 0, 1, 2])
        v = [rng.randint(0, 30 * 10 ** vp) for _ in range(n)]
        if rng.random() < 0.3:
            v = list(w)
            vp = p
        tot = sum(w)
        cap = min(rng.randint(0, max(1, tot)), 100 * unit)
        return _knap_case(v, vp, w, p, cap)
    if stratum == "knap-trunc":
        # 3-place decimals whose product with the scale 1000 is not an integer in floats
        p = 3
        style = rng.choice(["cap-exact-fill", "cap-exact-fill", "weights", "mixed", "fallback", "fallback"])
        n = rng.randint(2, 8)
        if style == "fallback":
            # weights w with int(w*1000) one too small: the scaled DP accepts a set that is 0.001 per such
            # item too heavy, the float re-check must notice and the greedy fallback must stay honest
            w = [rng.choice(_TRUNC_SMALL) if rng.random() < 0.6 else rng.randint(1, 5000) for _ in range(n)]
            sub = rng.sample(range(n), rng.randint(1, n))
            cap = sum(int((w[i] / 1000) * 1000) for i in sub)
            cap = max(cap, 1)
        elif style == "cap-exact-fill":
            cap = rng.choice(_TRUNC_SMALL)
            k = rng.randint(2, min(4, n))
            fill = _partition(cap, k, rng)
            w = fill + [rng.randint(1, cap) for _ in range(n - k)]
            rng.shuffle(w)
        elif style == "weights":
            w = [rng.choice(_TRUNC_SMALL) if rng.random() < 0.7 else rng.randint(1, 5000) for _ in range(n)]
            cap = rng.choice([sum(rng.sample(w, rng.randint(1, n))), rng.randint(1, sum(w))])
        else:
            cap = rng.choice(_TRUNC_SMALL)
            w = [rng.choice(_TRUNC_SMALL) % (cap + 1) or 1 for _ in range(n)]
        cap = min(cap, 100000)
        vp = rng.choice([0, 0, 1])
        v = [rng.randint(1, 9 * 10 ** vp) for _ in range(n)] if rng.random() < 0.6 else [10 ** vp] * n
        return _knap_case(v, vp, w, p, cap)
    if stratum == "knap-zero":
        n = rng.randint(1, 8)
        p = rng.choice([0, 0, 1, 2, 3])
        unit = 10 ** p
        w = [0 if rng.random() < 0.5 else rng.randint(1, 6 * unit) for _ in range(n)]
        if rng.random() < 0.2:
            w = [0] * n
        v = [rng.randint(0, 9) for _ in range(n)]
        cap = 0 if rng.random() < 0.6 else rng.randint(0, 8 * unit)
        return _knap_case(v, 0, w, p, cap, fl=rng.random() < 0.4)
    if stratum == "knap-fill":
        p = rng.choice([0, 0, 1, 2, 3])
        unit = 10 ** p
        cap = rng.randint(1, 40 * unit)
        k = rng.randint(1, 5)
        fill = _partition(cap, k, rng) if cap >= k else [cap]
        extra = [rng.randint(1, cap + unit) for _ in range(rng.randint(0, 5))]
        w = fill + extra
        rng.shuffle(w)
        style = rng.choice(["w", "one", "rand"])
        v = list(w) if style == "w" else [1] * len(w) if style == "one" else [rng.randint(0, 12) for _ in w]
        vp = p if style == "w" else 0
        return _knap_case(v, vp, w, p, cap)
    if stratum == "knap-tiny-values":
        # values of magnitude 1e-10 .. 1e-8 (integer weights): which subset is best does not depend on the scale of
        # the values, so an absolute "improvement > 1e-9" style guard in the DP must not change the answer
        n = rng.randint(2, 9)
        w = [rng.randint(1, 12) for _ in range(n)]
        v = [rng.randint(1, 40) for _ in range(n)]
        cap = rng.randint(max(1, min(w)), max(2, sum(w) - 1))
        return _knap_case(v, rng.choice([9, 10, 10, 11]), w, 0, cap)
    if stratum == "knap-approx":
        # coarse DP grid (4 decimal places, or decimals with capacity > 100) where the best subset fills the
        # capacity exactly or nearly: rounding a scaled weight the wrong way loses it
        n = rng.randint(2, 10)
        if rng.random() < 0.5:
            p = 4
            w = [rng.randint(1, 30000) for _ in range(n)]
        else:
            p = rng.randint(1, 3)
            w = [rng.randint(50 * 10 ** p, 250 * 10 ** p) + rng.choice([0, 1, 2, 5, 8]) for _ in range(n)]
        sub = [x for x in w if rng.random() < 0.6] or [w[0]]
        cap = sum(sub) + rng.choice([0, 0, 0, 1, 3])
        if p != 4 and cap <= 100 * 10 ** p:
            cap = 100 * 10 ** p + 1 + sum(sub)
        style = rng.choice(["w", "one", "rand"])
        v = list(w) if style == "w" else [1] * n if style == "one" else [rng.randint(0, 50) for _ in range(n)]
        vp = p if style == "w" else 0
        return _knap_case(v, vp, w, p, cap)
    if stratum == "knap-fallback":
        # k items of weight C/k + a few 1e-4 (the truncating DP grid packs all k, the real weights do not fit): the solver
        # has to fall back to its greedy pass - whose answer is a heuristic one whatever it looks like.  Around them a
        # ratio-greedy trap: a 0.7C item with the best ratio and a 0.3C filler end exactly full, two 0.5C items are better
        C = rng.choice([10, 20, 30, 50])
        k = rng.choice([3, 3, 6, 7])
        unit = 10 ** 4
        third = C * unit // k + rng.randint(1, 9)
        ra = rng.choice([22, 25, 30])           # value per weight unit, in tenths
        w = [7 * C * unit // 10, 3 * C * unit // 10, 5 * C * unit // 10, 5 * C * unit // 10] + [third] * k
        v10 = [ra * 7 * C // 10, 10 * 3 * C // 10, (ra - 1) * 5 * C // 10, (ra - 1) * 5 * C // 10] + [(ra - 1) * C // k + 1] * k  # all k together would beat the two halves
        if rng.random() < 0.3:
            w, v10 = w[2:] + w[:2], v10[2:] + v10[:2]
        if rng.random() < 0.3:
            w.append(rng.randint(1, C * unit))
            v10.append(rng.randint(0, 30))
        return _knap_case(v10, 1, w, 4, C * unit)
    if stratum == "knap-large":
        if rng.random() < 0.5:
            n = rng.randint(17, 40)
            w = [rng.randint(0 if rng.random() < 0.1 else 1, 60) for _ in range(n)]
            v = [rng.randint(0, 100) for _ in range(n)]
            return _knap_case(v, 0, w, 0, rng.randint(0, sum(w)))
        # approximate regime: 4 decimal places, or decimals with capacity > 100
        n = rng.randint(2, 12)
        if rng.random() < 0.5:
            p = 4
            w = [rng.randint(1, 30000) for _ in range(n)]
            cap = rng.randint(1, sum(w))
        else:
            p = rng.randint(1, 3)
            w = [rng.randint(1, 400 * 10 ** p) for _ in range(n)]
            cap = rng.randint(100 * 10 ** p + 1, max(100 * 10 ** p + 2, sum(w)))
        v = [rng.randint(0, 50) for _ in range(n)]
        return _knap_case(v, 0, w, p, cap)

    if stratum == "knap-huge-values":
        # integer values beyond 2**53 (a float cannot hold them): the objective is the *sum of the chosen values*
        n = rng.randint(1, 7)
        base = rng.choice([2 ** 53, 2 ** 52, 10 ** 17, 2 ** 60])
        v = [base * rng.randint(1, 3) + rng.randint(0, 9) for _ in range(n)]
        w = [rng.randint(0, 6) for _ in range(n)]
        cap = rng.randint(0, max(1, sum(w)))
        return _knap_case(v, 0, w, 0, cap)

    al = [rng.choice(ALIASES), rng.choice(ALIASES)]
    if stratum == "bin-int":
        n = rng.randint(1, 11)
        cap = rng.choice([6, 7, 10, 12, 20, 100])
        style = rng.choice(["any", "big", "small", "ffd-hard"])
        if style == "big":
            s = [rng.randint(cap // 3, cap) for _ in range(n)]
        elif style == "small":
            s = [rng.randint(0, max(1, cap // 3)) for _ in range(n)]
        elif style == "ffd-hard":
            # the classical bad family for FFD: sizes around 1/2+e, 1/4+2e, 1/4+e, 1/4-2e of the capacity
            cap = rng.choice([20, 40, 100])
            e = max(1, cap // 40)
            fam = [cap // 2 + e, cap // 4 + 2 * e, cap // 4 + e, cap // 4 - 2 * e]
            s = [rng.choice(fam) for _ in range(n)]
        else:
            s = [rng.randint(0, cap) for _ in range(n)]
        return _bin_case(s, 0, cap, al, fl=rng.random() < 0.25)
    if stratum == "bin-dec":
        n = rng.randint(1, 11)
        p = rng.randint(1, 3)
        unit = 10 ** p
        cap = rng.choice([unit, 7 * unit // 10, 3 * unit // 2, 10 * unit, rng.randint(unit // 2 or 1, 3 * unit)])
        cap = max(1, cap)
        s = [rng.randint(0 if rng.random() < 0.1 else 1, cap) for _ in range(n)]
        if rng.random() < 0.4:
            step = max(1, cap // rng.choice([4, 5, 10, 20]))
            s = [min(cap, max(step, (x // step) * step)) for x in s]
        return _bin_case(s, p, cap, al)
    if stratum == "bin-straddle":
        # decimal sizes that fill k bins exactly: float residues of the remaining capacity decide the fit
        p = rng.randint(1, 3)
        unit = 10 ** p
        cap = rng.choice([unit, 7 * unit // 10, 3 * unit // 10, 11 * unit // 10, 3 * unit // 2, 2 * unit, rng.randint(max(2, unit // 5), 3 * unit)])
        cap = max(2, cap)
        k = rng.choice([1, 1, 1, 2, 2, 3])
        s = []
        for _ in range(k):
            parts = rng.randint(2, 4 if k > 1 else 8)
            if rng.random() < 0.35 and cap % parts == 0:
                s += [cap // parts] * parts  # 0.1 x 10 and friends
            else:
                s += _partition(cap, min(parts, cap), rng)
        s = s[:12]
        rng.shuffle(s)
        return _bin_case(s, p, cap, al)
    if stratum == "bin-zero":
        n = rng.randint(1, 8)
        p = rng.choice([0, 0, 1, 2])
        unit = 10 ** p
        cap = rng.randint(1, 6 * unit)
        if rng.random() < 0.4:
            s = [0] * n
        else:
            s = [0 if rng.random() < 0.5 else rng.randint(1, cap) for _ in range(n)]
        return _bin_case(s, p, cap, al, fl=rng.random() < 0.4)
    if stratum == "bin-perfect-large":
        p = rng.choice([0, 0, 1, 2, 3])
        unit = 10 ** p
        cap = rng.randint(6, 30) * unit if rng.random() < 0.7 else rng.randint(6 * unit, 30 * unit)
        k = rng.randint(2, 9)
        s = []
        for _ in range(k):
            s += _partition(cap, rng.randint(1, 5), rng)
        rng.shuffle(s)
        c = _bin_case(s, p, cap, al)
        c["opt_known"] = k  # total = k*cap and a k-bin packing exists by construction
        return c
    if stratum == "bin-huge-int":
        # byte-sized integers (capacity 1e9 .. 2**44): bins that are exactly full plus a few items of 1..8 units;
        # "fits" has to be decided on the exact integer load, whatever the magnitude
        cap = rng.choice([10 ** 9, 2 ** 30, 2 ** 33, 8 * 2 ** 30, 10 ** 12, 2 ** 44, rng.randint(10 ** 9, 10 ** 13),
                          2 ** 54 + 7, 2 ** 54 + 2, 2 ** 60 + 1, 10 ** 18 + 3])
        if rng.random() < 0.25:
            # units of 2**-40 .. 2**-60: the same packing problem at a scale where 1e-9 is not "about zero"
            capu = rng.randint(1, 40)
            k = rng.randint(1, 3)
            s = []
            for _ in range(k):
                s += _partition(capu, rng.randint(1, 3), rng)
            s += [rng.randint(1, capu) for _ in range(rng.randint(0, 4))]
            rng.shuffle(s)
            return _bin_case(s[:12], rng.choice(["b40", "b40", "b50", "b60"]), capu, al)
        k = rng.randint(1, 3)
        s = []
        for _ in range(k):
            s += _partition(cap, rng.randint(1, 3), rng)
        s += [rng.randint(1, 8) for _ in range(rng.randint(1, 4))]
        if rng.random() < 0.3:
            s.append(cap - rng.randint(1, 8))
        s = s[:12]
        if rng.random() < 0.6:
            rng.shuffle(s)
        return _bin_case(s, 0, cap, al, fl=rng.random() < 0.2 and cap < 2 ** 53)  # floats only where they are exact
    if stratum == "bin-dup-runs":
        # k bins filled exactly from a handful of distinct sizes: long runs of equal sizes in processing order
        # (OPT = k by construction); the decreasing heuristics must stay within 11/9 OPT + 6/9
        if rng.random() < 0.15:
            # three size classes (> 1/2, ~1/3, ~1/4 of the bin) in runs: the textbook shape on which a decreasing
            # heuristic that places a run of equal items badly ends up above 11/9 OPT + 6/9
            p = rng.choice([0, 0, 1])
            u = rng.choice([1, 2, 3]) * 10 ** p
            cap = 30 * u
            s = [20 * u] * rng.randint(3, 5) + [11 * u] * rng.randint(1, 3) + [8 * u] * rng.randint(3, 6)
            s = s[:12]
            rng.shuffle(s)
            return _bin_case(s, p, cap, al)
        p = rng.choice([0, 0, 1])
        unit = 10 ** p
        cap = rng.choice([20, 24, 30, 36, 40, 60]) * unit
        pool = sorted({rng.randint(2, cap // unit // 2) * unit for _ in range(rng.randint(2, 4))})
        k = rng.randint(3, 7)
        s = []
        for _ in range(k):
            # fill one bin exactly: greedy with pool sizes, remainder as its own item
            left = cap
            parts = []
            while left > 0:
                fit = [x for x in pool if x <= left]
                if not fit or (parts and rng.random() < 0.15):
                    parts.append(left)
                    left = 0
                else:
                    x = rng.choice(fit)
                    parts.append(x)
                    left -= x
            s += parts
        rng.shuffle(s)
        c = _bin_case(s, p, cap, al)
        c["opt_known"] = k
        return c
    if stratum == "bin-large":
        n = rng.randint(13, 60)
        p = rng.choice([0, 1, 3])
        cap = rng.randint(10, 100) * 10 ** p
        s = [rng.randint(0 if rng.random() < 0.05 else 1, cap) for _ in range(n)]
        return _bin_case(s, p, cap, al)
    raise ValueError(stratum)


# ---------------------------------------------------------------- knapsack judge

def _knap_regime(case):
    p = case["p"]
    if p == 0:
        return "exact-int"
    if p <= 3 and case["cap"] <= 100 * 10 ** p:
        return "exact-decimal"
    return "approximate"


def _judge_knap(case, minimize, res, obs):
    v, w, p, vp, cap = case["v"], case["w"], case["p"], case["vp"], case["cap"]
    n = len(v)
    tag = f"minimize={minimize} values={[_num(x, vp) for x in v]} weights={[_num(x, p) for x in w]} capacity={_num(cap, p)}"
    sel = res.solution
    st = getattr(res.status, "name", str(res.status))
    obs.outcome(f"knap.{st}")
    obs.event("knap.feasible.checked")
    if not isinstance(sel, (tuple, list)) or any((not isinstance(i, int)) or isinstance(i, bool) or not (0 <= i < n) for i in sel):
        obs.violate("knap.bad-index", f"{tag}: solution={sel!r}")
        return
    if len(set(sel)) != len(sel):
        obs.violate("knap.duplicate-index", f"{tag}: solution={sel!r}")
        return
    wsum = sum(w[i] for i in sel)
    if wsum > cap:
        obs.violate("knap.overweight", f"{tag}: solution={sel!r} exact weight {Fraction(wsum, 10 ** p)} > capacity")
        return
    vsum = sum(v[i] for i in sel)
    exact_v = Fraction(vsum, 10 ** vp)
    obs.event("knap.objective.checked")
    try:
        if vp == 0 and not case.get("fl"):
            ok = res.objective == vsum  # integer values: the sum is an integer, compared exactly (int == float is exact)
        else:
            ok = abs(Fraction(res.objective) - exact_v) <= Fraction(1, 10 ** 9) * (1 + abs(exact_v))
    except (TypeError, ValueError, OverflowError):
        ok = False
    if not ok:
        obs.violate("knap.objective-mismatch", f"{tag}: solution={sel!r} objective={res.objective!r} sum of values={float(exact_v)}")
        return
    if st != "OPTIMAL":
        obs.event("knap.not-claimed-optimal")
        return
    regime = _knap_regime(case)
    if regime == "approximate":
        # coarse DP grid (4+ decimals or capacity > 100): weights and capacity are both truncated, so the DP is a
        # relaxation and an answer that survives the solver's own weight re-check is optimal in exact arithmetic;
        # the OPTIMAL label is therefore judged here as well (DESIGN 10.5)
        obs.event("knap.approximate-regime")
    best, how = _orc.knapsack_best(v, w, cap, minimize)
    if best is None:
        obs.mode("certificate_only")
        return
    obs.mode("exact")
    obs.event("knap.optimal.exact-compared")
    obs.event(f"knap.oracle.{how}")
    worse = vsum > best if minimize else vsum < best
    better = vsum < best if minimize else vsum > best
    if better:
        obs.inconc(f"knapsack oracle inconsistent: feasible selection {sel} beats oracle optimum ({tag})")
    if worse:
        if p and int(_num(cap, p) * 1000.0) != cap * 10 ** (3 - p):
            obs.mech.add("knap.capacity-scale-truncation")
        obs.violate("knap.optimal-not-best",
                    f"{tag}: OPTIMAL with value {float(exact_v)}, exact optimum {float(Fraction(best, 10 ** vp))} [{regime}]")


def _run_knap(case, obs):
    from vf.common import call, is_crash

    v, w, p, vp, cap, fl = case["v"], case["w"], case["p"], case["vp"], case["cap"], case.get("fl", False)
    values = [_num(x, vp, fl) for x in v]
    weights = [_num(x, p, fl) for x in w]
    capacity = _num(cap, p, fl)
    fits = [x for x in w if x <= cap]
    obs.nontrivial = bool(fits) and sum(w) > cap
    for minimize in (False, True):
        kw = {"minimize": True} if minimize else {}
        res = call(obs, _ks.solve_knapsack, list(values), list(weights), capacity, what="solve_knapsack", budget=40_000_000, **kw)
        if is_crash(res):
            continue
        _judge_knap(case, minimize, res, obs)


# ---------------------------------------------------------------- bin packing judge

def _judge_bin(case, algo, res, opt, obs):
    s, p, cap = case["s"], case["p"], case["cap"]
    n = len(s)
    tag = f"algorithm={algo!r} sizes={[_num(x, p) for x in s]} capacity={_num(cap, p)}"
    st = getattr(res.status, "name", str(res.status))
    obs.outcome(f"bin.{st}")
    a = res.solution
    obs.event("bin.assignment.checked")
    if not isinstance(a, (tuple, list)) or len(a) != n or any((not isinstance(b, int)) or isinstance(b, bool) for b in a):
        obs.violate("bin.unassigned-item", f"{tag}: solution={a!r}")
        return
    k = res.objective
    if not isinstance(k, (int, float)) or k != int(k):
        obs.violate("bin.numbering", f"{tag}: objective={k!r}")
        return
    k = int(k)
    if sorted(set(a)) != list(range(k)):
        obs.violate("bin.numbering", f"{tag}: bins used {sorted(set(a))}, objective {k}, solution={a!r}")
        return
    obs.event("bin.load.checked")
    loads = [0] * k
    for i, b in enumerate(a):
        loads[b] += s[i]
    for b, ld in enumerate(loads):
        if (ld > cap) if (p == 0 or isinstance(p, str)) else (ld * 10 ** 9 > cap * (10 ** 9 + 1)):  # integer / dyadic data: exact
            obs.violate("bin.overload", f"{tag}: bin {b} holds {ld} units (capacity {cap} units) solution={a!r}")
            return
    obs.event("bin.lb.checked")
    lb = -(-sum(s) // cap)
    if k < lb:
        obs.violate("bin.below-lower-bound", f"{tag}: {k} bins < ceil(total/capacity)={lb}")
        return
    if opt is None:
        obs.mode("certificate_only")
        return
    obs.mode("exact")
    if k < opt:
        obs.inconc(f"bin oracle inconsistent: valid packing with {k} bins below oracle optimum {opt} ({tag})")
        return
    canon = algo.lower().replace("_", "-")
    if canon.endswith("-decreasing"):
        obs.event("bin.ffd-bound.checked")
        if 9 * k > 11 * opt + 6:
            obs.violate("bin.ffd-bound", f"{tag}: {k} bins, optimum {opt}: above 11/9*OPT+6/9 solution={a!r}")
            return
    obs.event("bin.optimal.exact-compared")
    if st == "OPTIMAL" and k != opt:
        obs.violate("bin.optimal-not-min", f"{tag}: OPTIMAL with {k} bins, optimum {opt}")


def _run_bin(case, obs):
    from vf.common import call, is_crash

    s, p, cap, fl = case["s"], case["p"], case["cap"], case.get("fl", False)
    sizes = [_num(x, p, fl) for x in s]
    capacity = _num(cap, p, fl)
    pos = [x for x in s if x > 0]
    obs.nontrivial = len(pos) >= 2
    if "opt_known" in case and sum(s) == case["opt_known"] * cap:
        opt = case["opt_known"]
        obs.event("bin.oracle.by-construction")
    else:
        opt = _orc.bins_opt(pos, cap)
        if opt is not None:
            obs.event("bin.oracle.bnb")
    if opt is not None and s:
        opt = max(1, opt)
    runs = [None] + ALGOS + list(case.get("aliases", []))
    for algo in runs:
        kw = {} if algo is None else {"algorithm": algo}
        res = call(obs, _bp.solve_bin_pack, list(sizes), capacity, what="solve_bin_pack", budget=20_000_000, **kw)
        if is_crash(res):
            continue
        _judge_bin(case, algo or "best-fit-decreasing", res, opt, obs)


def run(case, obs):
    if case["kind"] == "knap":
        _run_knap(case, obs)
    else:
        _run_bin(case, obs)


# ---------------------------------------------------------------- minimisation / findings

def shrink(case):
    if case["kind"] == "knap":
        n = len(case["v"])
        for i in range(n):
            if n > 1:
                c = dict(case)
                c["v"] = case["v"][:i] + case["v"][i + 1:]
                c["w"] = case["w"][:i] + case["w"][i + 1:]
                yield c
        for i in range(n):
            if case["v"][i] > 1:
                c = dict(case)
                c["v"] = list(case["v"])
                c["v"][i] = 1
                yield c
    else:
        n = len(case["s"])
        for i in range(n):
            if n > 1:
                c = dict(case)
                c["s"] = case["s"][:i] + case["s"][i + 1:]
                c.pop("opt_known", None)
                yield c
        if case.get("aliases"):
            c = dict(case)
            c["aliases"] = []
            yield c


def finding_keys(case, obs):
    return set(obs.mech)
