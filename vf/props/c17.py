"""C17 — cutting-stock plans of solve_cg / solve_bp meet every demand; OPTIMAL is minimal.

The violation is decided at the API boundary: every returned plan is checked on integers and
its status against the exact minimum (demand-vector DP, vf/oracles/cutting.py).  L2 monitors
(vf/monitors/cutting.py) on cg._solve_master_lp, bp._solve_bounded_master_lp,
bp._solve_node_lp and knapsack_pricing supply events and the mechanism keys of a violation.
"""

ID = "C17"
RULE = ("seeded cutting-stock instances (roll <= 14, <= 4 piece types, demands <= 6, or <= 3 types with demands <= 14, in "
        "the exact strata; a few wide ones above the oracle guard) and explicit column sets with an exactly scanning pricing callback; each "
        "instance is solved by solve_cg and solve_bp; non-trivial = true optimum >= 2 and the pricer was consulted "
        "or a node was branched; distinct = distinct (instance, solver configuration)")
ASSUMPTIONS = [
    "piece sizes positive ints <= roll width, demands non-negative ints",
    "custom mode: the initial columns cover every demanded row (a feasible restricted master), the pricing callback "
    "scans an explicit column set exactly and returns (column, reduced cost) or (None, 0.0)",
    "default tolerances of the solvers (eps, gap_tol); the strata cs-config / custom-config add cut-off configurations "
    "(max_iter 0..5, max_nodes 0..9, on_progress callbacks that stop the search at their k-th call), judged by the "
    "same relation: a cut-off answer may be FEASIBLE but never a wrong OPTIMAL",
    "objective faithful within 1e-6; L2 tolerances 1e-7 (feasibility) / 1e-6 (values)",
    "exact optimum by DP over demand vectors (<= 60000 states); above the guard certificate_only",
]
QUICK_SCALE = 1.5  # quick-tier multiplier (idle 16-core timing: ~10 s at scale 1)
STRATA = [
    ("cs-random", 500, 6000),
    ("cs-halves", 400, 5000),
    ("cs-dup-edge", 200, 2500),
    ("cs-deep", 500, 5000),
    ("cs-two", 800, 8000),
    ("cs-degenerate", 400, 5000),
    ("cs-tight", 300, 4000),
    ("custom-cols", 1200, 12000),
    ("custom-cycles", 900, 9000),
    ("custom-from-cs", 120, 1500),
    ("cs-config", 500, 6000),
    ("custom-config", 250, 3000),
    ("custom-gap", 300, 4000),
    ("custom-uncovered", 200, 3000),
    ("cs-wide", 12, 200),
]
REQUIRED_EVENTS = {"any": ["c17.plan.checked", "c17.demand.checked", "c17.optimal.exact-compared",
                           "l2.cg.master.checked", "l2.bp.master.checked", "l2.bp.node.checked", "l2.pricing.checked",
                           "l2.cg.master.exact-lp.compared", "l2.bp.master.exact-lp.compared",
                           "l2.bp.node.exact-lp.compared", "l2.pricing.exact-max.compared", "l2.bp.node.branched"]}

# Step budget of one solver call.  Largest need seen on the unchanged tree in 2 x 55 200 thorough + 5 x 4 682 quick
# cases: 14.2 M (custom-from-cs with first-improving pricing before its node limit was introduced), 9.3 M elsewhere;
# cases above 3 M are counted per stratum in the evidence (fuel.over-3M.*).
BUDGET = 60_000_000

# mechanism keys (DESIGN §4/§5) that may key a known finding of solve_bp
MECH_KEYS = {"bp.master.infeasible-under-bounds", "bp.master.returned-infeasible-point", "bp.cg.stalled"}

_cg = None
_bp = None
_mon = None
_orc = None


def setup():
    global _cg, _bp, _mon, _orc
    from vf.instrument import mod
    from vf.monitors import cutting as mon
    from vf.oracles import cutting as orc

    mon.attach()
    _mon = mon
    _orc = orc
    _cg = mod("solvor.cg")
    _bp = mod("solvor.bp")


# ---------------------------------------------------------------- generators

def _cs(W, sizes, dem, rng, **kw):
    c = {"kind": "cs", "W": W, "sizes": list(sizes), "dem": list(dem),
         "bp_max_iter": rng.choice([50, 50, 50, 1000, None, None, 3, 1]),
         "bp_max_nodes": rng.choice([None] * 8 + [1, 2, 4, 8]), "float_width": rng.random() < 0.15,
         # roll_width is a float in the API: a fractional width with integer pieces is the same problem as its floor
         "frac": rng.choice([0.5, 0.75, 0.99, 0.25, 0.6, 0.995, 0.9951, 0.999, 0.996]) if rng.random() < 0.25 else 0}
    c.update(kw)
    return c


def _with_duplicates(rng, init):
    """initial_columns is a list: the same column may be listed more than once (valid input)."""
    init = list(init)
    if init and rng.random() < 0.45:
        for _ in range(rng.randint(1, 3)):
            init.insert(rng.randrange(len(init) + 1), rng.choice(init))
    return init


def _gen(stratum, rng, tier):
    if stratum == "cs-random":
        W = rng.randint(4, 14)
        m = rng.randint(1, 4)
        sizes = sorted(set(rng.randint(1, W) for _ in range(m)))
        if rng.random() < 0.5:
            rng.shuffle(sizes)
        dem = [rng.randint(0, 6) for _ in sizes]
        return _cs(W, sizes, dem, rng)
    if stratum == "cs-halves":
        # pieces of about 1/2, 1/3, 1/4 of the roll: few pieces per pattern, fractional LP optima, real branching
        W = rng.randint(7, 14)
        m = rng.randint(2, 4)
        pool = sorted({W // 2, W // 2 + 1, W // 3, W // 3 + 1, W // 4 + 1, (2 * W) // 5, (3 * W) // 5, (2 * W) // 3, max(2, W // 4)})
        pool = [s for s in pool if 1 <= s <= W]
        sizes = rng.sample(pool, min(m, len(pool)))
        dem = [rng.choice([1, 1, 2, 3, 3, 4, 5, 6]) for _ in sizes]
        return _cs(W, sizes, dem, rng)
    if stratum == "cs-dup-edge":
        W = rng.randint(2, 14)
        m = rng.randint(1, 4)
        style = rng.choice(["dup", "full", "ones", "zeros"])
        sizes = [rng.randint(1, W) for _ in range(m)]
        if style == "dup" and m >= 2:
            sizes[-1] = sizes[0]
        elif style == "full":
            sizes[0] = W
        elif style == "ones":
            sizes[0] = 1
        dem = [rng.randint(0, 6) for _ in sizes]
        if style == "zeros":
            dem = [0 if rng.random() < 0.6 else d for d in dem]
        return _cs(W, sizes, dem, rng)
    if stratum == "cs-deep":
        # larger demands (<= 9, <= 3 types): deeper branch-and-price trees, still inside the DP guard
        W = rng.randint(8, 14)
        m = rng.randint(2, 3)
        sizes = rng.sample(range(2, W), m)
        dem = [rng.randint(3, 9) for _ in sizes]
        return _cs(W, sizes, dem, rng)
    if stratum == "cs-degenerate":
        # demands that are integer combinations of a few patterns: the LP optimum sits at a degenerate vertex
        # (ties in the ratio test, artificials basic at zero after phase 1, several optimal bases)
        W = rng.randint(5, 14)
        m = rng.randint(2, 4)
        sizes = rng.sample(range(1, W + 1), min(m, W))
        m = len(sizes)
        dem = [0] * m
        for _ in range(rng.randint(1, 3)):
            left = W
            pat = [0] * m
            for i in rng.sample(range(m), m):
                pat[i] = rng.randint(0, left // sizes[i])
                left -= pat[i] * sizes[i]
            t = rng.randint(1, 3)
            dem = [d + t * a for d, a in zip(dem, pat)]
        dem = [min(d, 7) for d in dem]
        if not any(dem):
            dem[0] = 1
        return _cs(W, sizes, dem, rng)
    if stratum == "cs-tight":
        # pieces a (3 per roll) and b (2 per roll) with a mixed pattern (2,1): under branching bounds on the three
        # columns the restricted master becomes exactly tight (sum a_ij*hi_j == demand), phase 1 ends in a
        # degenerate vertex with an artificial still basic -- the shape that exposes an unsafe phase-1/phase-2
        # hand-over in the bounded master LP
        while True:
            W = rng.randint(7, 14)
            a = rng.randint(2, W // 3)
            b = rng.randint(W // 3 + 1, W // 2)
            if W // a == 3 and W // b == 2 and 2 * a + b <= W and a != b:
                break
        sizes, dem = [a, b], [rng.randint(3, 14), rng.randint(3, 14)]
        if rng.random() < 0.3:
            c3 = rng.choice([s for s in range(2, W + 1) if s not in (a, b)])
            sizes.append(c3)
            dem.append(rng.randint(0, 3))
            dem = [min(d, 12) for d in dem]
        if rng.random() < 0.5:
            sizes[0], sizes[1] = sizes[1], sizes[0]
            dem[0], dem[1] = dem[1], dem[0]
        return _cs(W, sizes, dem, rng)
    if stratum == "cs-two":
        # two piece types, larger demands: long chains of lower/upper branching bounds on few columns
        W = rng.randint(6, 14)
        sizes = rng.sample(range(2, W), 2)
        dem = [rng.randint(4, 14) for _ in sizes]
        return _cs(W, sizes, dem, rng)
    if stratum in ("cs-config", "custom-config"):
        # the same instances under cut-off configurations: tiny max_iter, node limits, on_progress callbacks
        # that stop the search at their k-th call.  A cut-off answer may be FEASIBLE, never a wrong OPTIMAL.
        base = rng.choice(["cs-random", "cs-halves", "cs-deep", "cs-two"]) if stratum == "cs-config" else rng.choice(["custom-cols", "custom-cycles"])
        c = _gen(base, rng, tier)
        c.pop("bp_max_nodes", None)
        c.pop("bp_max_iter", None)
        how = rng.choice(["max_iter", "max_iter", "stop", "stop"])
        if how == "max_iter":
            c["cg_kw"] = {"max_iter": rng.choice([0, 1, 1, 2, 3, 5])}
        else:
            c["cg_stop"] = (rng.choice([1, 1, 2, 3, 4]), rng.choice([1, 1, 2]))
        how = rng.choice(["max_iter", "max_nodes", "max_nodes", "stop", "stop", "both"])
        if how == "max_iter":
            c["bp_kw"] = {"max_iter": rng.choice([1, 2, 3, 5])}
        elif how == "max_nodes":
            c["bp_kw"] = {"max_nodes": rng.choice([0, 1, 1, 2, 3, 5, 9])}
        elif how == "stop":
            c["bp_stop"] = (rng.choice([1, 1, 2, 3, 5, 8]), rng.choice([1, 1, 2]))
        else:
            c["bp_kw"] = {"max_iter": rng.choice([2, 4, 50]), "max_nodes": rng.choice([2, 4, 8])}
            c["bp_stop"] = (rng.choice([2, 4, 6]), 1)
        return c
    if stratum == "cs-wide":
        W = rng.randint(20, 60)
        m = rng.randint(4, 6)
        sizes = rng.sample(range(3, W), m)
        dem = [rng.randint(1, 25) for _ in sizes]
        c = _cs(W, sizes, dem, rng)
        c["bp_max_iter"] = 50
        c["bp_max_nodes"] = 60
        c["budget"] = 100_000_000
        return c
    if stratum == "custom-cols":
        m = rng.randint(2, 4)
        dem = [rng.randint(0, 6) for _ in range(m)]
        if not any(dem):
            dem[rng.randrange(m)] = rng.randint(1, 6)
        k = rng.randint(2, 9)
        cols = set()
        for _ in range(k):
            dens = rng.choice([0.4, 0.7])
            c = tuple(rng.randint(1, 3) if rng.random() < dens else 0 for _ in range(m))
            if any(c):
                cols.add(c)
        style = rng.choice(["units", "units-in-set", "cover"])
        units = [tuple(1 if i == j else 0 for i in range(m)) for j in range(m)]
        if style == "units":
            init = units
        elif style == "units-in-set":
            init = units
            cols |= set(units)
        else:
            pool = sorted(cols)
            rng.shuffle(pool)
            init = []
            for i in range(m):
                if dem[i] > 0 and not any(c[i] > 0 for c in init):
                    cand = [c for c in pool if c[i] > 0]
                    init.append(cand[0] if cand else units[i])
            if not init:
                init = [units[0]]
        init = _with_duplicates(rng, init)
        return {"kind": "custom", "dem": dem, "cols": sorted(cols), "init": [tuple(c) for c in init],
                "pick": rng.choice(["best", "best", "first"]), "bp_max_iter": rng.choice([50, 1000, None])}
    if stratum == "custom-uncovered":
        # the initial columns cannot produce some demanded piece (the restricted master starts infeasible).  Whether the
        # solvers can recover is not part of the statement, but they have to answer, and the answer is judged like any
        # other: "a plan that misses a demand is never presented as OPTIMAL or FEASIBLE"
        c = _gen("custom-cols", rng, tier)
        need = [i for i, d in enumerate(c["dem"]) if d > 0]
        if not need:
            c["dem"][0] = 2
            need = [0]
        hole = rng.choice(need)
        init = [tuple(0 if i == hole else a for i, a in enumerate(col)) for col in c["init"]]
        c["init"] = [col for col in init if any(col)] or [tuple(1 if i != hole else 0 for i in range(len(c["dem"])))]
        if all(col[hole] == 0 for col in c["init"]) and len(c["dem"]) == 1:
            c["dem"] = c["dem"] + [1]
            c["cols"] = [tuple(col) + (0,) for col in c["cols"]] + [(0, 1)]
            c["init"] = [(0, 1)]
        c["uncovered"] = True  # (until the repair of solve_cg's custom mode an exception was accepted here)
        return c
    if stratum == "custom-gap":
        # a caller-chosen optimality gap (gap_tol 1%..25%) on instances whose LP values sit just above an integer
        # (demand q*a + r with a wide column a): the gap may relax *optimality*, never integrality or the demands
        m = rng.randint(1, 2)
        cols, dem = set(), []
        for i in range(m):
            a = rng.choice([3, 4, 5, 8, 10, 12, 20, 25, 40])
            q = rng.randint(1, 6 if m == 1 else 3)
            r = rng.choice([0, 1, 1, 1, 2])
            dem.append(q * a + r)
            cols.add(tuple(a if j == i else 0 for j in range(m)))
            if rng.random() < 0.5:
                cols.add(tuple(rng.randint(1, a) if j == i else rng.choice([0, 0, 1, 2]) for j in range(m)))
        units = [tuple(1 if i == j else 0 for i in range(m)) for j in range(m)]
        init = rng.choice([units, sorted(cols)[:m] if all(any(c[i] for c in sorted(cols)[:m]) for i in range(m)) else units])
        if rng.random() < 0.5:
            cols |= set(units)
        return {"kind": "custom", "dem": dem, "cols": sorted(cols), "init": [tuple(c) for c in init],
                "pick": rng.choice(["best", "best", "first"]), "bp_max_iter": rng.choice([50, 1000, None]),
                "bp_kw": {"gap_tol": rng.choice([0.01, 0.05, 0.05, 0.1, 0.25])}}
    if stratum == "custom-cycles":
        # covering structures with an integrality gap (odd cycles, near-complementary pairs): deep trees in
        # which every column that covers a row ends up with a branching bound
        m = rng.randint(3, 4) if rng.random() < 0.8 else 5
        k = rng.choice([1, 1, 2])
        cols = set()
        for i in range(m):
            c = [0] * m
            c[i] = k
            c[(i + 1) % m] = k
            cols.add(tuple(c))
        for _ in range(rng.randint(0, 3)):
            c = tuple(rng.randint(0, 2) if rng.random() < 0.5 else 0 for _ in range(m))
            if any(c):
                cols.add(c)
        base = rng.randint(1, 6)
        dem = [max(0, min(6, base + rng.choice([0, 0, 0, 1, -1]))) for _ in range(m)]
        if not any(dem):
            dem[0] = 1
        pool = sorted(cols)
        rng.shuffle(pool)
        init = []
        for i in range(m):
            if dem[i] > 0 and not any(c[i] > 0 for c in init):
                init.append(next(c for c in pool if c[i] > 0))
        if rng.random() < 0.3:
            init = pool
        init = _with_duplicates(rng, init)
        return {"kind": "custom", "dem": dem, "cols": sorted(cols), "init": [tuple(c) for c in init],
                "pick": rng.choice(["best", "first"]), "bp_max_iter": rng.choice([50, None])}
    if stratum == "custom-from-cs":
        W = rng.randint(5, 12)
        m = rng.randint(2, 3)
        sizes = rng.sample(range(1, W + 1), m)
        dem = [rng.randint(1, 6) for _ in sizes]
        pick = rng.choice(["best", "first"])
        # first-improving pricing over hundreds of patterns stalls at almost every node and the tree grows to
        # thousands of nodes (still finite: 14 M steps seen); a node limit keeps the work of this stratum bounded
        return {"kind": "custom-cs", "W": W, "sizes": sizes, "dem": dem, "pick": pick,
                "bp_max_iter": rng.choice([50, None]), "bp_max_nodes": rng.choice([100, 300]) if pick == "first" else None}
    raise ValueError(stratum)


# ---------------------------------------------------------------- judge

def _judge(res, solver, dem, fits, opt, obs, tag, gap=None):
    """fits(column) -> None if the column is admissible, else a reason."""
    st = getattr(res.status, "name", str(res.status))
    obs.outcome(f"{solver}.{st}")
    if st not in ("OPTIMAL", "FEASIBLE"):
        # no usable claim: nothing the statement constrains (counted; the instance itself is feasible)
        obs.event("c17.no-usable-claim")
        if opt not in (None, "guard"):
            obs.event("c17.unusable-status-on-feasible-instance")
        return
    plan = res.solution
    obs.event("c17.plan.checked")
    if not isinstance(plan, dict):
        obs.violate("c17.bad-plan", f"{tag}: status {st} with solution {plan!r}")
        return
    m = len(dem)
    total = 0
    for col, cnt in plan.items():
        if not isinstance(col, tuple) or len(col) != m or any((not isinstance(a, int)) or a < 0 for a in col):
            obs.violate("c17.bad-pattern", f"{tag}: pattern {col!r}")
            return
        why = fits(col)
        if why:
            obs.violate("c17.pattern-too-wide", f"{tag}: pattern {col!r} {why}; plan={plan}")
            return
        if isinstance(cnt, bool) or not isinstance(cnt, (int, float)) or cnt != int(cnt) or cnt <= 0:
            obs.violate("c17.bad-count", f"{tag}: pattern {col!r} count {cnt!r}; plan={plan}")
            return
        total += int(cnt)
    obs.event("c17.demand.checked")
    for i, d in enumerate(dem):
        got = sum(col[i] * int(cnt) for col, cnt in plan.items())
        if got < d:
            obs.violate("c17.demand-missed", f"{tag}: status {st}, piece {i}: produced {got} < demand {d}; plan={plan}")
            return
    obs.event("c17.objective.checked")
    obj = res.objective
    if not isinstance(obj, (int, float)) or obj != total:  # a count: 6.999999999999999 is not 7 (int() of it is 6)
        obs.violate("c17.objective-mismatch", f"{tag}: objective {obj!r}, plan uses {total} rolls; plan={plan}")
        return
    if opt == "guard" or opt is None:
        obs.mode("certificate_only")
        return
    obs.mode("exact")
    obs.event("c17.optimal.exact-compared")
    if total < opt:
        obs.inconc(f"cutting oracle inconsistent: valid plan with {total} rolls below DP optimum {opt} ({tag})")
        return
    if st == "OPTIMAL" and total > opt and gap and total * (1 - gap) < opt + 1e-9:
        # documented relative gap: the search may stop once (incumbent - bound)/incumbent < gap_tol, bound <= optimum
        obs.event("c17.optimal-within-requested-gap")
    elif st == "OPTIMAL" and total > opt:
        obs.violate("c17.optimal-not-min", f"{tag}: OPTIMAL with {total} rolls, true minimum {opt}; plan={plan}")
    elif st == "FEASIBLE":
        obs.event("c17.feasible-at-optimum" if total == opt else "c17.feasible-above-optimum")


def _drain(obs, solver, trace):
    for k, v in _mon.take_counts().items():
        obs.event(k, v)
        if solver == "bp" and k in MECH_KEYS and v:
            obs.mech.add(k)
        if solver == "bp" and k == "anomaly.bp.master.returned-infeasible-point":
            obs.mech.add("bp.master.returned-infeasible-point")
    an = _mon.drain()
    for name, detail in an:
        obs.mech.add(f"{solver}:{name}")
        if len(trace) < 6:
            trace.append(f"[{solver}] {name}: {detail}")
    return len(an)


def _solve_all(case, dem, common_kw, universe, fits, opt, obs, label):
    """Run solve_cg and solve_bp on one instance; returns number of L2 anomalies."""
    from vf.common import call, is_crash

    anomalies = 0
    trace = []
    runs = [("cg", _cg.solve_cg, dict(case.get("cg_kw") or {}), case.get("cg_stop"))]
    bkw = dict(case.get("bp_kw") or {})
    if case.get("bp_max_iter"):
        bkw["max_iter"] = case["bp_max_iter"]
    if case.get("bp_max_nodes"):
        bkw["max_nodes"] = case["bp_max_nodes"]
    runs.append(("bp", _bp.solve_bp, bkw, case.get("bp_stop")))
    for solver, fn, kw, stop in runs:
        _mon.CTX["universe"] = universe
        _mon.CTX["lp_budget"] = 12
        _mon.CTX["node_budget"] = 6
        _mon.take_counts()
        _mon.drain()
        nv = len(obs.violations)
        ckw = common_kw()
        ckw.update(kw)
        shown = dict(kw)
        if stop:
            ckw["on_progress"] = _stopper(stop[0], obs)
            ckw["progress_interval"] = stop[1]
            shown["on_progress"] = f"stop at call {stop[0]}, interval {stop[1]}"
        if stop or case.get(f"{solver}_kw"):
            obs.event("c17.config.cut-off-run")
        res = call(obs, fn, list(dem), what=f"solve_{solver}", budget=case.get("budget", BUDGET),
                   **ckw)
        if case.get("uncovered"):
            obs.event("c17.uncovered.raised" if is_crash(res) else "c17.uncovered.answered")
        if not is_crash(res):
            _judge(res, solver, dem, fits, opt, obs, f"solve_{solver} {label} {shown or ''}", gap=kw.get("gap_tol"))
            it = getattr(res, "iterations", 0) or 0
            if solver == "bp" and it:
                obs.event("c17.bp.branched-run")
        anomalies += _drain(obs, solver, trace)
        if obs.fuel_max > 3_000_000 and not obs.events.get("fuel.counted"):
            obs.event("fuel.counted")
            obs.event(f"fuel.over-3M.{getattr(obs, 'stratum', '?')}")
        if len(obs.violations) > nv and trace:
            c, d = obs.violations[-1]
            obs.violations[-1] = (c, (d + " || L2: " + " | ".join(trace))[:2000])
    _mon.CTX["universe"] = None
    return anomalies


def _stopper(k, obs):
    calls = [0]

    def on_progress(progress):
        calls[0] += 1
        if calls[0] >= k:
            obs.event("c17.config.stop-requested")
            return True
        return False

    return on_progress


def _scan_pricing(cols, pick, counter):
    def pricing(duals):
        counter[0] += 1
        best, bcol = -1e-9, None
        for c in cols:
            rc = 1.0 - sum(d * a for d, a in zip(duals, c))
            if rc < best:
                best, bcol = rc, c
                if pick == "first":
                    break
        if bcol is None:
            return None, 0.0
        return tuple(bcol), best

    return pricing


def run(case, obs):
    _run(case, obs)
    _LAST["hang"] = any(c == "hang" for c, _ in obs.violations)


def _run(case, obs):
    kind = case["kind"]
    dem = case["dem"]
    if kind == "cs":
        W, sizes = case["W"], case["sizes"]
        pats = _orc.all_patterns(sizes, W)
        if pats is None:
            universe, opt = None, "guard"
        else:
            universe = pats
            opt = _orc.min_cover(_orc.maximal_patterns(pats), dem)
        width = float(W) if case.get("float_width") else W
        if case.get("frac"):
            width = W + case["frac"]

        def fits(col, sizes=sizes, W=W):
            w = sum(a * s for a, s in zip(col, sizes))
            return None if w <= W else f"has width {w} > roll {W}"

        label = f"demands={dem} roll_width={width} piece_sizes={sizes}"
        an = _solve_all(case, dem, lambda: {"roll_width": width, "piece_sizes": list(sizes)}, universe, fits, opt, obs, label)
        if isinstance(opt, int):
            obs.nontrivial = opt >= 2 and (obs.events.get("l2.pricing.checked", 0) > 0)
        else:
            obs.nontrivial = True
        if an and not obs.violations and not case.get("reexam"):
            # bounded re-examination: same instance, piece types in reverse order (different column indices,
            # different branching order), both solvers again under the same oracle
            obs.event("c17.l2-anomaly.reexamined")
            order = list(range(len(sizes)))[::-1]
            sizes2 = [sizes[i] for i in order]
            dem2 = [dem[i] for i in order]

            def fits2(col, sizes=sizes2, W=W):
                w = sum(a * s for a, s in zip(col, sizes))
                return None if w <= W else f"has width {w} > roll {W}"

            pats2 = [tuple(p[i] for i in order) for p in pats] if pats is not None else None
            _solve_all(case, dem2, lambda: {"roll_width": width, "piece_sizes": list(sizes2)}, pats2, fits2, opt, obs,
                       f"[re-exam] demands={dem2} roll_width={width} piece_sizes={sizes2}")
        return
    if kind == "custom":
        cols = [tuple(c) for c in case["cols"]]
        init = [tuple(c) for c in case["init"]]
    else:  # custom-cs: the explicit set is every pattern of a cutting-stock instance
        W, sizes = case["W"], case["sizes"]
        cols = _orc.all_patterns(sizes, W)
        init = [tuple((W // sizes[j]) if i == j else 0 for i in range(len(sizes))) for j in range(len(sizes))]
    allowed = set(cols) | set(init)
    universe = sorted(allowed)
    opt = _orc.min_cover(universe, dem)
    counter = [0]

    def fits(col):
        return None if col in allowed else "is neither an initial column nor in the pricing set"

    def kw():
        return {"pricing_fn": _scan_pricing(cols, case.get("pick", "best"), counter), "initial_columns": [tuple(c) for c in init]}

    label = f"demands={dem} columns={cols if len(cols) <= 12 else str(len(cols)) + ' patterns'} initial={init} pick={case.get('pick')}"
    _solve_all(case, dem, kw, universe, fits, opt, obs, label)
    obs.event("c17.custom.pricing-calls", counter[0])
    obs.nontrivial = isinstance(opt, int) and opt >= 2 and counter[0] > 0


# ---------------------------------------------------------------- minimisation / findings

_LAST = {"hang": False}


def gen(stratum, rng, tier):
    case = _gen(stratum, rng, tier)
    if case.get("kind") == "cs" and rng.random() < 0.03:
        # nothing ordered (a day without orders): the empty plan, zero rolls - and an answer of its own every time
        case["dem"] = [0] * len(case["dem"])
    return case


def shrink(case):
    if _LAST["hang"]:
        return  # every replay of a non-returning case costs the full step budget: keep the witness as it is
    dem = case["dem"]
    m = len(dem)
    key = "sizes" if case["kind"] in ("cs", "custom-cs") else None
    if m > 1:
        for i in range(m):
            c = dict(case)
            c["dem"] = dem[:i] + dem[i + 1:]
            if key:
                c["sizes"] = case["sizes"][:i] + case["sizes"][i + 1:]
            else:
                c["cols"] = sorted({col[:i] + col[i + 1:] for col in map(tuple, case["cols"]) if any(col[:i] + col[i + 1:])})
                c["init"] = [col[:i] + col[i + 1:] for col in map(tuple, case["init"]) if any(col[:i] + col[i + 1:])]
                if not c["init"] or not c["cols"]:
                    continue
                if any(d > 0 and not any(col[j] > 0 for col in c["init"]) for j, d in enumerate(c["dem"])):
                    continue
            yield c
    for i in range(m):
        if dem[i] > 0:
            c = dict(case)
            c["dem"] = list(dem)
            c["dem"][i] -= 1
            if any(c["dem"]):
                yield c
    if case["kind"] == "custom":
        cols = [tuple(x) for x in case["cols"]]
        for i in range(len(cols)):
            if len(cols) > 1:
                c = dict(case)
                c["cols"] = cols[:i] + cols[i + 1:]
                yield c
    if case["kind"] in ("cs", "custom-cs") and case["W"] > max(case["sizes"]):
        c = dict(case)
        c["W"] = case["W"] - 1
        yield c
    if case.get("float_width"):
        c = dict(case)
        c["float_width"] = False
        yield c
    for k in ("bp_max_nodes", "bp_max_iter"):
        if case.get(k):
            c = dict(case)
            c[k] = None
            yield c


def finding_keys(case, obs):
    return set(obs.mech) & MECH_KEYS
